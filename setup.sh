#!/bin/sh
# Build the framework from files on disk only (offline): Lean library + model driver, Rust harness.
set -e
cd "$(dirname "$0")"
export CARGO_NET_OFFLINE=true
mkdir -p .build evidence replays lean/CCV/Generated
(cd harness && cp -n /repo/Cargo.lock Cargo.lock 2>/dev/null || true; cargo build --release --offline)
(cd lean && lake build)
echo "setup done"
