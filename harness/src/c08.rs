//! C08 — custom-operation instantiation is total and meaning-preserving (custom_ops.rs).
//! Streams:
//!  N  `get_name()` of real instances of every public library custom operation on enumerated +
//!     random parameters vs the model's `opName` (exact string); oracle: inside one family two
//!     different parameterisations never report the same name (sig `C08:name-collision:<Struct>`);
//!  T  `Display` of generated types vs the model's `showTy`; oracle: different types print differently;
//!  P  generated contexts mixing several custom operations with varying parameters and argument
//!     types, repeated and nested uses, a helper graph called from the main graph:
//!     oracle: `run_instantiation_pass` is Ok, graph names pairwise distinct, every custom node is a
//!     `Call` of the graph named for exactly its (operation, types), no custom node is left, and the
//!     evaluation of the instantiated context (directly and after `inline_operations`) equals the
//!     reference evaluation in which each custom node is evaluated by instantiating that operation
//!     alone in a context of its own;
//!     model: the dependency structure of the instantiations (discovered here with the public
//!     `CustomOperation::instantiate`) is sent to the model's pass; the sorted graph names of the
//!     result and the callee of every root custom node must agree.
use crate::util::*;
use crate::vals::*;
use ciphercore_base::custom_ops::{run_instantiation_pass, CustomOperation, Not, Or};
use ciphercore_base::data_types::*;
use ciphercore_base::data_values::Value;
use ciphercore_base::errors::Result;
use ciphercore_base::evaluators::simple_evaluator::SimpleEvaluator;
use ciphercore_base::evaluators::{random_evaluate, Evaluator};
use ciphercore_base::graphs::{create_context, Context, Graph, Node, Operation};
use ciphercore_base::inline::inline_ops::{inline_operations, InlineConfig, InlineMode};
use ciphercore_base::mpc::low_mc::{LowMC, LowMCBlockSize};
use ciphercore_base::ops::adder::BinaryAdd;
use ciphercore_base::ops::auc::AucScore;
use ciphercore_base::ops::clip::Clip2K;
use ciphercore_base::ops::comparisons::*;
use ciphercore_base::ops::fixed_precision::fixed_multiply::FixedMultiply;
use ciphercore_base::ops::fixed_precision::fixed_precision_config::FixedPrecisionConfig;
use ciphercore_base::ops::goldschmidt_division::GoldschmidtDivision;
use ciphercore_base::ops::integer_key_sort::SortByIntegerKey;
use ciphercore_base::ops::inverse_sqrt::InverseSqrt;
use ciphercore_base::ops::long_division::LongDivision;
use ciphercore_base::ops::min_max::{Max, Min};
use ciphercore_base::ops::multiplexer::Mux;
use ciphercore_base::ops::newton_inversion::NewtonInversion;
use ciphercore_base::ops::pwl::approx_exponent::ApproxExponent;
use ciphercore_base::ops::pwl::approx_gelu::ApproxGelu;
use ciphercore_base::ops::pwl::approx_gelu_derivative::ApproxGeluDerivative;
use ciphercore_base::ops::pwl::approx_sigmoid::ApproxSigmoid;
use ciphercore_base::ops::taylor_exponent::TaylorExponent;
use std::collections::{BTreeMap, BTreeSet, HashMap};

// ------------------------------------------------------------------------------------------------
// operation descriptors
// ------------------------------------------------------------------------------------------------

/// struct name + parameters (a, b, c numeric / boolean, key string); `Other` = an operation that is
/// not public, identified by its reported name
#[derive(Clone, Debug, PartialEq, Eq, Hash, PartialOrd, Ord)]
struct OpD {
    tag: String,
    a: u64,
    b: u64,
    c: u64,
    key: String,
}

const FAMILIES: [&str; 26] = [
    "Not", "Or", "BinaryAdd", "AucScore", "Clip2K", "GreaterThan", "NotEqual", "LessThan", "LessThanEqualTo",
    "GreaterThanEqualTo", "Equal", "Min", "Max", "Mux", "LongDivision", "NewtonInversion", "InverseSqrt",
    "GoldschmidtDivision", "TaylorExponent", "ApproxExponent", "ApproxGelu", "ApproxGeluDerivative",
    "ApproxSigmoid", "FixedMultiply", "SortByIntegerKey", "LowMC",
];

/// (numeric parameters, boolean parameters among a/b/c as a mask, has key)
fn family_shape(tag: &str) -> (&'static [char], &'static [char], bool) {
    match tag {
        "Not" | "Or" | "NotEqual" | "Equal" | "Mux" => (&[], &[], false),
        "BinaryAdd" | "GreaterThan" | "LessThan" | "LessThanEqualTo" | "GreaterThanEqualTo" | "Min" | "Max" | "LongDivision" => (&[], &['a'], false),
        "AucScore" | "FixedMultiply" => (&['a'], &['b'], false),
        "Clip2K" | "ApproxExponent" => (&['a'], &[], false),
        "NewtonInversion" | "InverseSqrt" | "GoldschmidtDivision" | "TaylorExponent" | "ApproxGelu" | "ApproxGeluDerivative" | "ApproxSigmoid" => (&['a', 'b'], &[], false),
        "SortByIntegerKey" => (&[], &[], true),
        "LowMC" => (&['a', 'b'], &['c'], false),
        _ => (&[], &[], false),
    }
}

fn opd(tag: &str, a: u64, b: u64, c: u64, key: &str) -> OpD {
    OpD { tag: tag.to_owned(), a, b, c, key: key.to_owned() }
}

impl OpD {
    fn build(&self) -> Option<CustomOperation> {
        let (a, b) = (self.a, self.b);
        let s = a == 1;
        Some(match self.tag.as_str() {
            "Not" => CustomOperation::new(Not {}),
            "Or" => CustomOperation::new(Or {}),
            "BinaryAdd" => CustomOperation::new(BinaryAdd { overflow_bit: s }),
            "AucScore" => CustomOperation::new(AucScore { fp: FixedPrecisionConfig { fractional_bits: a, debug: b == 1 } }),
            "Clip2K" => CustomOperation::new(Clip2K { k: a }),
            "GreaterThan" => CustomOperation::new(GreaterThan { signed_comparison: s }),
            "NotEqual" => CustomOperation::new(NotEqual {}),
            "LessThan" => CustomOperation::new(LessThan { signed_comparison: s }),
            "LessThanEqualTo" => CustomOperation::new(LessThanEqualTo { signed_comparison: s }),
            "GreaterThanEqualTo" => CustomOperation::new(GreaterThanEqualTo { signed_comparison: s }),
            "Equal" => CustomOperation::new(Equal {}),
            "Min" => CustomOperation::new(Min { signed_comparison: s }),
            "Max" => CustomOperation::new(Max { signed_comparison: s }),
            "Mux" => CustomOperation::new(Mux {}),
            "LongDivision" => CustomOperation::new(LongDivision { signed: s }),
            "NewtonInversion" => CustomOperation::new(NewtonInversion { iterations: a, denominator_cap_2k: b }),
            "InverseSqrt" => CustomOperation::new(InverseSqrt { iterations: a, denominator_cap_2k: b }),
            "GoldschmidtDivision" => CustomOperation::new(GoldschmidtDivision { iterations: a, denominator_cap_2k: b }),
            "TaylorExponent" => CustomOperation::new(TaylorExponent { taylor_terms: a, fixed_precision_points: b }),
            "ApproxExponent" => CustomOperation::new(ApproxExponent { precision: a }),
            "ApproxGelu" => CustomOperation::new(ApproxGelu { precision: a, approximation_log_buckets: b }),
            "ApproxGeluDerivative" => CustomOperation::new(ApproxGeluDerivative { precision: a, approximation_log_buckets: b }),
            "ApproxSigmoid" => CustomOperation::new(ApproxSigmoid { precision: a, approximation_log_buckets: b }),
            "FixedMultiply" => CustomOperation::new(FixedMultiply { config: FixedPrecisionConfig { fractional_bits: a, debug: b == 1 } }),
            "SortByIntegerKey" => CustomOperation::new(SortByIntegerKey { key: self.key.clone() }),
            "LowMC" => CustomOperation::new(LowMC {
                s_boxes_per_round: a,
                rounds: b,
                block_size: if self.c == 1 { LowMCBlockSize::SIZE128 } else { LowMCBlockSize::SIZE80 },
            }),
            _ => return None,
        })
    }

    /// descriptor of an operation met in a graph (through its serde form; struct name = type tag)
    fn of(op: &CustomOperation) -> OpD {
        let v = serde_json::to_value(op).unwrap_or(serde_json::Value::Null);
        let body = &v["body"];
        let tag = body["type"].as_str().unwrap_or("?").to_owned();
        let u = |x: &serde_json::Value| -> u64 {
            if let Some(b) = x.as_bool() {
                b as u64
            } else {
                x.as_u64().unwrap_or_else(|| x.to_string().parse().unwrap_or(0))
            }
        };
        let (mut a, mut b, mut c, mut key) = (0, 0, 0, String::new());
        match tag.as_str() {
            "Not" | "Or" | "NotEqual" | "Equal" | "Mux" => {}
            "BinaryAdd" => a = u(&body["overflow_bit"]),
            "AucScore" => {
                a = u(&body["fp"]["fractional_bits"]);
                b = u(&body["fp"]["debug"]);
            }
            "Clip2K" => a = u(&body["k"]),
            "GreaterThan" | "LessThan" | "LessThanEqualTo" | "GreaterThanEqualTo" | "Min" | "Max" => a = u(&body["signed_comparison"]),
            "LongDivision" => a = u(&body["signed"]),
            "NewtonInversion" | "InverseSqrt" | "GoldschmidtDivision" => {
                a = u(&body["iterations"]);
                b = u(&body["denominator_cap_2k"]);
            }
            "TaylorExponent" => {
                a = u(&body["taylor_terms"]);
                b = u(&body["fixed_precision_points"]);
            }
            "ApproxExponent" => a = u(&body["precision"]),
            "ApproxGelu" | "ApproxGeluDerivative" | "ApproxSigmoid" => {
                a = u(&body["precision"]);
                b = u(&body["approximation_log_buckets"]);
            }
            "FixedMultiply" => {
                a = u(&body["config"]["fractional_bits"]);
                b = u(&body["config"]["debug"]);
            }
            "SortByIntegerKey" => key = body["key"].as_str().unwrap_or("").to_owned(),
            "LowMC" => {
                a = u(&body["s_boxes_per_round"]);
                b = u(&body["rounds"]);
                c = (body["block_size"].as_str() == Some("SIZE128")) as u64;
            }
            _ => {
                return OpD { tag: "Other".to_owned(), a: 0, b: 0, c: 0, key: op.get_name() };
            }
        }
        OpD { tag, a, b, c, key }
    }

    fn token(&self) -> String {
        format!("{}:{}:{}:{}:{}", self.tag, self.a, self.b, self.c, str_token(&self.key))
    }
}

fn str_token(s: &str) -> String {
    if s.is_empty() {
        return "_".to_owned();
    }
    s.chars().map(|c| (c as u32).to_string()).collect::<Vec<_>>().join(".")
}

/// prefix notation of a type (see Drv/C08.lean)
fn ty_tokens(t: &Type, out: &mut Vec<String>) {
    match t {
        Type::Scalar(st) => {
            out.push("s".into());
            out.push(st_name(*st).into());
        }
        Type::Array(shape, st) => {
            out.push("a".into());
            out.push(st_name(*st).into());
            out.push(shape.len().to_string());
            for d in shape {
                out.push(d.to_string());
            }
        }
        Type::Vector(n, t) => {
            out.push("v".into());
            out.push(n.to_string());
            ty_tokens(t, out);
        }
        Type::Tuple(ts) => {
            out.push("t".into());
            out.push(ts.len().to_string());
            for t in ts {
                ty_tokens(t, out);
            }
        }
        Type::NamedTuple(fs) => {
            out.push("n".into());
            out.push(fs.len().to_string());
            for (n, t) in fs {
                out.push(str_token(n));
                ty_tokens(t, out);
            }
        }
    }
}

fn tys_token(ts: &[Type]) -> String {
    let mut v = vec![ts.len().to_string()];
    for t in ts {
        ty_tokens(t, &mut v);
    }
    v.join(" ")
}

// ------------------------------------------------------------------------------------------------
// stream N: names
// ------------------------------------------------------------------------------------------------

const KEYS: [&str; 14] = ["a", "b", "key", "", "a b", "A", "x_1", "q\"", "back\\slash", "\\\"", "é", "жук", "中", "a)::<b"];

fn gen_u64(rng: &mut Rng) -> u64 {
    match rng.below(8) {
        0 => rng.below(4),
        1 => 9 + rng.below(3),
        2 => 99 + rng.below(3),
        3 => rng.below(200),
        4 => (1u64 << (rng.below(63) + 1)) - rng.below(2),
        5 => u64::MAX - rng.below(2),
        6 => 10u64.pow(rng.below(20) as u32),
        _ => rng.next(),
    }
}

fn gen_key(rng: &mut Rng) -> String {
    if rng.chance(1, 2) {
        return (*rng.pick(&KEYS)).to_owned();
    }
    // printable characters only (`{:?}` escapes control characters; outside the modelled domain)
    const ALPHA: [char; 24] = ['a', 'b', 'z', 'A', 'Z', '0', '9', '_', ' ', '"', '\\', ')', '(', ':', '<', '>', ',', '=', '\'', 'é', 'ж', '中', '-', '.'];
    let n = rng.below(7);
    (0..n).map(|_| *rng.pick(&ALPHA)).collect()
}

fn params_of(tag: &str, rng: &mut Rng, n_random: usize) -> Vec<OpD> {
    let (nums, bools, has_key) = family_shape(tag);
    let mut out: BTreeSet<OpD> = BTreeSet::new();
    let small = [0u64, 1, 2, 5, 9, 10, 15, 63, 64, 65, 100, 127, 128];
    let set = |d: &mut OpD, f: char, v: u64| match f {
        'a' => d.a = v,
        'b' => d.b = v,
        _ => d.c = v,
    };
    let nbool = 1u64 << bools.len();
    if has_key {
        for k in KEYS {
            out.insert(opd(tag, 0, 0, 0, k));
        }
    }
    for mask in 0..nbool {
        let mut base = opd(tag, 0, 0, 0, "");
        for (i, f) in bools.iter().enumerate() {
            set(&mut base, *f, (mask >> i) & 1);
        }
        match nums.len() {
            0 => {
                if !has_key {
                    out.insert(base.clone());
                }
            }
            1 => {
                for v in small {
                    let mut d = base.clone();
                    set(&mut d, nums[0], v);
                    out.insert(d);
                }
            }
            _ => {
                for v in small.iter().take(8) {
                    for w in small.iter().take(8) {
                        let mut d = base.clone();
                        set(&mut d, nums[0], *v);
                        set(&mut d, nums[1], *w);
                        out.insert(d);
                    }
                }
            }
        }
    }
    if !nums.is_empty() || has_key {
        for _ in 0..n_random {
            let mut d = opd(tag, 0, 0, 0, "");
            for f in nums {
                set(&mut d, *f, gen_u64(rng));
            }
            for f in bools {
                set(&mut d, *f, rng.below(2));
            }
            if has_key {
                d.key = gen_key(rng);
            }
            out.insert(d);
        }
    }
    out.into_iter().collect()
}

/// returns the families whose reported name does not determine the parameters
fn stream_names(run: &mut Run) -> BTreeSet<String> {
    let mut rng = run.rng("names");
    let n_random = run.tier.scale(150, 1500);
    let mut defective = BTreeSet::new();
    let mut all_names: HashMap<String, OpD> = HashMap::new();
    for tag in FAMILIES {
        let ps = params_of(tag, &mut rng, n_random);
        let mut by_name: HashMap<String, OpD> = HashMap::new();
        let mut named = vec![];
        for d in ps {
            let op = match d.build() {
                Some(op) => op,
                None => continue,
            };
            let name = match catch(|| op.get_name()) {
                Ok(n) => n,
                Err(e) => {
                    run.oracle_fail(&format!("C08:panic:get_name:{}", tag), format!("{:?}: {}", d, e));
                    continue;
                }
            };
            // round trip of the descriptor through the operation (keeps the harness honest)
            if OpD::of(&op) != d {
                run.oracle_fail("C08:harness:descriptor-roundtrip", format!("{:?} vs {:?}", d, OpD::of(&op)));
            }
            run.oracle_case(&format!("name-injective {}", d.token()), true);
            if let Some(prev) = by_name.get(&name) {
                if *prev != d {
                    if defective.insert(tag.to_owned()) {
                        run.oracle_fail(
                            &format!("C08:name-collision:{}", tag),
                            format!("{:?} and {:?} both report the name {:?}", prev, d, name),
                        );
                    }
                    run.count(&format!("name_collision:{}", tag));
                }
            } else {
                by_name.insert(name.clone(), d.clone());
            }
            if let Some(prev) = all_names.get(&name) {
                if prev.tag != d.tag {
                    run.oracle_fail("C08:name-collision:across-families", format!("{:?} and {:?} both report {:?}", prev, d, name));
                }
            } else {
                all_names.insert(name.clone(), d.clone());
            }
            named.push((d, name));
        }
        if defective.contains(tag) {
            // the model states the repaired format; the exact comparison resumes once the name
            // determines the parameters
            run.count_n(&format!("name_cases_skipped:{}", tag), named.len() as u64);
            continue;
        }
        for (d, name) in named {
            if name.contains('\n') {
                continue;
            }
            let nontrivial = d.a > 1 || d.b > 1 || !d.key.is_empty() || family_shape(tag).1.len() > 0;
            run.case(format!("name {}", d.token()), name, nontrivial);
            run.count(&format!("name:{}", tag));
        }
    }
    defective
}

// ------------------------------------------------------------------------------------------------
// stream T: type printing
// ------------------------------------------------------------------------------------------------

fn gen_type(rng: &mut Rng, depth: u32) -> Type {
    let st = *rng.pick(&ALL_ST);
    let k = if depth == 0 { rng.below(2) } else { rng.below(6) };
    match k {
        0 => scalar_type(st),
        1 => array_type(gen_shape(rng, 3, 200, 1 << 40), st),
        2 => vector_type(gen_u64(rng) % 1000, gen_type(rng, depth - 1)),
        3 => tuple_type((0..rng.below(4)).map(|_| gen_type(rng, depth - 1)).collect()),
        _ => {
            let n = rng.below(4);
            named_tuple_type((0..n).map(|i| (format!("{}{}", gen_key(rng), i), gen_type(rng, depth - 1))).collect())
        }
    }
}

fn stream_types(run: &mut Run) {
    let mut rng = run.rng("types");
    let n = run.tier.scale(400, 4000);
    let mut printed: HashMap<String, Type> = HashMap::new();
    for _ in 0..n {
        let t = gen_type(&mut rng, 2);
        let s = format!("{}", t);
        if s.contains('\n') {
            continue;
        }
        let mut toks = vec![];
        ty_tokens(&t, &mut toks);
        run.case(format!("ty {}", toks.join(" ")), s.clone(), !t.is_scalar());
        run.count(match t {
            Type::Scalar(_) => "ty:scalar",
            Type::Array(..) => "ty:array",
            Type::Vector(..) => "ty:vector",
            Type::Tuple(_) => "ty:tuple",
            Type::NamedTuple(_) => "ty:named",
        });
        run.oracle_case(&format!("ty-injective {}", s), true);
        if let Some(prev) = printed.get(&s) {
            if *prev != t {
                run.oracle_fail("C08:type-print-collision", format!("{:?} and {:?} both print {:?}", prev, t, s));
            }
        } else {
            printed.insert(s, t);
        }
    }
}

// ------------------------------------------------------------------------------------------------
// stream P: contexts
// ------------------------------------------------------------------------------------------------

fn is_bits(t: &Type) -> bool {
    t.is_array() && t.get_scalar_type() == BIT
}
fn is_wide_bits(t: &Type) -> bool {
    is_bits(t) && *t.get_shape().last().unwrap() >= 4 && t.get_shape().len() >= 2
}
fn is_st(t: &Type, st: ScalarType) -> bool {
    (t.is_array() || t.is_scalar()) && t.get_scalar_type() == st
}

struct Builder<'a> {
    rng: &'a mut Rng,
    g: Graph,
    pool: Vec<Node>,
    customs: Vec<Node>,
    descr: Vec<String>,
    rejected: u64,
}

impl<'a> Builder<'a> {
    fn pick_where(&mut self, f: &dyn Fn(&Type) -> bool) -> Option<Node> {
        let c: Vec<Node> = self.pool.iter().filter(|n| n.get_type().map(|t| f(&t)).unwrap_or(false)).cloned().collect();
        if c.is_empty() {
            None
        } else {
            Some(self.rng.pick(&c).clone())
        }
    }
    fn pick_same(&mut self, n: &Node) -> Option<Node> {
        let t = n.get_type().ok()?;
        self.pick_where(&|u| *u == t)
    }

    /// one attempt to add a custom node; parameters come from small sets so that the same
    /// operation meets the same argument types with different parameters
    fn step(&mut self, table_keys: &[String], heavy: bool) -> Option<()> {
        let r = self.rng.below(if heavy { 26 } else { 20 });
        let s = self.rng.below(2);
        let (d, args): (OpD, Vec<Node>) = match r {
            0 => {
                let a = self.pick_where(&|t| is_st(t, BIT))?;
                (opd("Not", 0, 0, 0, ""), vec![a])
            }
            1 => {
                let a = self.pick_where(&|t| is_st(t, BIT))?;
                let b = self.pick_same(&a)?;
                (opd("Or", 0, 0, 0, ""), vec![a, b])
            }
            2 => {
                let a = self.pick_where(&is_wide_bits)?;
                let b = self.pick_same(&a)?;
                (opd("BinaryAdd", s, 0, 0, ""), vec![a, b])
            }
            3 | 4 => {
                let a = self.pick_where(&is_wide_bits)?;
                let k = *self.rng.pick(&[1u64, 2, 5]);
                (opd("Clip2K", k, 0, 0, ""), vec![a])
            }
            5 | 6 | 7 => {
                let a = self.pick_where(&is_wide_bits)?;
                let b = self.pick_same(&a)?;
                let tag = *self.rng.pick(&["GreaterThan", "LessThan", "LessThanEqualTo", "GreaterThanEqualTo", "Equal", "NotEqual"]);
                let s = if tag == "Equal" || tag == "NotEqual" { 0 } else { s };
                (opd(tag, s, 0, 0, ""), vec![a, b])
            }
            8 | 9 => {
                let a = self.pick_where(&is_wide_bits)?;
                let b = self.pick_same(&a)?;
                (opd(*self.rng.pick(&["Min", "Max"]), s, 0, 0, ""), vec![a, b])
            }
            10 | 11 => {
                // comparisons feed Mux: a flag of shape [n] selects between rows of [n, w] after
                // the flag is reshaped by the caller; here: flag and choices of equal type, or a
                // scalar-per-row flag with integer choices
                let a = self.pick_where(&|t| t.is_array())?;
                let b = self.pick_same(&a)?;
                let at = a.get_type().ok()?;
                let f = if at.get_scalar_type() == BIT {
                    self.pick_same(&a)?
                } else {
                    let shape = at.get_shape();
                    self.pick_where(&|t| is_bits(t) && t.get_shape() == shape)?
                };
                (opd("Mux", 0, 0, 0, ""), vec![f, a, b])
            }
            12 => {
                let a = self.pick_where(&|t| is_st(t, INT64))?;
                let b = self.pick_same(&a)?;
                let fb = *self.rng.pick(&[3u64, 10]);
                (opd("FixedMultiply", fb, s, 0, ""), vec![a, b])
            }
            13 | 14 => {
                let a = self.pick_where(&|t| t.is_named_tuple())?;
                let k = self.rng.pick(table_keys).clone();
                (opd("SortByIntegerKey", 0, 0, 0, &k), vec![a])
            }
            15 => {
                let a = self.pick_where(&|t| is_st(t, INT64))?;
                let it = *self.rng.pick(&[1u64, 2, 3]);
                let cap = *self.rng.pick(&[4u64, 10]);
                (opd("NewtonInversion", it, cap, 0, ""), vec![a])
            }
            16 => {
                let a = self.pick_where(&|t| is_st(t, INT64))?;
                let p = *self.rng.pick(&[4u64, 10]);
                let b = *self.rng.pick(&[3u64, 4]);
                let tag = *self.rng.pick(&["ApproxSigmoid", "ApproxGelu", "ApproxGeluDerivative"]);
                (opd(tag, p, b, 0, ""), vec![a])
            }
            17 => {
                let a = self.pick_where(&|t| is_st(t, INT64))?;
                (opd("ApproxExponent", *self.rng.pick(&[4u64, 10]), 0, 0, ""), vec![a])
            }
            18 => {
                let a = self.pick_where(&|t| is_st(t, INT64))?;
                let b = self.pick_same(&a)?;
                let it = *self.rng.pick(&[1u64, 2]);
                (opd("GoldschmidtDivision", it, *self.rng.pick(&[4u64, 10]), 0, ""), vec![a, b])
            }
            19 => {
                let a = self.pick_where(&|t| is_st(t, INT64))?;
                (opd("TaylorExponent", *self.rng.pick(&[2u64, 3]), *self.rng.pick(&[4u64, 10]), 0, ""), vec![a])
            }
            20 => {
                let a = self.pick_where(&|t| is_st(t, UINT64))?;
                (opd("InverseSqrt", *self.rng.pick(&[1u64, 2]), *self.rng.pick(&[4u64, 10]), 0, ""), vec![a])
            }
            21 | 22 => {
                let a = self.pick_where(&is_wide_bits)?;
                let b = self.pick_same(&a)?;
                (opd("LongDivision", s, 0, 0, ""), vec![a, b])
            }
            23 => {
                let a = self.pick_where(&|t| is_st(t, INT64) && t.is_array() && t.get_shape().len() == 1)?;
                let b = self.pick_same(&a)?;
                (opd("AucScore", *self.rng.pick(&[3u64, 10]), s, 0, ""), vec![a, b])
            }
            _ => {
                let a = self.pick_where(&|t| is_wide_bits(t) && *t.get_shape().last().unwrap() <= 80)?;
                let k = self.pick_where(&|t| *t == array_type(vec![128], BIT))?;
                (opd("LowMC", *self.rng.pick(&[10u64, 11]), *self.rng.pick(&[1u64, 2]), s, ""), vec![a, k])
            }
        };
        let op = d.build()?;
        match catch(|| self.g.custom_op(op, args.clone())) {
            Ok(Ok(n)) => {
                let ids: Vec<String> = args.iter().map(|a| a.get_id().to_string()).collect();
                self.descr.push(format!("{}({})", d.token(), ids.join(",")));
                self.pool.push(n.clone());
                self.customs.push(n);
                Some(())
            }
            _ => {
                self.rejected += 1;
                None
            }
        }
    }
}

fn table_type(rng: &mut Rng) -> (Type, Vec<String>) {
    let n = 2 + rng.below(3);
    let names = ["a", "b", "k\"", "c d"];
    let sts = [UINT16, INT8, UINT32, BIT];
    let cols: Vec<(String, Type)> = (0..3).map(|i| (names[i].to_owned(), array_type(vec![n], sts[(i + rng.below(2) as usize) % 4]))).collect();
    let keys = cols.iter().map(|c| c.0.clone()).collect();
    (named_tuple_type(cols), keys)
}

struct Built {
    ctx: Context,
    input_types: Vec<Type>,
    descr: String,
    n_custom: usize,
    rejected: u64,
}

fn gen_context(rng: &mut Rng, heavy: bool) -> Result<Built> {
    let c = create_context()?;
    let rows = 1 + rng.below(3);
    let w = *rng.pick(&[4u64, 8, 16]);
    let bt = array_type(vec![rows, w], BIT);
    let it = if rng.chance(1, 4) { scalar_type(INT64) } else { array_type(vec![rows], INT64) };
    let (tt, keys) = table_type(rng);
    let mut descr = vec![];
    // optional helper graph, called from the main graph
    let helper = if rng.chance(1, 2) {
        let h = c.create_graph()?;
        let pool = vec![h.input(bt.clone())?, h.input(bt.clone())?, h.input(it.clone())?];
        let mut b = Builder { rng, g: h.clone(), pool, customs: vec![], descr: vec![], rejected: 0 };
        let steps = 1 + b.rng.below(3);
        for _ in 0..steps * 3 {
            if b.customs.len() as u64 >= steps {
                break;
            }
            b.step(&keys, false);
        }
        if b.customs.is_empty() {
            let n = h.custom_op(CustomOperation::new(Min { signed_comparison: true }), vec![b.pool[0].clone(), b.pool[1].clone()])?;
            b.customs.push(n);
            b.descr.push("Min:1(0,1)".into());
        }
        let out = h.create_tuple(b.customs.clone())?;
        h.set_output_node(out)?;
        h.finalize()?;
        descr.push(format!("helper[{}]", b.descr.join(" ")));
        Some((h, b.customs.len()))
    } else {
        None
    };
    let g = c.create_graph()?;
    let mut input_types = vec![bt.clone(), bt.clone(), bt.clone(), it.clone(), it.clone(), array_type(vec![rows], UINT64), tt.clone(), array_type(vec![rows], BIT)];
    if heavy {
        input_types.push(array_type(vec![128], BIT));
    }
    let mut pool = vec![];
    for t in &input_types {
        pool.push(g.input(t.clone())?);
    }
    let mut n_custom = 0;
    if let Some((h, n_out)) = &helper {
        let r = g.call(h.clone(), vec![pool[0].clone(), pool[2].clone(), pool[3].clone()])?;
        for i in 0..*n_out {
            pool.push(r.tuple_get(i as u64)?);
        }
        n_custom += n_out;
    }
    let mut b = Builder { rng, g: g.clone(), pool, customs: vec![], descr: vec![], rejected: 0 };
    let steps = 2 + b.rng.below(7);
    for _ in 0..steps * 3 {
        if b.customs.len() as u64 >= steps {
            break;
        }
        b.step(&keys, heavy);
    }
    let mut outs = b.customs.clone();
    if outs.is_empty() {
        outs.push(b.pool[0].clone());
    }
    // keep everything the helper returned alive as well
    let out = g.create_tuple(outs)?;
    g.set_output_node(out)?;
    g.finalize()?;
    c.set_main_graph(g)?;
    c.finalize()?;
    n_custom += b.customs.len();
    descr.push(format!("rows={} w={} main[{}]", rows, w, b.descr.join(" ")));
    Ok(Built { ctx: c, input_types, descr: descr.join(" "), n_custom, rejected: b.rejected })
}

fn gen_value(rng: &mut Rng, t: &Type) -> Value {
    match t {
        Type::Scalar(st) | Type::Array(_, st) => {
            let n: u64 = if let Type::Array(s, _) = t { s.iter().product() } else { 1 };
            if *st == BIT {
                let xs: Vec<u64> = (0..n).map(|_| rng.below(2)).collect();
                Value::from_flattened_array(&xs, *st).unwrap()
            } else if *st == INT64 || *st == UINT64 {
                // small positive values: the fixed-point operations assume a bounded range
                let xs: Vec<u64> = (0..n).map(|_| 1 + rng.below(2000)).collect();
                Value::from_flattened_array(&xs, *st).unwrap()
            } else {
                let xs: Vec<u64> = (0..n).map(|_| rng.below(1 << (st_bits(*st).min(16) - 1))).collect();
                Value::from_flattened_array(&xs, *st).unwrap()
            }
        }
        Type::Vector(n, t) => Value::from_vector((0..*n).map(|_| gen_value(rng, t)).collect()),
        Type::Tuple(ts) => Value::from_vector(ts.iter().map(|t| gen_value(rng, t)).collect()),
        Type::NamedTuple(fs) => Value::from_vector(fs.iter().map(|(_, t)| gen_value(rng, t)).collect()),
    }
}

/// reference semantics of one custom node: the operation instantiated alone, in its own context
struct Reference {
    cache: HashMap<(OpD, Vec<Type>), (Context, Context)>,
}

impl Reference {
    fn eval_custom(&mut self, op: &CustomOperation, tys: Vec<Type>, vals: Vec<Value>) -> Result<Value> {
        let key = (OpD::of(op), tys.clone());
        if !self.cache.contains_key(&key) {
            let c = create_context()?;
            let g = c.create_graph()?;
            let mut ins = vec![];
            for t in &tys {
                ins.push(g.input(t.clone())?);
            }
            let o = g.custom_op(op.clone(), ins)?;
            g.set_output_node(o)?;
            g.finalize()?;
            c.set_main_graph(g)?;
            c.finalize()?;
            let ic = run_instantiation_pass(c.clone())?.get_context();
            self.cache.insert(key.clone(), (c, ic));
        }
        let (_, ic) = self.cache.get(&key).unwrap();
        random_evaluate(ic.get_main_graph()?, vals)
    }

    /// node by node over the graph as written; custom nodes by on-the-fly instantiation
    fn eval_graph(&mut self, g: &Graph, inputs: Vec<Value>) -> Result<Value> {
        let mut ev = SimpleEvaluator::new(None)?;
        let mut vals: Vec<Value> = vec![];
        let mut next_input = 0;
        for node in g.get_nodes() {
            let deps: Vec<Value> = node.get_node_dependencies().iter().map(|d| vals[d.get_id() as usize].clone()).collect();
            let v = match node.get_operation() {
                Operation::Input(_) => {
                    next_input += 1;
                    inputs[next_input - 1].clone()
                }
                Operation::Custom(op) => {
                    let mut tys = vec![];
                    for d in node.get_node_dependencies() {
                        tys.push(d.get_type()?);
                    }
                    self.eval_custom(&op, tys, deps)?
                }
                Operation::Call => {
                    let h = node.get_graph_dependencies()[0].clone();
                    self.eval_graph(&h, deps)?
                }
                _ => ev.evaluate_node(node.clone(), deps)?,
            };
            vals.push(v);
        }
        Ok(vals[g.get_output_node()?.get_id() as usize].clone())
    }
}

/// the instantiations of a context and what each of them uses (discovered with the public API)
struct Deps {
    insts: Vec<(OpD, Vec<Type>, Vec<usize>)>,
    roots: Vec<usize>,
}

fn discover(ctx: &Context) -> Result<Deps> {
    fn visit(op: &CustomOperation, tys: Vec<Type>, index: &mut HashMap<(OpD, Vec<Type>), usize>, insts: &mut Vec<(OpD, Vec<Type>, Vec<usize>)>, depth: u32) -> Result<usize> {
        let d = OpD::of(op);
        if let Some(i) = index.get(&(d.clone(), tys.clone())) {
            return Ok(*i);
        }
        if depth > 40 {
            return Err(ciphercore_base::errors::Error::from(anyhow::anyhow!("too deep")));
        }
        let i = insts.len();
        index.insert((d.clone(), tys.clone()), i);
        insts.push((d, tys.clone(), vec![]));
        let fake = create_context()?;
        op.instantiate(fake.clone(), tys)?;
        let mut uses = vec![];
        for g in fake.get_graphs() {
            for n in g.get_nodes() {
                if let Operation::Custom(o) = n.get_operation() {
                    let mut ts = vec![];
                    for dep in n.get_node_dependencies() {
                        ts.push(dep.get_type()?);
                    }
                    uses.push(visit(&o, ts, index, insts, depth + 1)?);
                }
            }
        }
        insts[i].2 = uses;
        Ok(i)
    }
    let mut index = HashMap::new();
    let mut insts = vec![];
    let mut roots = vec![];
    for g in ctx.get_graphs() {
        for n in g.get_nodes() {
            if let Operation::Custom(o) = n.get_operation() {
                let mut ts = vec![];
                for dep in n.get_node_dependencies() {
                    ts.push(dep.get_type()?);
                }
                roots.push(visit(&o, ts, &mut index, &mut insts, 0)?);
            }
        }
    }
    Ok(Deps { insts, roots })
}

const SEP: &str = " ;; ";

fn stream_contexts(run: &mut Run, defective: &BTreeSet<String>) {
    let mut rng = run.rng("contexts");
    let n = run.tier.scale(500, 4000);
    let mut reference = Reference { cache: HashMap::new() };
    for it in 0..n {
        let heavy = it % 12 == 11;
        let built = match catch(|| gen_context(&mut rng, heavy)) {
            Ok(Ok(b)) => b,
            Ok(Err(e)) => {
                run.oracle_fail("C08:harness:generator", format!("{}", e));
                continue;
            }
            Err(e) => {
                run.oracle_fail("C08:panic:build", e);
                continue;
            }
        };
        run.count_n("custom_nodes", built.n_custom as u64);
        run.count_n("custom_rejected_by_typecheck", built.rejected);
        let descr = built.descr.clone();
        run.oracle_case(&format!("pass {}", descr), built.n_custom >= 2);
        let deps = match catch(|| discover(&built.ctx)) {
            Ok(Ok(d)) => d,
            Ok(Err(e)) => {
                run.oracle_fail("C08:harness:discover", format!("{} :: {}", descr, e));
                continue;
            }
            Err(e) => {
                run.oracle_fail("C08:panic:instantiate", format!("{} :: {}", descr, e));
                continue;
            }
        };
        run.count_n("instantiations", deps.insts.len() as u64);
        for (d, _, _) in &deps.insts {
            run.count(&format!("inst:{}", d.tag));
        }
        // repeated (operation, types) and same operation family + same types with other parameters
        let mut fam_types: BTreeMap<(String, String), BTreeSet<OpD>> = BTreeMap::new();
        for (d, ts, _) in &deps.insts {
            fam_types.entry((d.tag.clone(), tys_token(ts))).or_default().insert(d.clone());
        }
        let variants = fam_types.values().filter(|s| s.len() > 1).count();
        if variants > 0 {
            run.count("ctx_with_parameter_variants_on_same_types");
        }
        if deps.roots.len() > deps.roots.iter().collect::<BTreeSet<_>>().len() {
            run.count("ctx_with_repeated_instantiation");
        }
        let uses_defective = deps.insts.iter().any(|(d, _, _)| defective.contains(&d.tag));

        // ---- the pass itself
        let mapped = match catch(|| run_instantiation_pass(built.ctx.clone())) {
            Ok(Ok(m)) => m,
            Ok(Err(e)) => {
                let msg = format!("{}", e);
                // classify: two different instantiations with the same reported name and types
                let mut sig = "C08:pass-error".to_owned();
                if msg.contains("Graph names must be unique") {
                    for ((tag, _), s) in &fam_types {
                        if s.len() > 1 {
                            let names: BTreeSet<String> = s.iter().map(|d| if d.tag == "Other" { d.key.clone() } else { d.build().map(|o| o.get_name()).unwrap_or_default() }).collect();
                            if names.len() < s.len() && sig == "C08:pass-error" {
                                sig = format!("C08:name-collision:{}", tag);
                            }
                        }
                    }
                }
                run.count(&format!("pass_err:{}", sig));
                run.oracle_fail(&sig, format!("run_instantiation_pass failed on {} :: {}", descr, msg.lines().next().unwrap_or("")));
                continue;
            }
            Err(e) => {
                run.oracle_fail("C08:panic:run_instantiation_pass", format!("{} :: {}", descr, e));
                continue;
            }
        };
        run.count("pass_ok");
        let ictx = mapped.get_context();
        // names pairwise distinct; no custom node left
        let mut names = vec![];
        let mut left = 0;
        for g in ictx.get_graphs() {
            if let Ok(nm) = g.get_name() {
                names.push(nm);
            }
            for nd in g.get_nodes() {
                if let Operation::Custom(_) = nd.get_operation() {
                    left += 1;
                }
            }
        }
        names.sort();
        if names.windows(2).any(|w| w[0] == w[1]) {
            run.oracle_fail("C08:names-not-distinct", descr.clone());
        }
        if left > 0 {
            run.oracle_fail("C08:custom-node-left", descr.clone());
        }
        // every custom node became a Call of the graph named for its (operation, types)
        let mut callees = vec![];
        let mut k = 0;
        for g in built.ctx.get_graphs() {
            for nd in g.get_nodes() {
                if let Operation::Custom(op) = nd.get_operation() {
                    let new = mapped.mappings.get_node(&nd);
                    let callee = match new.get_operation() {
                        Operation::Call => new.get_graph_dependencies()[0].get_name().unwrap_or_else(|_| "?".into()),
                        _ => "not-a-call".to_owned(),
                    };
                    let (_, tys, _) = &deps.insts[deps.roots[k]];
                    let expect = format!("__{}::<{}>", op.get_name(), tys.iter().map(|t| format!("{}", t)).collect::<Vec<_>>().join(", "));
                    if callee != expect {
                        run.oracle_fail("C08:wrong-callee", format!("{} :: node {} calls {:?}, expected {:?}", descr, k, callee, expect));
                    }
                    callees.push(callee);
                    k += 1;
                }
            }
        }
        // ---- model of the pass on the dependency structure
        if !uses_defective && names.iter().all(|n| !n.contains('\n')) {
            let mut req = format!("pass {}", deps.insts.len());
            for (d, ts, uses) in &deps.insts {
                req.push_str(&format!(" {} {} {}", d.token(), tys_token(ts), uses.len()));
                for u in uses {
                    req.push_str(&format!(" {}", u));
                }
            }
            req.push_str(&format!(" {}", deps.roots.len()));
            for r in &deps.roots {
                req.push_str(&format!(" {}", r));
            }
            run.case(req, format!("{} ## {}", names.join(SEP), callees.join(SEP)), deps.insts.len() >= 3);
        } else {
            run.count("pass_case_skipped_defective_name");
        }
        // ---- evaluation
        let inputs: Vec<Value> = built.input_types.iter().map(|t| gen_value(&mut rng, t)).collect();
        let main = built.ctx.get_main_graph().unwrap();
        let expected = catch(|| reference.eval_graph(&main, inputs.clone()));
        let got = catch(|| random_evaluate(ictx.get_main_graph()?, inputs.clone()));
        let inl = catch(|| -> Result<Value> {
            let nctx = inline_operations(&ictx, InlineConfig { default_mode: InlineMode::Simple, ..Default::default() })?.get_context();
            random_evaluate(nctx.get_main_graph()?, inputs.clone())
        });
        match (&expected, &got, &inl) {
            (Ok(Ok(e)), Ok(Ok(g)), Ok(Ok(i))) => {
                run.count("eval_compared");
                if e != g {
                    run.oracle_fail("C08:eval-mismatch:instantiated", descr.clone());
                }
                if e != i {
                    run.oracle_fail("C08:eval-mismatch:inlined", descr.clone());
                }
            }
            (Ok(Err(_)), Ok(Err(_)), Ok(Err(_))) => run.count("eval_both_error"),
            (Err(e), _, _) | (_, Err(e), _) | (_, _, Err(e)) => run.oracle_fail("C08:panic:evaluate", format!("{} :: {}", descr, e)),
            _ => run.oracle_fail(
                "C08:eval-mismatch:error-vs-value",
                format!("{} :: reference ok={} instantiated ok={} inlined ok={}", descr, matches!(expected, Ok(Ok(_))), matches!(got, Ok(Ok(_))), matches!(inl, Ok(Ok(_)))),
            ),
        }
    }
}

/// the failing shape of the design (two keys on one table type etc.), directly
fn stream_directed(run: &mut Run) {
    let table = named_tuple_type(vec![("a".into(), array_type(vec![4], UINT16)), ("b".into(), array_type(vec![4], UINT16))]);
    let i64t = array_type(vec![3], INT64);
    let bt = array_type(vec![2, 64], BIT);
    let pairs: Vec<(&str, OpD, OpD, Vec<Type>)> = vec![
        ("SortByIntegerKey", opd("SortByIntegerKey", 0, 0, 0, "a"), opd("SortByIntegerKey", 0, 0, 0, "b"), vec![table]),
        ("FixedMultiply", opd("FixedMultiply", 10, 0, 0, ""), opd("FixedMultiply", 10, 1, 0, ""), vec![i64t.clone(), i64t.clone()]),
        ("ApproxSigmoid", opd("ApproxSigmoid", 10, 4, 0, ""), opd("ApproxSigmoid", 10, 5, 0, ""), vec![i64t.clone()]),
        ("ApproxGelu", opd("ApproxGelu", 10, 4, 0, ""), opd("ApproxGelu", 10, 5, 0, ""), vec![i64t.clone()]),
        ("ApproxGeluDerivative", opd("ApproxGeluDerivative", 10, 4, 0, ""), opd("ApproxGeluDerivative", 10, 5, 0, ""), vec![i64t.clone()]),
        ("LowMC", opd("LowMC", 10, 2, 0, ""), opd("LowMC", 10, 2, 1, ""), vec![bt.clone(), array_type(vec![128], BIT)]),
        ("Clip2K", opd("Clip2K", 3, 0, 0, ""), opd("Clip2K", 5, 0, 0, ""), vec![bt.clone()]),
        ("GreaterThan", opd("GreaterThan", 0, 0, 0, ""), opd("GreaterThan", 1, 0, 0, ""), vec![bt.clone(), bt.clone()]),
        ("Min", opd("Min", 0, 0, 0, ""), opd("Min", 1, 0, 0, ""), vec![bt.clone(), bt.clone()]),
        ("NewtonInversion", opd("NewtonInversion", 2, 10, 0, ""), opd("NewtonInversion", 3, 10, 0, ""), vec![i64t.clone()]),
    ];
    for (tag, d1, d2, tys) in pairs {
        let descr = format!("directed {} / {} on {}", d1.token(), d2.token(), tys_token(&tys));
        run.oracle_case(&descr, true);
        let r = catch(|| -> Result<usize> {
            let c = create_context()?;
            let g = c.create_graph()?;
            let mut ins = vec![];
            for t in &tys {
                ins.push(g.input(t.clone())?);
            }
            let o1 = g.custom_op(d1.build().unwrap(), ins.clone())?;
            let o2 = g.custom_op(d2.build().unwrap(), ins.clone())?;
            g.set_output_node(g.create_tuple(vec![o1, o2])?)?;
            g.finalize()?;
            c.set_main_graph(g)?;
            c.finalize()?;
            let m = run_instantiation_pass(c)?;
            Ok(m.get_context().get_graphs().len())
        });
        match r {
            Ok(Ok(_)) => run.count("directed_ok"),
            Ok(Err(e)) => {
                let msg = format!("{}", e);
                let sig = if msg.contains("Graph names must be unique") { format!("C08:name-collision:{}", tag) } else { format!("C08:pass-error:{}", tag) };
                run.oracle_fail(&sig, format!("{} :: {}", descr, msg.lines().next().unwrap_or("")));
            }
            Err(e) => run.oracle_fail("C08:panic:run_instantiation_pass", format!("{} :: {}", descr, e)),
        }
    }
}

pub fn corr(run: &mut Run) {
    run.rule = "N: get_name() of every public library custom operation on enumerated boundary parameters + random u64/bool/string parameters vs the model (non-trivial: a parameter > 1, a non-empty key or a boolean parameter); T: Display of random nested types vs the model (non-trivial: not a scalar); P: random contexts (main graph + optional helper graph) with 2..8 custom nodes drawn from all families with parameters from small sets so that equal (family, argument types) meet different parameters, results fed back as arguments (nesting), oracle on pass result + evaluation vs per-node on-the-fly instantiation (non-trivial: >= 2 custom nodes), model pass on the dependency structure (non-trivial: >= 3 instantiations)".to_owned();
    let defective = stream_names(run);
    stream_types(run);
    stream_directed(run);
    stream_contexts(run, &defective);
    run.notes.push(format!("families whose reported name omits a parameter on this tree: {:?}", defective));
}
