//! C07 stream F (fresh randomness, model + oracle): every inlined copy of a body graph must get its
//! own Random nodes.  Generated contexts {body, main} (body = graph 0, main = graph 1, no annotations,
//! no names) whose main graph applies the body through Iterate (non-empty / empty state) or through a
//! chain of Calls are inlined by the real `inline_operations` in the modes Simple,
//! DepthOptimized(Default) and DepthOptimized(Extreme).  The node structure of the inlined main graph
//! (operation tags + dependency ids, in node-id order) is printed canonically and must equal the Lean
//! model's (`CCV.InlineFresh.inlineOperations`).  Native oracle: Random-node count = copies * R, and
//! the Random nodes reachable from each copy's result (not looking through TupleGet / VectorGet /
//! Input / other copies' results) are as many as in the body and pairwise disjoint between copies.
use crate::util::*;
use ciphercore_base::data_types::{scalar_type, tuple_type, vector_type, Type, UINT64};
use ciphercore_base::errors::Result;
use ciphercore_base::graphs::{create_context, Context, Graph, Node, Operation};
use ciphercore_base::inline::inline_ops::{inline_operations, DepthOptimizationLevel, InlineConfig, InlineMode};
use std::collections::{HashMap, HashSet};

// ---------------------------------------------------------------------------------------------
// canonical printing

fn show_tag(n: &Node) -> String {
    match n.get_operation() {
        Operation::Input(_) => "I".to_owned(),
        Operation::Random(_) => "R".to_owned(),
        Operation::Add => "A".to_owned(),
        Operation::Subtract => "S".to_owned(),
        Operation::Multiply => "M".to_owned(),
        Operation::Constant(_, v) => match v.to_u64(UINT64) {
            Ok(x) => format!("K{}", x),
            Err(_) => "?Constant".to_owned(),
        },
        Operation::VectorGet => "X".to_owned(),
        Operation::TupleGet(i) => format!("G{}", i),
        Operation::CreateTuple => "T".to_owned(),
        Operation::CreateVector(_) => "V".to_owned(),
        Operation::Call => "C".to_owned(),
        Operation::Iterate => {
            let deps = n.get_node_dependencies();
            match deps.get(1).map(|d| d.get_type()) {
                Some(Ok(Type::Vector(len, _))) => format!("L{}", len),
                _ => "?Iterate".to_owned(),
            }
        }
        op => {
            let d = format!("{:?}", op);
            let name: String = d.chars().take_while(|c| c.is_alphanumeric() || *c == '_').collect();
            format!("?{}", name)
        }
    }
}

/// `;`-separated nodes in node-id order, a node is `tag` or `tag:d1.d2...`; the empty graph is `_`
fn show_graph(g: &Graph) -> String {
    let nodes = g.get_nodes();
    if nodes.is_empty() {
        return "_".to_owned();
    }
    let mut parts = Vec::with_capacity(nodes.len());
    for n in &nodes {
        let deps = n.get_node_dependencies();
        if deps.is_empty() {
            parts.push(show_tag(n));
        } else {
            let ds: Vec<String> = deps.iter().map(|d| d.get_id().to_string()).collect();
            parts.push(format!("{}:{}", show_tag(n), ds.join(".")));
        }
    }
    parts.join(";")
}

// ---------------------------------------------------------------------------------------------
// generator

/// one generated context; the `Context` is kept alive next to its graphs / nodes
struct Gen {
    c: Context,
    body: Graph,
    main: Graph,
    /// `iter` / `iter_empty` / `call`
    kind: &'static str,
    empty_state: bool,
    /// number of times the body is inlined (Iterate: sum of the vector lengths; Call: number of Calls)
    copies: usize,
    /// the Call nodes of the original main graph (Call chains only)
    calls: Vec<Node>,
}

struct BodyNodes {
    inputs: Vec<Node>,
    /// UINT64 scalar nodes usable as operands / outputs, in creation order
    vals: Vec<Node>,
    rands: Vec<Node>,
    /// the non-Input value nodes (Random nodes and operations), in creation order
    made: Vec<Node>,
}

#[derive(Clone, Copy)]
enum Item {
    In(usize),
    Rand,
    Op,
}

fn pick_node(rng: &mut Rng, xs: &[Node]) -> Node {
    xs[rng.below(xs.len() as u64) as usize].clone()
}

fn pick_operand(rng: &mut Rng, b: &BodyNodes) -> Node {
    if !b.rands.is_empty() && rng.chance(1, 2) {
        pick_node(rng, &b.rands)
    } else if rng.chance(1, 3) {
        b.vals[b.vals.len() - 1].clone()
    } else {
        pick_node(rng, &b.vals)
    }
}

/// Input nodes (types `input_types`; `is_value[i]` says whether input i is a UINT64 scalar), 0..=3
/// Random nodes and 0..=6 Add/Subtract/Multiply nodes.  Usually the inputs come first; with
/// probability 1/4 one or two of the other nodes are placed before / between the inputs.
fn gen_body_nodes(g: &Graph, rng: &mut Rng, input_types: &[Type], is_value: &[bool]) -> Result<BodyNodes> {
    let n_rand = *rng.pick(&[0usize, 0, 1, 1, 1, 2, 2, 2, 3, 3]);
    let n_ops = rng.below(7) as usize;
    let mut tail: Vec<Item> = vec![];
    tail.extend(std::iter::repeat(Item::Rand).take(n_rand));
    tail.extend(std::iter::repeat(Item::Op).take(n_ops));
    rng.shuffle(&mut tail);
    let mut items: Vec<Item> = (0..input_types.len()).map(Item::In).collect();
    if rng.chance(1, 4) {
        let m = (1 + rng.below(2) as usize).min(tail.len());
        for it in tail.drain(..m) {
            // always before the last Input
            let pos = rng.below(items.len() as u64) as usize;
            items.insert(pos, it);
        }
    }
    items.extend(tail);
    let mut b = BodyNodes { inputs: vec![], vals: vec![], rands: vec![], made: vec![] };
    for it in items {
        match it {
            Item::In(i) => {
                let n = g.input(input_types[i].clone())?;
                if is_value[i] {
                    b.vals.push(n.clone());
                }
                b.inputs.push(n);
            }
            Item::Op if !b.vals.is_empty() => {
                let x = pick_operand(rng, &b);
                let y = if rng.chance(1, 4) { x.clone() } else { pick_operand(rng, &b) };
                let n = match rng.below(3) {
                    0 => x.add(y)?,
                    1 => x.subtract(y)?,
                    _ => x.multiply(y)?,
                };
                b.vals.push(n.clone());
                b.made.push(n);
            }
            // an op scheduled before any value node exists becomes a Random node
            Item::Rand | Item::Op => {
                let n = g.random(scalar_type(UINT64))?;
                b.vals.push(n.clone());
                b.made.push(n.clone());
                b.rands.push(n);
            }
        }
    }
    Ok(b)
}

/// a value node: a Random node directly (`p_rand`/10, if there is one), else the last or any value node
fn pick_value(rng: &mut Rng, b: &BodyNodes, p_rand: u64) -> Node {
    if !b.rands.is_empty() && rng.chance(p_rand, 10) {
        pick_node(rng, &b.rands)
    } else if rng.chance(1, 2) {
        b.vals[b.vals.len() - 1].clone()
    } else {
        pick_node(rng, &b.vals)
    }
}

fn gen_len(rng: &mut Rng) -> u64 {
    *rng.pick(&[0u64, 1, 1, 2, 2, 2, 3, 3, 3, 4, 4, 5, 8])
}

/// (a) Iterate with a UINT64 state, (b) Iterate with the empty-tuple state
fn gen_iterate(rng: &mut Rng, empty_state: bool) -> Result<Gen> {
    let u = scalar_type(UINT64);
    let state_t = if empty_state { tuple_type(vec![]) } else { u.clone() };
    let c = create_context()?;
    let g0 = c.create_graph()?;
    let b = gen_body_nodes(&g0, rng, &[state_t.clone(), u.clone()], &[!empty_state, true])?;
    let s = b.inputs[0].clone();
    let new_state = if empty_state {
        if rng.chance(2, 3) {
            s
        } else {
            g0.create_tuple(vec![])?
        }
    } else if rng.chance(1, 6) {
        s
    } else {
        pick_value(rng, &b, 3)
    };
    let out = pick_value(rng, &b, 2);
    g0.set_output_node(g0.create_tuple(vec![new_state, out])?)?;
    g0.finalize()?;

    let g1 = c.create_graph()?;
    let s0 = g1.input(state_t)?;
    let n = gen_len(rng);
    let v = g1.input(vector_type(n, u.clone()))?;
    let mut copies = n as usize;
    let variant = rng.below(6);
    if variant == 0 && !empty_state {
        // an ordinary node of the main graph in front of the Iterate
        let s1 = s0.add(s0.clone())?;
        let it = g1.iterate(g0.clone(), s1, v)?;
        g1.set_output_node(it)?;
    } else if variant == 1 {
        // the same body inlined by two Iterate nodes
        let it1 = g1.iterate(g0.clone(), s0, v.clone())?;
        let st = it1.tuple_get(0)?;
        let (n2, v2) = if rng.chance(1, 2) {
            (n, v)
        } else {
            let n2 = *rng.pick(&[0u64, 1, 2, 3]);
            (n2, g1.input(vector_type(n2, u))?)
        };
        copies = (n + n2) as usize;
        let it2 = g1.iterate(g0.clone(), st, v2)?;
        g1.set_output_node(g1.create_tuple(vec![it1, it2])?)?;
    } else {
        let it = g1.iterate(g0.clone(), s0, v)?;
        g1.set_output_node(it)?;
    }
    g1.finalize()?;
    c.set_main_graph(g1.clone())?;
    c.finalize()?;
    Ok(Gen { c, body: g0, main: g1, kind: if empty_state { "iter_empty" } else { "iter" }, empty_state, copies, calls: vec![] })
}

/// (c) chain of Calls of one body with 1 or 2 inputs
fn gen_calls(rng: &mut Rng) -> Result<Gen> {
    let u = scalar_type(UINT64);
    let k = 1 + rng.below(2) as usize;
    let c = create_context()?;
    let g0 = c.create_graph()?;
    let b = gen_body_nodes(&g0, rng, &vec![u.clone(); k], &vec![true; k])?;
    // mostly a non-Input node (a body returning its input makes every copy empty)
    let out = if b.made.is_empty() || rng.chance(1, 12) {
        pick_node(rng, &b.inputs)
    } else if rng.chance(1, 5) && !b.rands.is_empty() {
        pick_node(rng, &b.rands)
    } else if rng.chance(1, 2) {
        b.made[b.made.len() - 1].clone()
    } else {
        pick_node(rng, &b.made)
    };
    g0.set_output_node(out)?;
    g0.finalize()?;

    let g1 = c.create_graph()?;
    let mut pool: Vec<Node> = vec![];
    for _ in 0..k {
        pool.push(g1.input(u.clone())?);
    }
    let n_calls = 1 + rng.below(5) as usize;
    let mut calls: Vec<Node> = vec![];
    for _ in 0..n_calls {
        let mut args = vec![];
        for j in 0..k {
            let a = match calls.last() {
                Some(prev) if j == 0 && rng.chance(3, 4) => prev.clone(),
                _ => pick_node(rng, &pool),
            };
            args.push(a);
        }
        let cn = g1.call(g0.clone(), args)?;
        pool.push(cn.clone());
        calls.push(cn);
    }
    let o = if rng.chance(2, 3) {
        calls[calls.len() - 1].clone()
    } else {
        let x = pick_node(rng, &calls);
        let y = pick_node(rng, &calls);
        x.add(y)?
    };
    g1.set_output_node(o)?;
    g1.finalize()?;
    c.set_main_graph(g1.clone())?;
    c.finalize()?;
    Ok(Gen { c, body: g0, main: g1, kind: "call", empty_state: false, copies: n_calls, calls })
}

// ---------------------------------------------------------------------------------------------
// structure of a graph as plain data

struct Plain {
    ops: Vec<Operation>,
    deps: Vec<Vec<usize>>,
}

fn plain(g: &Graph) -> std::result::Result<Plain, String> {
    let nodes = g.get_nodes();
    let mut p = Plain { ops: vec![], deps: vec![] };
    for (i, n) in nodes.iter().enumerate() {
        if n.get_id() as usize != i {
            return Err(format!("node at position {} has id {}", i, n.get_id()));
        }
        p.ops.push(n.get_operation());
        let ds: Vec<usize> = n.get_node_dependencies().iter().map(|d| d.get_id() as usize).collect();
        if ds.iter().any(|&d| d >= i) {
            return Err(format!("node {} depends on a later node {:?}", i, ds));
        }
        p.deps.push(ds);
    }
    Ok(p)
}

impl Plain {
    fn is_random(&self, i: usize) -> bool {
        matches!(self.ops[i], Operation::Random(_))
    }
    fn random_count(&self) -> usize {
        (0..self.ops.len()).filter(|&i| self.is_random(i)).count()
    }
    /// Random nodes reachable from `from`; nodes in `stop` and (if `opaque_gets`) TupleGet / VectorGet /
    /// Input nodes are not expanded
    fn randoms_from(&self, from: usize, opaque_gets: bool, stop: &HashSet<usize>) -> Vec<usize> {
        let mut seen: HashSet<usize> = HashSet::new();
        let mut stack = vec![from];
        let mut found = vec![];
        while let Some(i) = stack.pop() {
            if !seen.insert(i) {
                continue;
            }
            if self.is_random(i) {
                found.push(i);
            }
            if i != from && stop.contains(&i) {
                continue;
            }
            if opaque_gets && matches!(self.ops[i], Operation::TupleGet(_) | Operation::VectorGet | Operation::Input(_)) {
                continue;
            }
            for &d in &self.deps[i] {
                stack.push(d);
            }
        }
        found.sort();
        found
    }
}

/// what the generator produced (computed from the finished body graph)
struct BodyStats {
    randoms: usize,
    reach: usize,
    used_twice: bool,
    state_depends_on_random: bool,
    out_is_input: bool,
    size: usize,
}

fn body_stats(gen: &Gen) -> std::result::Result<BodyStats, String> {
    let p = plain(&gen.body)?;
    let out = gen.body.get_output_node().map_err(|e| format!("{}", e))?.get_id() as usize;
    let none = HashSet::new();
    let mut uses = vec![0usize; p.ops.len()];
    for ds in &p.deps {
        for &d in ds {
            uses[d] += 1;
        }
    }
    let state_depends_on_random = gen.kind != "call" && !p.deps[out].is_empty() && !p.randoms_from(p.deps[out][0], false, &none).is_empty();
    Ok(BodyStats {
        randoms: p.random_count(),
        reach: p.randoms_from(out, false, &none).len(),
        used_twice: (0..p.ops.len()).any(|i| p.is_random(i) && uses[i] >= 2),
        state_depends_on_random,
        out_is_input: matches!(p.ops[out], Operation::Input(_)),
        size: p.ops.len(),
    })
}

// ---------------------------------------------------------------------------------------------
// one (context, mode)

struct Outcome {
    answer: String,
    /// violations of the freshness oracle
    shared: Vec<String>,
    /// the copies could not be located in the inlined graph
    structure: Vec<String>,
    inlined_nodes: usize,
}

fn run_mode(gen: &Gen, st: &BodyStats, mode: InlineMode) -> Result<Outcome> {
    let cfg = InlineConfig { default_mode: mode, ..Default::default() };
    let mapped = inline_operations(&gen.c, cfg)?;
    let ic = mapped.get_context();
    let g = ic.get_main_graph()?;
    let answer = format!("{}|{}", show_graph(&g), g.get_output_node()?.get_id());
    let mut shared = vec![];
    let mut structure = vec![];
    let p = match plain(&g) {
        Ok(p) => p,
        Err(e) => {
            structure.push(e);
            return Ok(Outcome { answer, shared, structure, inlined_nodes: 0 });
        }
    };
    // 1. every copy brings all Random nodes of the body
    let total = p.random_count();
    if total != gen.copies * st.randoms {
        shared.push(format!("{} Random nodes in the inlined graph, want copies*R = {}*{}", total, gen.copies, st.randoms));
    }
    // 2. result node of every copy
    let mut results: Vec<usize> = vec![];
    if gen.kind == "call" {
        for cn in &gen.calls {
            results.push(mapped.mappings.get_node(cn).get_id() as usize);
        }
    } else {
        for i in 0..p.ops.len() {
            if let Operation::CreateVector(_) = p.ops[i] {
                for &d in &p.deps[i] {
                    match (&p.ops[d], p.deps[d].first()) {
                        (Operation::TupleGet(1), Some(&r)) => results.push(r),
                        _ => structure.push(format!("element {} of CreateVector node {} is not TupleGet(1)", d, i)),
                    }
                }
            }
        }
    }
    if results.len() != gen.copies {
        structure.push(format!("{} copies located, want {}", results.len(), gen.copies));
    }
    let degenerate = gen.kind == "call" && st.out_is_input;
    if !degenerate && structure.is_empty() {
        let all: HashSet<usize> = results.iter().copied().collect();
        if all.len() != results.len() {
            shared.push(format!("two copies share their result node: {:?}", results));
        }
        let mut owner: HashMap<usize, usize> = HashMap::new();
        for (ci, &r) in results.iter().enumerate() {
            let stop: HashSet<usize> = if gen.kind == "call" { all.clone() } else { HashSet::new() };
            let own = p.randoms_from(r, true, &stop);
            if own.len() != st.reach {
                shared.push(format!(
                    "copy {} (result node {}) reaches {} Random nodes {:?}, the body output reaches {}",
                    ci, r, own.len(), own, st.reach
                ));
            }
            for x in own {
                if let Some(prev) = owner.insert(x, ci) {
                    shared.push(format!("Random node {} is used by copy {} and copy {}", x, prev, ci));
                }
            }
        }
    }
    Ok(Outcome { answer, shared, structure, inlined_nodes: p.ops.len() })
}

const MODES: [(&str, &str); 3] = [("S", "simple"), ("D", "depth-default"), ("D", "depth-extreme")];

fn mode_of(name: &str) -> InlineMode {
    match name {
        "simple" => InlineMode::Simple,
        "depth-default" => InlineMode::DepthOptimized(DepthOptimizationLevel::Default),
        _ => InlineMode::DepthOptimized(DepthOptimizationLevel::Extreme),
    }
}

pub fn fresh(run: &mut Run) {
    let t0 = std::time::Instant::now();
    let mut rng = run.rng("fresh");
    let total = run.tier.scale(240, 3000);
    let mut max_inlined = 0usize;
    for it in 0..total {
        let which = it % 4;
        let kind = match which {
            0 | 1 => "iter",
            2 => "iter_empty",
            _ => "call",
        };
        let built = catch(|| -> Result<Gen> {
            match which {
                0 | 1 => gen_iterate(&mut rng, false),
                2 => gen_iterate(&mut rng, true),
                _ => gen_calls(&mut rng),
            }
        });
        let gen = match built {
            Ok(Ok(g)) => g,
            Ok(Err(e)) => {
                run.count(&format!("fresh:gen_err:{}", kind));
                run.oracle_fail("C07:fresh:err:gen", format!("building context {} ({}) failed: {}", it, kind, trunc(&format!("{}", e), 300)));
                continue;
            }
            Err(p) => {
                run.oracle_fail("C07:panic:fresh:gen", format!("building context {} ({}) panicked: {}", it, kind, p));
                continue;
            }
        };
        // request parts and body statistics from the ORIGINAL graphs
        let described = catch(|| -> std::result::Result<(String, BodyStats), String> {
            let st = body_stats(&gen)?;
            let mo = gen.main.get_output_node().map_err(|e| format!("{}", e))?.get_id();
            let bo = gen.body.get_output_node().map_err(|e| format!("{}", e))?.get_id();
            Ok((format!("{} {} {} {} {}", gen.empty_state as u8, show_graph(&gen.main), mo, show_graph(&gen.body), bo), st))
        });
        let (tail, st) = match described {
            Ok(Ok(x)) => x,
            Ok(Err(e)) => {
                run.oracle_fail("C07:fresh:err:gen", format!("describing context {} ({}) failed: {}", it, kind, e));
                continue;
            }
            Err(p) => {
                run.oracle_fail("C07:panic:fresh:gen", format!("describing context {} ({}) panicked: {}", it, kind, p));
                continue;
            }
        };
        if st.used_twice {
            run.count("fresh:shape:random_used_twice");
        }
        if st.state_depends_on_random {
            run.count("fresh:shape:state_depends_on_random");
        }
        if st.randoms > st.reach {
            run.count("fresh:shape:random_unused");
        }
        if st.randoms >= 2 {
            run.count("fresh:shape:multi_random");
        }
        if st.randoms == 0 {
            run.count("fresh:shape:no_random");
        }
        if st.out_is_input {
            run.count("fresh:shape:call_returns_input");
        }
        if gen.copies == 0 {
            run.count("fresh:shape:zero_copies");
        }
        run.count_n("fresh:body_nodes", st.size as u64);
        run.count_n("fresh:copies", gen.copies as u64);
        let nontrivial = gen.copies >= 2 && st.randoms >= 1;
        for (letter, mode) in MODES {
            let req = format!("fresh {} {}", letter, tail);
            run.count(&format!("fresh:{}:{}", gen.kind, mode));
            match catch(|| run_mode(&gen, &st, mode_of(mode))) {
                Err(p) => run.oracle_fail(&format!("C07:panic:fresh:{}", mode), format!("{} panicked: {}", req, p)),
                Ok(Err(e)) => {
                    run.case(req.clone(), "ERR".into(), nontrivial);
                    run.oracle_fail(&format!("C07:fresh:err:{}", mode), format!("{} returned Err: {}", req, trunc(&format!("{}", e), 300)));
                }
                Ok(Ok(o)) => {
                    max_inlined = max_inlined.max(o.inlined_nodes);
                    run.oracle_case(&format!("fresh-oracle {} {}", mode, req), nontrivial);
                    for s in &o.structure {
                        run.oracle_fail(&format!("C07:fresh:structure:{}", mode), format!("{}: {}; inlined graph {}", req, s, trunc(&o.answer, 600)));
                    }
                    for s in &o.shared {
                        run.oracle_fail(&format!("C07:fresh:shared_random:{}", mode), format!("{}: {}; inlined graph {}", req, s, trunc(&o.answer, 600)));
                    }
                    run.case(req, o.answer, nontrivial);
                }
            }
        }
    }
    let secs = t0.elapsed().as_secs_f64();
    run.extra.insert("fresh_seconds".into(), serde_json::json!(secs));
    run.extra.insert("fresh_max_inlined_nodes".into(), serde_json::json!(max_inlined));
    run.notes.push(format!(
        "stream F (fresh randomness): {} generated contexts {{body, main}} without annotations (half Iterate with a UINT64 state, a quarter \
         Iterate with the empty-tuple state, a quarter chains of 1..=5 Calls; bodies of Input / Random / Add / Subtract / Multiply nodes, \
         inputs sometimes not first, Random nodes used twice / unused / feeding the next state; main graphs sometimes with an extra node or \
         two Iterate nodes over the same body) inlined by inline_operations in the modes Simple, DepthOptimized(Default) and \
         DepthOptimized(Extreme). Model request `fresh <S|D> <emptyState> <main> <out> <body> <out>`: the inlined main graph as \
         `tag[:deps]` nodes in id order plus its output id must equal CCV.InlineFresh.inlineOperations on the printed original graphs. \
         Native oracle per (context, mode): #Random nodes of the inlined graph = copies * #Random of the body; the Random nodes reachable \
         from each copy's result node (result = dependency of the TupleGet(1) elements of every CreateVector, or the mapped Call node; the \
         search does not look through TupleGet / VectorGet / Input nodes nor other calls' results) are exactly as many as are reachable from \
         the body's output and pairwise disjoint between copies. Non-trivial: at least 2 copies and a body with a Random node.",
        total
    ));
}
