//! C14 — secret sharing reconstructs, with the documented per-party layout.
//! Streams: S `TypedValue::secret_share` / `secret_share_reveal` / `ReplicatedShares` (local
//! evaluation form); P the three per-party code paths (`get_local_shares_for_each_party`,
//! `ReplicatedShares::secret_share_for_parties`) with layout, two-party reconstruction and a
//! non-interference oracle; V `share_vector`; R reveal / generalized_add / generalized_subtract on
//! arbitrary triples (plus a small malformed stream); E `get_evaluator_result` (oracle only).
use crate::util::*;
use crate::vals::*;
use ciphercore_base::data_types::*;
use ciphercore_base::data_values::Value;
use ciphercore_base::evaluators::get_result_util::get_evaluator_result;
use ciphercore_base::evaluators::simple_evaluator::SimpleEvaluator;
use ciphercore_base::graphs::create_context;
use ciphercore_base::mpc::utils::share_vector;
use ciphercore_base::random::PRNG;
use ciphercore_base::typed_value::{generalized_add, generalized_subtract, TypedValue};
use ciphercore_base::typed_value_secret_shared::replicated_shares::ReplicatedShares;
use ciphercore_base::typed_value_secret_shared::TypedValueSecretShared;

/// The harness' own reading of a value: leaves are residues `< 2^bits` decoded natively from the
/// little-endian bytes (BIT leaves: every bit of every byte, padding included).
#[derive(Clone, PartialEq, Eq, Debug)]
enum Tree {
    Leaf(ScalarType, Vec<u128>),
    Node(Vec<Tree>),
}

fn mask(bits: u32) -> u128 {
    if bits >= 128 {
        u128::MAX
    } else {
        (1u128 << bits) - 1
    }
}

fn leaf_of_bytes(st: ScalarType, bytes: &[u8]) -> std::result::Result<Tree, String> {
    if st == BIT {
        let mut xs = vec![];
        for b in bytes {
            for i in 0..8 {
                xs.push(((b >> i) & 1) as u128);
            }
        }
        return Ok(Tree::Leaf(st, xs));
    }
    let bl = (st_bits(st) / 8) as usize;
    if bytes.len() % bl != 0 {
        return Err(format!("{} bytes for {}", bytes.len(), st_name(st)));
    }
    let mut xs = vec![];
    for ch in bytes.chunks(bl) {
        let mut x = 0u128;
        for (i, b) in ch.iter().enumerate() {
            x |= (*b as u128) << (8 * i);
        }
        xs.push(x);
    }
    Ok(Tree::Leaf(st, xs))
}

fn sub_types(t: &Type) -> Vec<Type> {
    match t {
        Type::Tuple(ts) => ts.iter().map(|x| (**x).clone()).collect(),
        Type::NamedTuple(ts) => ts.iter().map(|x| (*x.1).clone()).collect(),
        Type::Vector(n, e) => (0..*n).map(|_| (**e).clone()).collect(),
        _ => vec![],
    }
}

fn tree_of(t: &Type, v: &Value) -> std::result::Result<Tree, String> {
    match t {
        Type::Scalar(st) | Type::Array(_, st) => {
            let bytes = v.access_bytes(|b| Ok(b.to_vec())).map_err(|_| "not bytes".to_owned())?;
            leaf_of_bytes(*st, &bytes)
        }
        _ => {
            let ts = sub_types(t);
            let vs = v.to_vector().map_err(|_| "not a vector".to_owned())?;
            if vs.len() != ts.len() {
                return Err(format!("{} children for {} types", vs.len(), ts.len()));
            }
            let mut out = vec![];
            for (ti, vi) in ts.iter().zip(vs.iter()) {
                out.push(tree_of(ti, vi)?);
            }
            Ok(Tree::Node(out))
        }
    }
}

fn show_tree(t: &Tree) -> String {
    match t {
        Tree::Leaf(st, xs) => format!("{}:{}", st_name(*st), show_list(xs)),
        Tree::Node(vs) => format!("({})", vs.iter().map(show_tree).collect::<Vec<_>>().join(";")),
    }
}

fn n_elems(t: &Tree) -> usize {
    match t {
        Tree::Leaf(_, xs) => xs.len(),
        Tree::Node(vs) => vs.iter().map(n_elems).sum(),
    }
}

fn n_bits(t: &Tree) -> u64 {
    match t {
        Tree::Leaf(st, xs) => xs.len() as u64 * st_bits(*st) as u64,
        Tree::Node(vs) => vs.iter().map(n_bits).sum(),
    }
}

/// native element-wise combination; `None` on any shape mismatch
fn zip_tree(a: &Tree, b: &Tree, f: &dyn Fn(u32, u128, u128) -> u128) -> Option<Tree> {
    match (a, b) {
        (Tree::Leaf(sa, xs), Tree::Leaf(sb, ys)) if sa == sb && xs.len() == ys.len() => {
            let w = st_bits(*sa);
            Some(Tree::Leaf(*sa, xs.iter().zip(ys.iter()).map(|(x, y)| f(w, *x, *y)).collect()))
        }
        (Tree::Node(xs), Tree::Node(ys)) if xs.len() == ys.len() => {
            let mut out = vec![];
            for (x, y) in xs.iter().zip(ys.iter()) {
                out.push(zip_tree(x, y, f)?);
            }
            Some(Tree::Node(out))
        }
        _ => None,
    }
}

fn add_nat(w: u32, x: u128, y: u128) -> u128 {
    x.wrapping_add(y) & mask(w)
}
fn sub_nat(w: u32, x: u128, y: u128) -> u128 {
    x.wrapping_sub(y) & mask(w)
}
fn sum3(a: &Tree, b: &Tree, c: &Tree) -> Option<Tree> {
    zip_tree(&zip_tree(a, b, &add_nat)?, c, &add_nat)
}

// ------------------------------------------------------------------ generators

fn gen_leaf_type(rng: &mut Rng) -> Type {
    let st = *rng.pick(&ALL_ST);
    if rng.chance(1, 3) {
        scalar_type(st)
    } else if st == BIT {
        // bit arrays: sizes around the byte boundaries, also > 8
        match rng.below(3) {
            0 => array_type(vec![1 + rng.below(40)], st),
            1 => array_type(vec![*rng.pick(&[7u64, 8, 9, 15, 16, 17, 24, 33])], st),
            _ => array_type(gen_shape(rng, 3, 5, 40), st),
        }
    } else {
        array_type(gen_shape(rng, 3, 4, 12), st)
    }
}

fn gen_type(rng: &mut Rng, depth: u32) -> Type {
    if depth == 0 || rng.chance(2, 5) {
        return gen_leaf_type(rng);
    }
    match rng.below(3) {
        0 => {
            let n = rng.below(4);
            tuple_type((0..n).map(|_| gen_type(rng, depth - 1)).collect())
        }
        1 => {
            let n = rng.below(4);
            vector_type(n, gen_type(rng, depth - 1))
        }
        _ => {
            let n = 1 + rng.below(3);
            named_tuple_type((0..n).map(|i| (format!("f{}", i), gen_type(rng, depth - 1))).collect())
        }
    }
}

fn gen_value(rng: &mut Rng, t: &Type, stray: bool) -> Value {
    match t {
        Type::Scalar(st) => gen_array_value(rng, &[1], *st).1,
        Type::Array(shape, st) => {
            let v = gen_array_value(rng, shape, *st).1;
            let n: u64 = shape.iter().product();
            if stray && *st == BIT && n % 8 != 0 {
                // a bit array whose unused padding bits are set (check_type accepts it)
                let mut b = bytes_of(&v);
                let l = b.len();
                b[l - 1] |= (rng.next() as u8) << (n % 8);
                Value::from_bytes(b)
            } else {
                v
            }
        }
        _ => Value::from_vector(sub_types(t).iter().map(|ti| gen_value(rng, ti, stray)).collect()),
    }
}

fn type_kind(t: &Type) -> &'static str {
    match t {
        Type::Scalar(_) => "scalar",
        Type::Array(_, _) => "array",
        Type::Tuple(_) => "tuple",
        Type::Vector(_, _) => "vector",
        Type::NamedTuple(_) => "named",
    }
}

fn count_leaf_types(run: &mut Run, stream: &str, t: &Tree) {
    match t {
        Tree::Leaf(st, _) => run.count(&format!("{}:leaf:{}", stream, st_name(*st))),
        Tree::Node(vs) => {
            for v in vs {
                count_leaf_types(run, stream, v);
            }
        }
    }
}

fn triple_of(t: &Type, tup: &Value) -> std::result::Result<[Tree; 3], String> {
    let vs = tup.to_vector().map_err(|_| "share tuple is not a vector".to_owned())?;
    if vs.len() != 3 {
        return Err(format!("{} components", vs.len()));
    }
    Ok([tree_of(t, &vs[0])?, tree_of(t, &vs[1])?, tree_of(t, &vs[2])?])
}

fn show_party(i: usize, p: &[Tree; 3]) -> String {
    let s: Vec<String> = (0..3).map(|k| if k == (i + 2) % 3 { "*".to_owned() } else { show_tree(&p[k]) }).collect();
    format!("[{}|{}|{}]", s[0], s[1], s[2])
}

/// all oracle checks on three per-party tuples that must share `v`; `sig` prefix e.g. "C14:parties:local"
fn check_parties(run: &mut Run, sig: &str, descr: &str, v: &Tree, p: &[[Tree; 3]; 3], s01: Option<(&Tree, &Tree)>) {
    // neighbours hold the same copy of the share they have in common
    for i in 0..3 {
        let k = (i + 1) % 3;
        if p[i][k] != p[k][k] {
            run.oracle_fail(&format!("{}:neighbours", sig), format!("{}: slot {} of party {} and of party {} differ", descr, k, i, k));
        }
    }
    // the shares are the ones shard_to_shares produced for this seed
    if let Some((s0, s1)) = s01 {
        if &p[0][0] != s0 || &p[0][1] != s1 {
            run.oracle_fail(&format!("{}:not-the-shares", sig), format!("{}: party 0 does not hold (s0, s1) of secret_share with the same seed", descr));
        }
    }
    // any two parties reconstruct, reading only the slots they are entitled to
    for i in 0..3usize {
        for j in 0..3usize {
            if i == j {
                continue;
            }
            let mut s: Vec<&Tree> = vec![];
            for k in 0..3usize {
                // share k is held by party k (slot k) and by party k+2 (slot k)
                let holder = if k == i || k == j { k } else { (k + 2) % 3 };
                if holder != i && holder != j {
                    run.oracle_fail(&format!("{}:internal", sig), descr.to_owned());
                    return;
                }
                s.push(&p[holder][k]);
            }
            match sum3(s[0], s[1], s[2]) {
                Some(r) if &r == v => {}
                other => run.oracle_fail(
                    &format!("{}:two-party-reconstruct", sig),
                    format!("{}: parties {} and {} reconstruct {} instead of {}", descr, i, j, other.map(|t| show_tree(&t)).unwrap_or("shape-mismatch".into()), show_tree(v)),
                ),
            }
        }
    }
    // the garbage slot must not be the share the party is not entitled to (only decidable when the
    // type carries enough entropy for a coincidence to be impossible in practice)
    if n_bits(v) >= 64 {
        for i in 0..3 {
            let g = (i + 2) % 3;
            if p[i][g] == p[g][g] {
                run.oracle_fail(&format!("{}:garbage-is-third-share", sig), format!("{}: slot {} of party {} equals share {}", descr, g, i, g));
            }
            for k in 0..3 {
                if k != g && p[i][g] == p[i][k] && n_bits(v) >= 64 {
                    run.oracle_fail(&format!("{}:garbage-repeats-share", sig), format!("{}: slot {} of party {} equals its slot {}", descr, g, i, k));
                }
            }
        }
    }
}

fn parties_of(t: &Type, ps: &[TypedValue]) -> std::result::Result<[[Tree; 3]; 3], String> {
    if ps.len() != 3 {
        return Err(format!("{} parties", ps.len()));
    }
    let want_t = tuple_type(vec![t.clone(), t.clone(), t.clone()]);
    let mut out = vec![];
    for p in ps {
        if p.t != want_t {
            return Err("party tuple has a wrong type".into());
        }
        if !p.value.check_type(want_t.clone()).unwrap_or(false) {
            return Err("party tuple fails check_type".into());
        }
        out.push(triple_of(t, &p.value)?);
    }
    Ok([out[0].clone(), out[1].clone(), out[2].clone()])
}

pub fn corr(run: &mut Run) {
    run.rule = "types: all 11 scalar types as scalars / arrays (rank 1-3; bit arrays of sizes around byte boundaries and > 8, \
                some with stray padding bits), nested ≤ 3 deep in tuples (0-3), vectors (0-3), named tuples (1-3); values \
                boundary-biased (vals.rs); PRNG seeds from the run stream. S: secret_share + reveal + ReplicatedShares local form \
                (model recomputes s2 and reveal from (v,s0,s1)); P: get_local_shares_for_each_party and \
                ReplicatedShares::secret_share_for_parties (same seed): layout slot by slot with garbage as *, model recon from two \
                tuples, model unheld, native oracle (neighbours agree, any two parties reconstruct, garbage is not a share, same seed \
                and another secret changes only s2 and by exactly v'-v); V: share_vector; R: reveal/generalized_add/subtract of \
                arbitrary triples + leaf-length mismatches (ERR); E: get_evaluator_result secret-sharing an input (oracle only). \
                Non-trivial: the value has at least one element."
        .to_owned();

    // ---- J: the junk slot of a party must be unrelated to the share it hides. For one-bit and
    // three-bit secrets the junk equals the hidden share in about 1/2 resp. 1/8 of all sharings; if it
    // never does (or always does), a single party's tuple determines the secret.
    {
        let mut rng = run.rng("J");
        for (bits, n) in [(1u64, 300usize), (3u64, 600usize)] {
            let t = if bits == 1 { scalar_type(BIT) } else { array_type(vec![bits], BIT) };
            let mut eq = 0usize;
            let mut total = 0usize;
            let mut broken = false;
            for _ in 0..n {
                let vbits: Vec<u8> = (0..bits).map(|_| rng.below(2) as u8).collect();
                let seed = rng.seed16();
                let r = catch(|| -> ciphercore_base::errors::Result<Vec<Vec<Vec<u8>>>> {
                    let tv = TypedValue::new(t.clone(), Value::from_flattened_array(&vbits, BIT)?)?;
                    let mut prng = PRNG::new(Some(seed))?;
                    let ps = tv.get_local_shares_for_each_party(&mut prng)?;
                    ps.iter().map(|p| Ok(p.value.to_vector()?.iter().map(|v| crate::vals::bytes_of(v)).collect())).collect()
                });
                match r {
                    Ok(Ok(ps)) if ps.len() == 3 && ps.iter().all(|p| p.len() == 3) => {
                        for i in 0..3 {
                            let g = (i + 2) % 3;
                            total += 1;
                            if ps[i][g] == ps[g][g] {
                                eq += 1;
                            }
                        }
                    }
                    _ => {
                        broken = true;
                        break;
                    }
                }
            }
            run.oracle_case(&format!("junk statistics for {}-bit secrets: junk equals hidden share in {}/{}", bits, eq, total), true);
            run.count_n(&format!("J:{}bit:junk-equals-hidden", bits), eq as u64);
            if broken {
                run.oracle_fail("C14:junk:error", format!("get_local_shares_for_each_party failed on a {}-bit secret", bits));
            } else if eq == 0 || eq == total {
                run.oracle_fail("C14:junk:correlated-with-hidden-share", format!("{}-bit secrets: the junk slot equals the hidden share in {} of {} sharings (expected about {}): a single party's tuple is correlated with the share it must not know", bits, eq, total, total >> bits));
            }
        }
    }

    run.rule.push_str(" U: per-bit uniformity of every party's tuple over 400 sharings of a fixed secret (ragged bit arrays, small integer arrays). L: leaves of 512 bytes and more: no aligned 8-byte window repeats within what one party holds.");
    // ---- U: every bit of the shares a single party holds is uniform whatever the secret is. For ragged bit
    // arrays (2..7 bits in the last byte) and small integer arrays, over 400 sharings of a FIXED secret every
    // bit of every slot of every party's tuple must be 1 in 30%..70% of the sharings (8 standard deviations).
    {
        let mut rng = run.rng("U");
        let n_u = 400usize;
        let types: Vec<Type> = vec![
            array_type(vec![3], BIT),
            array_type(vec![2, 5], BIT),
            array_type(vec![13], BIT),
            array_type(vec![6], BIT),
            array_type(vec![2], UINT8),
            tuple_type(vec![array_type(vec![7], BIT), scalar_type(INT16)]),
        ];
        for t in types {
            for ones in [false, true] {
                let secret = if ones { Value::one_of_type(t.clone()).unwrap() } else { Value::zero_of_type(t.clone()) };
                let mut counts: Vec<Vec<u32>> = vec![];
                let mut broken = false;
                for _ in 0..n_u {
                    let seed = rng.seed16();
                    let r = catch(|| -> ciphercore_base::errors::Result<Vec<Vec<u8>>> {
                        let tv = TypedValue::new(t.clone(), secret.clone())?;
                        let mut prng = PRNG::new(Some(seed))?;
                        let ps = tv.get_local_shares_for_each_party(&mut prng)?;
                        let mut out = vec![];
                        for p in ps {
                            let mut bytes = vec![];
                            fn flat(v: &Value, out: &mut Vec<u8>) {
                                match v.to_vector() {
                                    Ok(vs) => {
                                        for x in vs {
                                            flat(&x, out);
                                        }
                                    }
                                    Err(_) => out.extend(crate::vals::bytes_of(v)),
                                }
                            }
                            flat(&p.value, &mut bytes);
                            out.push(bytes);
                        }
                        Ok(out)
                    });
                    match r {
                        Ok(Ok(parties)) => {
                            if counts.is_empty() {
                                counts = parties.iter().map(|b| vec![0u32; b.len() * 8]).collect();
                            }
                            for (i, bytes) in parties.iter().enumerate() {
                                for (k, byte) in bytes.iter().enumerate() {
                                    for bit in 0..8 {
                                        if (byte >> bit) & 1 == 1 && 8 * k + bit < counts[i].len() {
                                            counts[i][8 * k + bit] += 1;
                                        }
                                    }
                                }
                            }
                        }
                        _ => {
                            broken = true;
                            break;
                        }
                    }
                }
                let descr = format!("bit uniformity of each party's tuple: type {:?}, secret all-{}, {} sharings", t, if ones { "ones" } else { "zeros" }, n_u);
                run.oracle_case(&descr, true);
                run.count("U:types");
                if broken {
                    run.oracle_fail("C14:uniformity:error", descr);
                    continue;
                }
                // meaningful bit positions: those that are 1 at least once over all sharings and parties (padding
                // bits of ragged bit arrays are always 0 and are not part of the value)
                let n_bits = counts[0].len();
                let mut bad: Vec<String> = vec![];
                for b in 0..n_bits {
                    let tot: u32 = (0..3).map(|i| counts[i][b]).sum();
                    if tot == 0 {
                        continue;
                    }
                    for i in 0..3 {
                        let c = counts[i][b];
                        if (c as usize) * 10 < n_u * 3 || (c as usize) * 10 > n_u * 7 {
                            bad.push(format!("party {} bit {}: 1 in {} of {}", i, b, c, n_u));
                        }
                    }
                }
                // a position that is never 1 for any party although the type has a value bit there would be
                // skipped above: compare the number of live positions with the type's bit size (3 slots per party)
                let live = (0..n_bits).filter(|b| (0..3).any(|i| counts[i][*b] > 0)).count();
                let want_live = 3 * ciphercore_base::data_types::get_size_in_bits(t.clone()).unwrap_or(0) as usize;
                if live != want_live {
                    bad.push(format!("{} bit positions ever carry a 1, the three slots have {} value bits", live, want_live));
                }
                if !bad.is_empty() {
                    run.oracle_fail("C14:shares-not-uniform", format!("{} : {}", descr, bad[..bad.len().min(6)].join("; ")));
                }
            }
        }
    }

    // ---- L: large leaves (≥ 512 bytes: the generator serves such requests in whole batches). The masks of
    // one sharing must be independent draws: among everything a SINGLE party holds (its two shares and its
    // junk slot) no aligned 8-byte window may occur twice — for independent uniform masks the chance is
    // below 2^-40 per sharing — otherwise a party can cancel masks (share1 a shifted copy of share0) and
    // recompute parts of the secret on its own.
    {
        let mut rng = run.rng("L");
        let n_l = run.tier.scale(24, 200);
        for it in 0..n_l {
            let (st, n): (ScalarType, u64) = match it % 6 {
                0 => (UINT64, 64),
                1 => (UINT64, 100 + rng.below(200)),
                2 => (UINT128, 40 + rng.below(40)),
                3 => (BIT, 4096 + 8 * rng.below(512)),
                4 => (INT32, 128 + rng.below(512)),
                _ => (UINT8, 512 + rng.below(2048)),
            };
            let t = if it % 4 == 3 { tuple_type(vec![array_type(vec![n], st), scalar_type(UINT64)]) } else { array_type(vec![n], st) };
            let seed = rng.seed16();
            let warm = it % 3 == 1; // a generator that has been used before
            let r = catch(|| -> ciphercore_base::errors::Result<Vec<Vec<u8>>> {
                let mut prng = PRNG::new(Some(seed))?;
                if warm {
                    let _ = prng.get_random_value(array_type(vec![37], UINT8))?;
                }
                // a secret with distinct 8-byte windows of its own (so that a repetition is the masks' doing)
                let secret = prng.get_random_value(t.clone())?;
                let tv = TypedValue::new(t.clone(), secret)?;
                let ps = tv.get_local_shares_for_each_party(&mut prng)?;
                let mut out = vec![];
                for p in ps {
                    let mut bytes = vec![];
                    fn flat(v: &Value, out: &mut Vec<u8>) {
                        match v.to_vector() {
                            Ok(vs) => {
                                for x in vs {
                                    flat(&x, out);
                                }
                            }
                            Err(_) => out.extend(crate::vals::bytes_of(v)),
                        }
                    }
                    flat(&p.value, &mut bytes);
                    out.push(bytes);
                }
                Ok(out)
            });
            let descr = format!("large leaf {}[{}]{} seed={:?} warm={}", st_name(st), n, if it % 4 == 3 { " in a tuple" } else { "" }, seed, warm);
            run.oracle_case(&descr, true);
            run.count(&format!("L:leaf:{}", st_name(st)));
            match r {
                Ok(Ok(parties)) => {
                    for (i, bytes) in parties.iter().enumerate() {
                        let mut seen: std::collections::HashMap<[u8; 8], usize> = std::collections::HashMap::new();
                        let mut rep: Option<(usize, usize)> = None;
                        let mut reps = 0usize;
                        for (k, w) in bytes.chunks_exact(8).enumerate() {
                            let mut a = [0u8; 8];
                            a.copy_from_slice(w);
                            if let Some(k0) = seen.get(&a) {
                                reps += 1;
                                if rep.is_none() {
                                    rep = Some((*k0, k));
                                }
                            } else {
                                seen.insert(a, k);
                            }
                        }
                        if let Some((k0, k1)) = rep {
                            run.oracle_fail("C14:shares-of-one-party-repeat-key-stream", format!("{} : in the tuple party {} holds, the 8-byte window at byte {} occurs again at byte {} ({} repeated windows of {}): its shares are not independent uniform draws", descr, i, 8 * k0, 8 * k1, reps, bytes.len() / 8));
                            break;
                        }
                    }
                }
                Ok(Err(e)) => run.oracle_fail("C14:large-leaf:error", format!("{} : {}", descr, e)),
                Err(p) => run.oracle_fail("C14:panic:large-leaf", format!("{} : {}", descr, p)),
            }
        }
    }

    // ---------------------------------------------------------------- S and P
    let mut rng = run.rng("SP");
    let n_sp = run.tier.scale(4000, 40000);
    for case_no in 0..n_sp {
        let depth = rng.below(4) as u32;
        let t = gen_type(&mut rng, depth);
        let stray = rng.chance(1, 10);
        let val = gen_value(&mut rng, &t, stray);
        let seed = rng.seed16();
        let tv = match TypedValue::new(t.clone(), val.clone()) {
            Ok(tv) => tv,
            Err(_) => {
                run.oracle_fail("C14:generator:typed-value", format!("type {:?} rejected its generated value", t));
                continue;
            }
        };
        let v = match tree_of(&t, &val) {
            Ok(v) => v,
            Err(e) => {
                run.oracle_fail("C14:generator:tree", format!("type {:?}: {}", t, e));
                continue;
            }
        };
        let nontrivial = n_elems(&v) > 0;
        let descr = format!("type={:?} v={} seed={:?}", t, show_tree(&v), seed);
        run.count(&format!("SP:kind:{}", type_kind(&t)));
        run.count(&format!("SP:depth:{}", depth));
        if stray {
            run.count("SP:stray-padding-requested");
        }
        count_leaf_types(run, "SP", &v);

        // ---- S: TypedValue::secret_share
        let sh = catch(|| {
            let mut prng = PRNG::new(Some(seed))?;
            tv.secret_share(&mut prng)
        });
        let sh = match sh {
            Err(p) => {
                run.oracle_fail("C14:panic:secret_share", format!("{} panicked: {}", descr, p));
                continue;
            }
            Ok(Err(e)) => {
                run.oracle_fail("C14:share:error", format!("{} fails: {:?}", descr, e));
                continue;
            }
            Ok(Ok(sh)) => sh,
        };
        let want_t = tuple_type(vec![t.clone(), t.clone(), t.clone()]);
        if sh.t != want_t || !sh.value.check_type(want_t.clone()).unwrap_or(false) {
            run.oracle_fail("C14:share:type", format!("{}: shared value is not a valid triple of the type", descr));
            continue;
        }
        let s = match triple_of(&t, &sh.value) {
            Ok(s) => s,
            Err(e) => {
                run.oracle_fail("C14:share:shape", format!("{}: {}", descr, e));
                continue;
            }
        };
        let rev = catch(|| sh.secret_share_reveal());
        let rev_tree = match &rev {
            Ok(Ok(r)) if r.t == t => tree_of(&t, &r.value).ok(),
            _ => None,
        };
        if let Err(p) = &rev {
            run.oracle_fail("C14:panic:secret_share_reveal", format!("{} panicked: {}", descr, p));
        }
        run.case(
            format!("share {} {} {}", show_tree(&v), show_tree(&s[0]), show_tree(&s[1])),
            format!("{} {}", show_tree(&s[2]), rev_tree.as_ref().map(show_tree).unwrap_or("ERR".into())),
            nontrivial,
        );
        run.oracle_case(&descr, nontrivial);
        // oracle: shares sum to v natively; reveal returns v
        match sum3(&s[0], &s[1], &s[2]) {
            Some(r) if r == v => {}
            other => run.oracle_fail(
                "C14:share:sum",
                format!("{}: s0+s1+s2 = {} (s={},{},{})", descr, other.map(|t| show_tree(&t)).unwrap_or("shape-mismatch".into()), show_tree(&s[0]), show_tree(&s[1]), show_tree(&s[2])),
            ),
        }
        if rev_tree.as_ref() != Some(&v) {
            run.oracle_fail("C14:reveal:roundtrip", format!("{}: secret_share_reveal gives {}", descr, rev_tree.as_ref().map(show_tree).unwrap_or("ERR".into())));
        }
        // ReplicatedShares, local-evaluation form: same seed → the same triple; reveal → v
        let rs = catch(|| -> ciphercore_base::errors::Result<(TypedValue, TypedValue, TypedValue)> {
            let mut prng = PRNG::new(Some(seed))?;
            let r = ReplicatedShares::secret_share_for_local_evaluation(tv.clone(), &mut prng)?;
            let back = ReplicatedShares::from_tuple(sh.clone())?.reveal()?;
            Ok((r.to_tuple()?, r.reveal()?, back))
        });
        match rs {
            Err(p) => run.oracle_fail("C14:panic:replicated-local", format!("{} panicked: {}", descr, p)),
            Ok(Err(e)) => run.oracle_fail("C14:replicated-local:error", format!("{}: {:?}", descr, e)),
            Ok(Ok((tup, r, back))) => {
                run.count("S:replicated-local");
                if triple_of(&t, &tup.value).ok().as_ref() != Some(&s) {
                    run.oracle_fail("C14:replicated-local:differs", format!("{}: ReplicatedShares triple differs from TypedValue::secret_share under the same seed", descr));
                }
                if r.t != t || tree_of(&t, &r.value).ok().as_ref() != Some(&v) {
                    run.oracle_fail("C14:replicated-local:reveal", format!("{}: ReplicatedShares::reveal is not v", descr));
                }
                if back.t != t || tree_of(&t, &back.value).ok().as_ref() != Some(&v) {
                    run.oracle_fail("C14:replicated-local:from_tuple-reveal", format!("{}: from_tuple(..).reveal() is not v", descr));
                }
            }
        }

        // ---- P: per-party tuples, both code paths, same seed
        let local = catch(|| {
            let mut prng = PRNG::new(Some(seed))?;
            tv.get_local_shares_for_each_party(&mut prng)
        });
        let repl = catch(|| -> ciphercore_base::errors::Result<Vec<TypedValue>> {
            let mut prng = PRNG::new(Some(seed))?;
            let ps = ReplicatedShares::secret_share_for_parties(tv.clone(), &mut prng)?;
            ps.iter().map(|p| p.to_tuple()).collect()
        });
        let mut party_sets: Vec<(&str, [[Tree; 3]; 3])> = vec![];
        for (name, r) in [("local", local), ("replicated", repl)] {
            match r {
                Err(p) => run.oracle_fail(&format!("C14:panic:parties-{}", name), format!("{} panicked: {}", descr, p)),
                Ok(Err(e)) => run.oracle_fail(&format!("C14:parties-{}:error", name), format!("{}: {:?}", descr, e)),
                Ok(Ok(ps)) => match parties_of(&t, &ps) {
                    Err(e) => run.oracle_fail(&format!("C14:parties-{}:shape", name), format!("{}: {}", descr, e)),
                    Ok(p) => party_sets.push((name, p)),
                },
            }
        }
        for (name, p) in &party_sets {
            run.count(&format!("P:{}", name));
            run.case(
                format!("parties {} {} {}", show_tree(&v), show_tree(&s[0]), show_tree(&s[1])),
                format!("{} {} {}", show_party(0, &p[0]), show_party(1, &p[1]), show_party(2, &p[2])),
                nontrivial,
            );
            check_parties(run, &format!("C14:parties-{}", name), &descr, &v, p, Some((&s[0], &s[1])));
            // garbage values are values of the type
            for i in 0..3 {
                let g = (i + 2) % 3;
                if zip_tree(&p[i][g], &v, &add_nat).is_none() {
                    run.oracle_fail(&format!("C14:parties-{}:garbage-type", name), format!("{}: garbage of party {} has another shape", descr, i));
                }
            }
        }
        if party_sets.len() == 2 && party_sets[0].1 != party_sets[1].1 {
            run.oracle_fail("C14:parties:paths-differ", format!("{}: get_local_shares_for_each_party and secret_share_for_parties differ under the same seed", descr));
        }
        if let Some((_, p)) = party_sets.first() {
            // model: reconstruction from two tuples (garbage hidden), and the inverse of `held`
            let i = rng.below(3) as usize;
            let j = (i + 1 + rng.below(2) as usize) % 3;
            let slots = |i: usize| -> String {
                (0..3).map(|k| if k == (i + 2) % 3 { "*".to_owned() } else { show_tree(&p[i][k]) }).collect::<Vec<_>>().join(" ")
            };
            run.case(format!("recon {} {} {} {}", i, j, slots(i), slots(j)), show_tree(&v), nontrivial);
            run.count(&format!("P:recon:{}{}", i, j));
            let i = rng.below(3) as usize;
            run.case(
                format!("unheld {} {} {} {}", i, show_tree(&v), show_tree(&p[i][i]), show_tree(&p[i][(i + 1) % 3])),
                format!("{} {}", show_tree(&s[0]), show_tree(&s[1])),
                nontrivial,
            );
            run.count(&format!("P:unheld:{}", i));

            // non-interference: another secret of the same type under the same seed
            if case_no % 2 == 0 {
                let val2 = gen_value(&mut rng, &t, false);
                if let (Ok(tv2), Ok(v2)) = (TypedValue::new(t.clone(), val2.clone()), tree_of(&t, &val2)) {
                    let r2 = catch(|| {
                        let mut prng = PRNG::new(Some(seed))?;
                        tv2.get_local_shares_for_each_party(&mut prng)
                    });
                    match r2 {
                        Ok(Ok(ps2)) => match parties_of(&t, &ps2) {
                            Ok(p2) => {
                                run.oracle_case(&format!("{} v2={}", descr, show_tree(&v2)), nontrivial);
                                run.count("P:noninterference");
                                let dv = zip_tree(&v2, &v, &sub_nat);
                                for i in 0..3 {
                                    for k in 0..3 {
                                        if k == 2 && i != 0 {
                                            // share 2 moves by exactly v2 − v
                                            let d = zip_tree(&p2[i][k], &p[i][k], &sub_nat);
                                            if d != dv {
                                                run.oracle_fail("C14:noninterference:s2", format!("{} v2={}: share 2 of party {} does not move by v2-v", descr, show_tree(&v2), i));
                                            }
                                        } else if p2[i][k] != p[i][k] {
                                            let what = if k == (i + 2) % 3 { "garbage" } else { "share" };
                                            run.oracle_fail(
                                                &format!("C14:noninterference:{}", what),
                                                format!("{} v2={}: slot {} of party {} depends on the secret", descr, show_tree(&v2), k, i),
                                            );
                                        }
                                    }
                                }
                            }
                            Err(e) => run.oracle_fail("C14:parties-local:shape", format!("{} (second secret): {}", descr, e)),
                        },
                        Ok(Err(e)) => run.oracle_fail("C14:parties-local:error", format!("{} (second secret): {:?}", descr, e)),
                        Err(p) => run.oracle_fail("C14:panic:parties-local", format!("{} (second secret) panicked: {}", descr, p)),
                    }
                }
            }
        }
    }

    // ---------------------------------------------------------------- V: share_vector
    let mut rng = run.rng("V");
    let n_v = run.tier.scale(2500, 20000);
    for _ in 0..n_v {
        let st = *rng.pick(&ALL_ST);
        let n = if st == BIT { 1 + rng.below(100) } else { 1 + rng.below(12) } as usize;
        let xs: Vec<Z> = (0..n).map(|_| gen_elem(&mut rng, st)).collect();
        let seed = rng.seed16();
        let t = array_type(vec![n as u64], st);
        let descr = format!("share_vector st={} data={} seed={:?}", st_name(st), show_list(&xs), seed);
        let v = match value_of(st, &xs).map_err(|_| ()).and_then(|val| tree_of(&t, &val).map_err(|_| ())) {
            Ok(v) => v,
            Err(_) => {
                run.oracle_fail("C14:generator:share_vector", descr);
                continue;
            }
        };
        let r = catch(|| {
            let mut prng = PRNG::new(Some(seed))?;
            if xs.iter().all(|z| matches!(z.norm(), Z::I(_))) {
                let d: Vec<i128> = xs.iter().map(|z| z.as_u128() as i128).collect();
                share_vector(&mut prng, &d, st)
            } else {
                let d: Vec<u128> = xs.iter().map(|z| z.as_u128()).collect();
                share_vector(&mut prng, &d, st)
            }
        });
        run.count(&format!("V:{}", st_name(st)));
        let ps = match r {
            Err(p) => {
                run.oracle_fail("C14:panic:share_vector", format!("{} panicked: {}", descr, p));
                continue;
            }
            Ok(Err(e)) => {
                // keep the message's first line only (no backtrace)
                let msg = format!("{}", e).lines().next().unwrap_or("").to_owned();
                run.oracle_fail(&format!("C14:share_vector:error:{}", st_name(st)), format!("{}: {}", descr, msg));
                continue;
            }
            Ok(Ok(ps)) => ps,
        };
        if ps.len() != 3 {
            run.oracle_fail("C14:share_vector:shape", format!("{}: {} parties", descr, ps.len()));
            continue;
        }
        // genuine slots decode as arrays of the type; the garbage slot is a byte array of another type
        let mut p: Vec<[Tree; 3]> = vec![];
        let mut ok = true;
        for (i, pv) in ps.iter().enumerate() {
            let slots = match pv.to_vector() {
                Ok(s) if s.len() == 3 => s,
                _ => {
                    ok = false;
                    break;
                }
            };
            let mut row = vec![];
            for k in 0..3 {
                if k == (i + 2) % 3 {
                    // garbage: random bytes declared as a UINT8 array; read it with the share type when it fits
                    if slots[k].check_type(t.clone()).unwrap_or(false) {
                        row.push(tree_of(&t, &slots[k]).unwrap_or(Tree::Node(vec![])));
                    } else {
                        row.push(leaf_of_bytes(UINT8, &bytes_of(&slots[k])).unwrap());
                    }
                } else {
                    if !slots[k].check_type(t.clone()).unwrap_or(false) {
                        ok = false;
                    }
                    match tree_of(&t, &slots[k]) {
                        Ok(tr) => row.push(tr),
                        Err(_) => {
                            ok = false;
                            row.push(Tree::Node(vec![]));
                        }
                    }
                }
            }
            p.push([row[0].clone(), row[1].clone(), row[2].clone()]);
        }
        if !ok || p.len() != 3 {
            run.oracle_fail("C14:share_vector:shape", format!("{}: a slot is not an array of the type", descr));
            continue;
        }
        let p = [p[0].clone(), p[1].clone(), p[2].clone()];
        let leaf = |t: &Tree| -> String {
            match t {
                Tree::Leaf(_, xs) => show_list(xs),
                _ => "?".into(),
            }
        };
        run.case(
            format!("sharevec {} {} {} {}", st_name(st), leaf(&v), leaf(&p[0][0]), leaf(&p[0][1])),
            format!("{} {} {} {}", show_tree(&p[1][2]), show_party(0, &p[0]), show_party(1, &p[1]), show_party(2, &p[2])),
            true,
        );
        run.oracle_case(&descr, true);
        check_parties(run, "C14:share_vector", &descr, &v, &p, None);
    }

    // ---------------------------------------------------------------- R: reveal / add / subtract on arbitrary triples
    let mut rng = run.rng("R");
    let n_r = run.tier.scale(1500, 15000);
    for _ in 0..n_r {
        let depth = rng.below(3) as u32;
        let t = gen_type(&mut rng, depth);
        let vals: Vec<Value> = (0..3).map(|_| gen_value(&mut rng, &t, false)).collect();
        let trees: Vec<Tree> = match vals.iter().map(|x| tree_of(&t, x)).collect() {
            Ok(ts) => ts,
            Err(e) => {
                run.oracle_fail("C14:generator:tree", format!("type {:?}: {}", t, e));
                continue;
            }
        };
        let nontrivial = n_elems(&trees[0]) > 0;
        let descr = format!("reveal type={:?} s={},{},{}", t, show_tree(&trees[0]), show_tree(&trees[1]), show_tree(&trees[2]));
        let tt = tuple_type(vec![t.clone(), t.clone(), t.clone()]);
        let r = catch(|| -> ciphercore_base::errors::Result<(TypedValue, TypedValue)> {
            let tup = TypedValue::new(tt.clone(), Value::from_vector(vals.clone()))?;
            let a = tup.secret_share_reveal()?;
            let b = ReplicatedShares::from_tuple(tup)?.reveal()?;
            Ok((a, b))
        });
        let want = sum3(&trees[0], &trees[1], &trees[2]);
        match r {
            Err(p) => run.oracle_fail("C14:panic:reveal", format!("{} panicked: {}", descr, p)),
            Ok(Err(e)) => run.oracle_fail("C14:reveal:error", format!("{}: {:?}", descr, e)),
            Ok(Ok((a, b))) => {
                let ta = tree_of(&t, &a.value).ok();
                let tb = tree_of(&t, &b.value).ok();
                run.case(
                    format!("reveal {} {} {}", show_tree(&trees[0]), show_tree(&trees[1]), show_tree(&trees[2])),
                    ta.as_ref().map(show_tree).unwrap_or("ERR".into()),
                    nontrivial,
                );
                run.oracle_case(&descr, nontrivial);
                run.count("R:reveal");
                if ta != want || a.t != t {
                    run.oracle_fail("C14:reveal:sum", format!("{}: secret_share_reveal is not the sum", descr));
                }
                if tb != want || b.t != t {
                    run.oracle_fail("C14:reveal:replicated-sum", format!("{}: ReplicatedShares::reveal is not the sum", descr));
                }
            }
        }
        // generalized_subtract / generalized_add directly
        for (op, name) in [(0, "gsub"), (1, "gadd")] {
            let (a, b) = (vals[0].clone(), vals[1].clone());
            let tc = t.clone();
            let r = catch(move || if op == 0 { generalized_subtract(a, b, tc) } else { generalized_add(a, b, tc) });
            let want = zip_tree(&trees[0], &trees[1], if op == 0 { &sub_nat } else { &add_nat });
            match r {
                Err(p) => run.oracle_fail(&format!("C14:panic:{}", name), format!("{} panicked: {}", descr, p)),
                Ok(Err(e)) => run.oracle_fail(&format!("C14:{}:error", name), format!("{}: {:?}", descr, e)),
                Ok(Ok(x)) => {
                    let tx = tree_of(&t, &x).ok();
                    run.case(format!("{} {} {}", name, show_tree(&trees[0]), show_tree(&trees[1])), tx.as_ref().map(show_tree).unwrap_or("ERR".into()), nontrivial);
                    run.count(&format!("R:{}", name));
                    if tx != want {
                        run.oracle_fail(&format!("C14:{}:elementwise", name), format!("{}: {} is not element-wise mod 2^w", descr, name));
                    }
                }
            }
        }
        // malformed: a leaf operand with another element count must be refused, not mis-combined
        if rng.chance(1, 3) {
            let st = *rng.pick(&ALL_ST);
            let (n1, n2) = if st == BIT { (1 + rng.below(8), 9 + rng.below(8)) } else { (1 + rng.below(4), 5 + rng.below(4)) };
            let (t1, t2) = (array_type(vec![n1], st), array_type(vec![n2], st));
            let (a, b) = (gen_value(&mut rng, &t1, false), gen_value(&mut rng, &t2, false));
            let (ta, tb) = (tree_of(&t1, &a).unwrap(), tree_of(&t2, &b).unwrap());
            let op = rng.below(2);
            let name = if op == 0 { "gsub" } else { "gadd" };
            let (a2, b2, tc) = (a.clone(), b.clone(), t1.clone());
            let r = catch(move || if op == 0 { generalized_subtract(a2, b2, tc) } else { generalized_add(a2, b2, tc) });
            run.count(&format!("R:malformed:{}", name));
            match r {
                Err(p) => run.oracle_fail(&format!("C14:panic:{}-malformed", name), format!("{} {} {} panicked: {}", name, show_tree(&ta), show_tree(&tb), p)),
                Ok(Err(_)) => run.case(format!("{} {} {}", name, show_tree(&ta), show_tree(&tb)), "ERR".into(), true),
                Ok(Ok(x)) => run.case(format!("{} {} {}", name, show_tree(&ta), show_tree(&tb)), tree_of(&t1, &x).map(|t| show_tree(&t)).unwrap_or("?".into()), true),
            }
        }
    }

    // ---------------------------------------------------------------- E: get_evaluator_result (PRNG seeded by the OS: oracle only)
    let mut rng = run.rng("E");
    let n_e = run.tier.scale(100, 600);
    for _ in 0..n_e {
        let depth = rng.below(3) as u32;
        let t = gen_type(&mut rng, depth);
        let val = gen_value(&mut rng, &t, false);
        let v = match tree_of(&t, &val) {
            Ok(v) => v,
            Err(_) => continue,
        };
        // a plain value that is already a valid value of the triple type would be "used as is"
        let tt = tuple_type(vec![t.clone(), t.clone(), t.clone()]);
        if val.check_type(tt.clone()).unwrap_or(true) {
            continue;
        }
        let descr = format!("get_evaluator_result type={:?} v={}", t, show_tree(&v));
        for reveal in [false, true] {
            let (tc, ttc, valc) = (t.clone(), tt.clone(), val.clone());
            let r = catch(move || -> ciphercore_base::errors::Result<TypedValue> {
                let c = create_context()?;
                let g = c.create_graph()?;
                let i = g.input(ttc)?;
                g.set_output_node(i)?;
                g.finalize()?;
                c.set_main_graph(g)?;
                c.finalize()?;
                get_evaluator_result(c, vec![TypedValue::new(tc, valc)?], reveal, SimpleEvaluator::new(None)?)
            });
            run.oracle_case(&format!("{} reveal={}", descr, reveal), n_elems(&v) > 0);
            run.count(&format!("E:reveal={}", reveal));
            match r {
                Err(p) => run.oracle_fail("C14:panic:get_evaluator_result", format!("{} panicked: {}", descr, p)),
                Ok(Err(e)) => run.oracle_fail("C14:evaluator:error", format!("{}: {:?}", descr, e)),
                Ok(Ok(out)) => {
                    let got = if reveal {
                        tree_of(&t, &out.value).ok()
                    } else {
                        triple_of(&t, &out.value).ok().and_then(|s| sum3(&s[0], &s[1], &s[2]))
                    };
                    if got.as_ref() != Some(&v) {
                        run.oracle_fail("C14:evaluator:roundtrip", format!("{} reveal={}: result is not v", descr, reveal));
                    }
                }
            }
        }
    }
}
