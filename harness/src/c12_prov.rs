//! (a) oracle round trip on contexts of every provenance.
use super::*;
use ciphercore_base::ops::adder::BinaryAdd;
use ciphercore_base::ops::auc::AucScore;
use ciphercore_base::ops::clip::Clip2K;
use ciphercore_base::ops::comparisons::*;
use ciphercore_base::ops::fixed_precision::fixed_multiply::FixedMultiply;
use ciphercore_base::ops::fixed_precision::fixed_precision_config::FixedPrecisionConfig;
use ciphercore_base::ops::goldschmidt_division::GoldschmidtDivision;
use ciphercore_base::ops::integer_key_sort::SortByIntegerKey;
use ciphercore_base::ops::inverse_sqrt::InverseSqrt;
use ciphercore_base::ops::long_division::LongDivision;
use ciphercore_base::ops::min_max::{Max, Min};
use ciphercore_base::ops::multiplexer::Mux;
use ciphercore_base::ops::newton_inversion::NewtonInversion;
use ciphercore_base::ops::pwl::approx_exponent::ApproxExponent;
use ciphercore_base::ops::pwl::approx_gelu::ApproxGelu;
use ciphercore_base::ops::pwl::approx_gelu_derivative::ApproxGeluDerivative;
use ciphercore_base::ops::pwl::approx_sigmoid::ApproxSigmoid;
use ciphercore_base::ops::taylor_exponent::TaylorExponent;

/// getter-level observation of a context (independent of `contexts_deep_equal` and of serde)
pub fn observe(c: &Context) -> String {
    use std::fmt::Write;
    let mut s = String::new();
    let _ = write!(s, "fin={} main={:?};", c.check_finalized().is_ok(), c.get_main_graph().ok().map(|g| g.get_id()));
    for g in c.get_graphs() {
        let _ = write!(s, "G{} name={:?} ann={:?} out={:?} [", g.get_id(), g.get_name().ok(), g.get_annotations().ok(), g.get_output_node().ok().map(|n| n.get_id()));
        for n in g.get_nodes() {
            let deps: Vec<u64> = n.get_node_dependencies().iter().map(|d| d.get_id()).collect();
            let gdeps: Vec<u64> = n.get_graph_dependencies().iter().map(|d| d.get_id()).collect();
            let op = serde_json::to_string(&n.get_operation()).unwrap_or_else(|_| "?".into());
            let ty = n.get_type().map(|t| format!("{}", t)).unwrap_or_else(|_| "ERR".into());
            let _ = write!(s, "({} {} {:?} {:?} {:?} {:?} {});", n.get_id(), op, deps, gdeps, n.get_name().ok().flatten(), n.get_annotations().ok(), ty);
        }
        s.push(']');
    }
    s
}

fn eval_main(c: &Context, seed: [u8; 16]) -> Option<std::result::Result<Value, ()>> {
    let g = c.get_main_graph().ok()?;
    c.check_finalized().ok()?;
    let mut prng = PRNG::new(Some(seed)).ok()?;
    let mut inputs = vec![];
    for n in g.get_nodes() {
        if let Operation::Input(t) = n.get_operation() {
            inputs.push(prng.get_random_value(t).ok()?);
        }
    }
    match catch(|| evaluate_simple_evaluator(g.clone(), inputs, Some(seed))) {
        Ok(Ok(v)) => Some(Ok(v)),
        Ok(Err(_)) => Some(Err(())),
        Err(_) => None,
    }
}

/// the oracle of stream (a)
pub fn check_roundtrip(run: &mut Run, prov: &str, descr: &str, c: &Context, rng: &mut Rng) {
    let n_nodes: u64 = c.get_graphs().iter().map(|g| g.get_num_nodes()).sum();
    run.oracle_case(&format!("{} {}", prov, descr), n_nodes >= 2);
    run.count(&format!("roundtrip:{}", prov));
    run.count(&format!("roundtrip:nodes:{}", match n_nodes { 0..=9 => "<10", 10..=99 => "<100", 100..=999 => "<1000", _ => ">=1000" }));
    let d = || format!("{} {}", prov, trunc(descr, 600));
    let s1 = match ser_ctx(c) {
        Ok(s) => s,
        Err(e) => return fail(run, &format!("C12:serialize-failed:{}", prov), format!("{} : {}", d(), e)),
    };
    match ser_ctx(c) {
        Ok(s) if s == s1 => {}
        _ => return fail(run, &format!("C12:serialize-twice-differs:{}", prov), d()),
    }
    let c2 = match de_ctx(&s1) {
        Ok(Ok(c2)) => c2,
        Ok(Err(e)) => return fail(run, &format!("C12:roundtrip-error:{}", prov), format!("{} : {}", d(), trunc(&e, 300))),
        Err(p) => return fail(run, &panic_sig(&p, Some(&s1)), format!("{} : valid text, {} at {}", d(), p, last_panic_loc())),
    };
    if !contexts_deep_equal(c, &c2) {
        fail(run, &format!("C12:not-deep-equal:{}", prov), d());
    }
    if observe(c) != observe(&c2) {
        fail(run, &format!("C12:observation-differs:{}", prov), d());
    }
    match ser_ctx(&c2) {
        Ok(s2) if s2 == s1 => {}
        Ok(s2) => {
            let at = s1.bytes().zip(s2.bytes()).position(|(a, b)| a != b).unwrap_or(0);
            fail(run, &format!("C12:reserialized-text-differs:{}", prov), format!("{} : at byte {}: {} vs {}", d(), at, trunc(&s1[at.saturating_sub(40).min(s1.len())..], 120), trunc(&s2[at.saturating_sub(40).min(s2.len())..], 120)));
        }
        Err(e) => fail(run, &format!("C12:reserialize-failed:{}", prov), format!("{} : {}", d(), e)),
    }
    if let Some(p) = payload_of(&s1) {
        if let Err(rule) = wf_check(&p) {
            fail(run, &format!("C12:serialized-ill-formed:{}", rule), d());
        }
    } else {
        fail(run, "C12:envelope-shape", d());
    }
    if n_nodes <= 20000 {
        let seed = rng.seed16();
        match (eval_main(c, seed), eval_main(&c2, seed)) {
            (Some(Ok(a)), Some(Ok(b))) => {
                run.count("roundtrip:eval:ok");
                if a != b {
                    fail(run, &format!("C12:evaluation-differs:{}", prov), format!("{} seed={:?}", d(), seed));
                }
            }
            (Some(Err(())), Some(Err(()))) => run.count("roundtrip:eval:both-error"),
            (None, None) => run.count("roundtrip:eval:not-evaluable"),
            (a, b) => fail(run, &format!("C12:evaluation-verdict-differs:{}", prov), format!("{} seed={:?}: {:?} vs {:?}", d(), seed, a.map(|x| x.is_ok()), b.map(|x| x.is_ok()))),
        }
    }
}

/// derived contexts: instantiated, inlined, optimised
fn derived(run: &mut Run, tag: &str, descr: &str, c: &Context, rng: &mut Rng) {
    check_roundtrip(run, &format!("{}:plain", tag), descr, c, rng);
    if c.check_finalized().is_err() {
        return;
    }
    let inst = match catch(|| run_instantiation_pass(c.clone())) {
        Ok(Ok(m)) => m.get_context(),
        _ => {
            run.count(&format!("derive-failed:{}:instantiate", tag));
            return;
        }
    };
    check_roundtrip(run, &format!("{}:instantiated", tag), descr, &inst, rng);
    let mode = rng.below(3) as u8;
    let inl = match catch(|| inline_operations(&inst, inline_cfg(mode))) {
        Ok(Ok(m)) => m.get_context(),
        _ => {
            run.count(&format!("derive-failed:{}:inline", tag));
            return;
        }
    };
    check_roundtrip(run, &format!("{}:inlined", tag), &format!("{} mode={}", descr, mode), &inl, rng);
    let opt = match catch(|| optimize_context(&inl, SimpleEvaluator::new(None)?)) {
        Ok(Ok(m)) => m.get_context(),
        _ => {
            run.count(&format!("derive-failed:{}:optimize", tag));
            return;
        }
    };
    check_roundtrip(run, &format!("{}:optimised", tag), &format!("{} mode={}", descr, mode), &opt, rng);
}

fn bits(shape: Vec<u64>) -> Type {
    array_type(shape, BIT)
}

/// one context per library custom operation
pub fn custom_op_contexts() -> Vec<(String, Result<Context>)> {
    let mut v: Vec<(String, Result<Context>)> = vec![];
    let two = |t: Type, op: CustomOperation| {
        simple_context(|g| {
            let a = g.input(t.clone())?;
            let b = g.input(t.clone())?;
            g.custom_op(op, vec![a, b])
        })
    };
    let one = |t: Type, op: CustomOperation| {
        simple_context(|g| {
            let a = g.input(t.clone())?;
            g.custom_op(op, vec![a])
        })
    };
    for s in [false, true] {
        v.push((format!("GreaterThan({})", s), two(bits(vec![2, 8]), CustomOperation::new(GreaterThan { signed_comparison: s }))));
        v.push((format!("LessThan({})", s), two(bits(vec![3, 16]), CustomOperation::new(LessThan { signed_comparison: s }))));
        v.push((format!("GreaterThanEqualTo({})", s), two(bits(vec![8]), CustomOperation::new(GreaterThanEqualTo { signed_comparison: s }))));
        v.push((format!("LessThanEqualTo({})", s), two(bits(vec![2, 2, 32]), CustomOperation::new(LessThanEqualTo { signed_comparison: s }))));
        v.push((format!("Min({})", s), two(bits(vec![2, 8]), CustomOperation::new(Min { signed_comparison: s }))));
        v.push((format!("Max({})", s), two(bits(vec![2, 64]), CustomOperation::new(Max { signed_comparison: s }))));
        v.push((format!("LongDivision({})", s), simple_context(|g| {
            let a = g.input(array_type(vec![3], if s { INT32 } else { UINT32 }))?.a2b()?;
            let b = g.input(array_type(vec![3], if s { INT32 } else { UINT32 }))?.a2b()?;
            g.custom_op(CustomOperation::new(LongDivision { signed: s }), vec![a, b])
        })));
        v.push((format!("BinaryAdd({})", s), two(bits(vec![2, 4]), CustomOperation::new(BinaryAdd { overflow_bit: s }))));
        v.push((format!("FixedMultiply(debug={})", s), two(array_type(vec![2, 3], INT64), CustomOperation::new(FixedMultiply { config: FixedPrecisionConfig { fractional_bits: 10, debug: s } }))));
    }
    v.push(("Equal".into(), two(bits(vec![2, 8]), CustomOperation::new(Equal {}))));
    v.push(("NotEqual".into(), two(bits(vec![2, 8]), CustomOperation::new(NotEqual {}))));
    v.push(("Or".into(), two(bits(vec![2, 8]), CustomOperation::new(Or {}))));
    v.push(("Not".into(), one(bits(vec![2, 8]), CustomOperation::new(Not {}))));
    v.push(("Mux".into(), simple_context(|g| {
        let f = g.input(bits(vec![3]))?;
        let a = g.input(array_type(vec![3], INT64))?;
        let b = g.input(array_type(vec![3], INT64))?;
        g.custom_op(CustomOperation::new(Mux {}), vec![f, a, b])
    })));
    v.push(("Clip2K".into(), one(bits(vec![2, 16]), CustomOperation::new(Clip2K { k: 4 }))));
    v.push(("NewtonInversion".into(), two(array_type(vec![2, 3], UINT64), CustomOperation::new(NewtonInversion { iterations: 3, denominator_cap_2k: 4 }))));
    v.push(("NewtonInversion(no guess)".into(), one(array_type(vec![2], INT64), CustomOperation::new(NewtonInversion { iterations: 2, denominator_cap_2k: 10 }))));
    v.push(("InverseSqrt".into(), two(array_type(vec![2, 3], UINT64), CustomOperation::new(InverseSqrt { iterations: 3, denominator_cap_2k: 4 }))));
    v.push(("GoldschmidtDivision".into(), simple_context(|g| {
        let t = array_type(vec![2, 3], UINT64);
        let a = g.input(t.clone())?;
        let b = g.input(t.clone())?;
        let c = g.input(t)?;
        g.custom_op(CustomOperation::new(GoldschmidtDivision { iterations: 3, denominator_cap_2k: 4 }), vec![a, b, c])
    })));
    v.push(("TaylorExponent".into(), one(array_type(vec![2, 3], INT64), CustomOperation::new(TaylorExponent { taylor_terms: 5, fixed_precision_points: 4 }))));
    v.push(("ApproxExponent".into(), one(array_type(vec![3], INT64), CustomOperation::new(ApproxExponent { precision: 4 }))));
    v.push(("ApproxGelu".into(), one(array_type(vec![3], INT64), CustomOperation::new(ApproxGelu { precision: 4, ..Default::default() }))));
    v.push(("ApproxGeluDerivative".into(), one(array_type(vec![3], INT64), CustomOperation::new(ApproxGeluDerivative { precision: 4, ..Default::default() }))));
    v.push(("ApproxSigmoid".into(), one(array_type(vec![3], INT64), CustomOperation::new(ApproxSigmoid { precision: 4, ..Default::default() }))));
    v.push(("SortByIntegerKey".into(), one(
        named_tuple_type(vec![("k".to_owned(), array_type(vec![4], UINT32)), ("v".to_owned(), array_type(vec![4, 2], INT64))]),
        CustomOperation::new(SortByIntegerKey { key: "k".to_owned() }),
    )));
    v.push(("AucScore".into(), two(array_type(vec![5], INT64), CustomOperation::new(AucScore { fp: FixedPrecisionConfig::default() }))));
    v
}

/// hand-built contexts: names, every annotation kind, 128-bit constants, several graphs, partial states
pub fn hand_built(rng: &mut Rng) -> Vec<(String, Result<Context>)> {
    let mut v: Vec<(String, Result<Context>)> = vec![];
    v.push(("empty context".into(), create_context()));
    v.push(("one empty graph".into(), (|| {
        let c = create_context()?;
        c.create_graph()?.set_name("lonely")?;
        Ok(c)
    })()));
    let big: u128 = (1u128 << 100) + 7;
    let r128 = rng.next128();
    v.push(("128-bit constants, names, all annotations".into(), (|| {
        let c = create_context()?;
        let h = c.create_graph()?;
        {
            let a = h.input(scalar_type(UINT128))?;
            let b = h.input(scalar_type(UINT128))?;
            a.multiply(b)?.set_as_output()?;
            h.finalize()?;
            h.set_name("callee \"quoted\" \\ ünï")?;
            h.add_annotation(GraphAnnotation::AssociativeOperation)?;
            h.add_annotation(GraphAnnotation::SmallState)?;
            h.add_annotation(GraphAnnotation::OneBitState)?;
            h.add_annotation(GraphAnnotation::SmallState)?;
        }
        let g = c.create_graph()?;
        let x = g.input(scalar_type(UINT128))?.set_name("x")?;
        let k1 = g.constant(scalar_type(UINT128), Value::from_scalar(big, UINT128)?)?.set_name("2^100+7")?;
        let k2 = g.constant(scalar_type(UINT128), Value::from_scalar(u128::MAX, UINT128)?)?;
        let k3 = g.constant(array_type(vec![2], INT128), Value::from_flattened_array(&[r128, u128::MAX - 5], INT128)?)?;
        let k4 = g.constant(scalar_type(INT128), Value::from_scalar(-170141183460469231731687303715884105728i128, INT128)?)?;
        let y = g.call(h.clone(), vec![x.clone(), k1.clone()])?.add(k2)?;
        let t = g.create_tuple(vec![y.clone(), k3.clone(), k4])?.set_name("")?;
        for (i, a) in [
            NodeAnnotation::AssociativeOperation,
            NodeAnnotation::Private,
            NodeAnnotation::Send(0, 1),
            NodeAnnotation::Send(2, 0),
            NodeAnnotation::PRFMultiplication,
            NodeAnnotation::PRFB2A,
            NodeAnnotation::PRFTruncate,
            NodeAnnotation::MpcCall,
            NodeAnnotation::Send(0, 1),
        ]
        .into_iter()
        .enumerate()
        {
            [&x, &y, &t, &k3][i % 4].add_annotation(a)?;
        }
        t.set_as_output()?;
        g.finalize()?;
        g.set_as_main()?;
        c.finalize()?;
        Ok(c)
    })()));
    v.push(("iterate + vectors + named tuples, not finalized context".into(), (|| {
        let c = create_context()?;
        let t = scalar_type(INT64);
        let body = c.create_graph()?;
        {
            let s = body.input(t.clone())?;
            let x = body.input(t.clone())?;
            let ns = s.multiply(x.clone())?.add(x)?;
            body.create_tuple(vec![ns, s])?.set_as_output()?;
            body.finalize()?;
            body.add_annotation(GraphAnnotation::SmallState)?;
        }
        let g = c.create_graph()?;
        let s0 = g.input(t.clone())?.set_name("state")?;
        let xs: Vec<Node> = (0..3).map(|_| g.input(t.clone())).collect::<Result<_>>()?;
        let vv = g.create_vector(t.clone(), xs)?;
        let r = g.iterate(body, s0.clone(), vv)?;
        let nt = g.create_named_tuple(vec![("final".to_owned(), r.tuple_get(0)?), ("trace".to_owned(), r.tuple_get(1)?)])?;
        nt.set_as_output()?;
        g.finalize()?;
        let partial = c.create_graph()?;
        partial.input(array_type(vec![2, 2], BIT))?.set_name("state")?;
        g.set_as_main()?;
        Ok(c)
    })()));
    v.push(("output set, graph not finalized, no main".into(), (|| {
        let c = create_context()?;
        let g = c.create_graph()?;
        let a = g.input(array_type(vec![2, 3], UINT8))?;
        a.sum(vec![0])?.set_as_output()?;
        Ok(c)
    })()));
    v
}

pub fn stream_roundtrip(run: &mut Run) {
    let mut rng = run.rng("roundtrip");
    for (name, c) in hand_built(&mut rng) {
        match c {
            Ok(c) => derived(run, "hand", &name, &c, &mut rng),
            Err(e) => fail(run, "C12:harness:hand-built", format!("{} : {}", name, e)),
        }
    }
    for (name, c) in custom_op_contexts() {
        run.count(&format!("custom-op:{}", name.split('(').next().unwrap_or("")));
        match c {
            Ok(c) => derived(run, "custom", &name, &c, &mut rng),
            Err(e) => fail(run, "C12:harness:custom-op-context", format!("{} : {}", name, trunc(&e.to_string(), 300))),
        }
    }
    // small generated multi-graph contexts of the model stream (partial states included)
    for _ in 0..run.tier.scale(150, 1200) {
        let a = gen_actx(&mut rng);
        if let Ok(Ok(c)) = catch(|| build(&a)) {
            derived(run, "generated", &enc(&a), &c, &mut rng);
        }
    }
    // program families and their compiled forms
    let n = run.tier.scale(120, 900);
    for it in 0..n {
        let heavy = it % 10 == 0;
        let fam = match catch(|| gen_family(&mut rng, heavy)) {
            Ok(Ok(f)) => f,
            _ => {
                run.count("gen:failed");
                continue;
            }
        };
        run.count(&format!("family:{}", fam.name));
        let descr = format!("{} [{}]", fam.name, fam.descr);
        derived(run, "family", &descr, &fam.ctx, &mut rng);
        let ins: Vec<IOStatus> = fam.in_types.iter().map(|_| gen_status(&mut rng)).collect();
        let outs = gen_outputs(&mut rng);
        let mode = rng.below(3) as u8;
        match catch(|| compile(&fam.ctx, &ins, &outs, mode)) {
            Ok(Ok(cc)) => check_roundtrip(run, "family:compiled", &format!("{} {}", descr, crate::c01::config_name(&ins, &outs, mode)), &cc, &mut rng),
            _ => run.count("compile:rejected"),
        }
    }
}

/// `contexts_deep_equal` must separate contexts that differ in exactly one component
pub fn stream_deep_equal_discriminates(run: &mut Run) {
    let mut rng = run.rng("deq");
    let n = run.tier.scale(600, 5000);
    for _ in 0..n {
        let a = gen_actx(&mut rng);
        let mut b = a.clone();
        let kind = match rng.below(9) {
            0 => {
                // annotation order
                let i = (0..b.nanns.len()).find(|i| b.nanns[*i].1.len() >= 2 && b.nanns[*i].1[0] != b.nanns[*i].1[1]);
                match i {
                    Some(i) => b.nanns[i].1.swap(0, 1),
                    None => continue,
                }
                "node-annotation-order"
            }
            1 => {
                let i = (0..b.ganns.len()).find(|i| b.ganns[*i].1.len() >= 2 && b.ganns[*i].1[0] != b.ganns[*i].1[1]);
                match i {
                    Some(i) => b.ganns[i].1.swap(0, 1),
                    None => continue,
                }
                "graph-annotation-order"
            }
            2 => {
                if b.nnames.is_empty() {
                    continue;
                }
                b.nnames[0].1 += 20;
                "node-name"
            }
            3 => {
                if b.gnames.is_empty() {
                    continue;
                }
                b.gnames.remove(0);
                "graph-name-missing"
            }
            4 => {
                let g = rng.below(b.graphs.len() as u64) as usize;
                let ks: Vec<usize> = (0..b.graphs[g].nodes.len()).filter(|k| [OP_ADD, OP_SUB, OP_MUL].contains(&b.graphs[g].nodes[*k].op)).collect();
                if ks.is_empty() {
                    continue;
                }
                let k = *rng.pick(&ks);
                b.graphs[g].nodes[k].op = if b.graphs[g].nodes[k].op == OP_ADD { OP_SUB } else { OP_ADD };
                "operation"
            }
            5 => {
                let g = rng.below(b.graphs.len() as u64) as usize;
                let ks: Vec<usize> = (0..b.graphs[g].nodes.len()).filter(|k| b.graphs[g].nodes[*k].deps.len() == 2 && b.graphs[g].nodes[*k].deps[0] != b.graphs[g].nodes[*k].deps[1]).collect();
                if ks.is_empty() {
                    continue;
                }
                let k = *rng.pick(&ks);
                b.graphs[g].nodes[k].deps.swap(0, 1);
                "dependency-order"
            }
            6 => {
                if b.nanns.is_empty() {
                    continue;
                }
                b.nanns.remove(0);
                "node-annotation-missing"
            }
            7 => {
                if !b.finalized {
                    continue;
                }
                b.finalized = false;
                "context-finalized"
            }
            _ => {
                let g = rng.below(b.graphs.len() as u64) as usize;
                match b.graphs[g].output {
                    Some(o) if o > 0 && !b.graphs[g].finalized => b.graphs[g].output = Some(o - 1),
                    Some(_) if !b.graphs[g].finalized => b.graphs[g].output = None,
                    _ => continue,
                }
                "output"
            }
        };
        let (ca, cb) = match (catch(|| build(&a)), catch(|| build(&b))) {
            (Ok(Ok(x)), Ok(Ok(y))) => (x, y),
            _ => continue,
        };
        run.oracle_case(&format!("deep-equal {} {} vs {}", kind, enc(&a), enc(&b)), true);
        run.count(&format!("deep-equal:differs-in:{}", kind));
        match catch(|| (contexts_deep_equal(&ca, &cb), contexts_deep_equal(&ca, &ca))) {
            Ok((false, true)) => {}
            Ok((x, y)) => fail(run, &format!("C12:deep-equal-wrong:{}", kind), format!("equal(a,b)={} equal(a,a)={} a={} b={}", x, y, enc(&a), enc(&b))),
            Err(p) => fail(run, "C12:panic:deep-equal", format!("{} a={} b={}", p, enc(&a), enc(&b))),
        }
    }
}
