//! C12 — contexts survive serialization; malformed input is an error, not a crash.
//! Streams: (a) oracle round trip on contexts of every provenance; (b) model tie on small generated
//! contexts (abstract form ↔ real JSON structure; mutated serializations: model `recover` verdict vs
//! real `from_str`); (c) mutational robustness of Context / Value / TypedValue deserialization.
use crate::families::*;
use crate::mpc_common::*;
use crate::util::*;
use ciphercore_base::custom_ops::{run_instantiation_pass, CustomOperation, Not, Or};
use ciphercore_base::data_types::*;
use ciphercore_base::data_values::Value;
use ciphercore_base::errors::Result;
use ciphercore_base::evaluators::evaluate_simple_evaluator;
use ciphercore_base::evaluators::simple_evaluator::SimpleEvaluator;
use ciphercore_base::graphs::util::simple_context;
use ciphercore_base::graphs::*;
use ciphercore_base::inline::inline_ops::inline_operations;
use ciphercore_base::mpc::mpc_compiler::IOStatus;
use ciphercore_base::optimizer::optimize::optimize_context;
use ciphercore_base::random::PRNG;
use ciphercore_base::typed_value::TypedValue;
use serde_json::{json, Value as J};
use std::sync::Mutex;

#[path = "c12_abs.rs"]
mod abs;
#[path = "c12_prov.rs"]
mod prov;
#[path = "c12_mut.rs"]
mod mutate;

pub use abs::*;

static LAST_PANIC_LOC: Mutex<String> = Mutex::new(String::new());

pub fn last_panic_loc() -> String {
    LAST_PANIC_LOC.lock().map(|s| s.clone()).unwrap_or_default()
}

pub fn corr(run: &mut Run) {
    std::panic::set_hook(Box::new(|info| {
        if let Ok(mut g) = LAST_PANIC_LOC.lock() {
            *g = info.location().map(|l| format!("{}:{}", l.file(), l.line())).unwrap_or_default();
            if std::env::var("VERIF_DEBUG_PANICS").is_ok() {
                eprintln!("panic at {}: {}", g, info);
            }
        }
    }));
    run.rule = "(a) oracle round trip: contexts of every provenance (hand-built with names / all annotation kinds / 128-bit constants / \
                several graphs with Call and Iterate / unfinalized; one context per library custom operation; generated program families; \
                each also instantiated, inlined (3 modes), optimised, MPC-compiled): to_string → from_str → contexts_deep_equal + getter-level \
                observation equal + identical re-serialised text + identical evaluation on a PRNG-drawn input with the same seed; \
                deep_equal must also separate contexts differing in one component. (b) model tie: small generated multi-graph contexts \
                (2 inputs per graph, Add/Subtract/Multiply/Call, random names, annotations, finalisation states, tables applied in random \
                order): canonical re-encoding of the real JSON payload = model toSer; structurally mutated payloads (dangling / forward / self \
                dependencies, graph dependencies, output, main, flags, out-of-range / duplicate / empty entries of the four tables, reordered \
                tables): model recover verdict and re-serialised result = real from_str. (c) robustness: byte- and structure-level mutations \
                of the outer envelope and of the inner payload of Context, Value, TypedValue texts: never a panic; an accepted text must \
                re-serialise, round-trip and be well-formed by an independent checker on the generic JSON. Non-trivial: the context has ≥ 2 \
                nodes (a) / the request is a distinct context or mutant (b) / the mutant differs from the original text (c)."
        .to_owned();
    prov::stream_roundtrip(run);
    prov::stream_deep_equal_discriminates(run);
    abs::stream_model(run);
    mutate::stream_robustness(run);
}

// ------------------------------------------------------------------------------------------------
// shared: text <-> payload
// ------------------------------------------------------------------------------------------------

pub fn payload_of(text: &str) -> Option<J> {
    let outer: J = serde_json::from_str(text).ok()?;
    let data = outer.get("data")?.as_str()?;
    serde_json::from_str(data).ok()
}

pub fn wrap(payload: &J) -> String {
    json!({"version": 2, "data": payload.to_string()}).to_string()
}

/// classify a caught panic into a stable signature (site names, not line numbers)
pub fn panic_sig(msg: &str, text: Option<&str>) -> String {
    if msg.contains("Error during deserialization of SerializableContext") {
        return "C12:panic:context-payload-expect".into();
    }
    if msg.contains("Error during conversion from String to SerializableValue") {
        return "C12:panic:value-payload-expect".into();
    }
    if msg.contains("index out of bounds") {
        if let Some(p) = text.and_then(payload_of) {
            match abs::annotation_oob(&p) {
                Some(true) => return "C12:panic:graphs_annotations-oob".into(),
                Some(false) => return "C12:panic:nodes_annotations-oob".into(),
                None => {}
            }
        }
        return "C12:panic:index-oob-other".into();
    }
    let short: String = msg.chars().filter(|c| c.is_ascii_alphanumeric() || *c == ' ').take(40).collect();
    format!("C12:panic:other:{}", short.trim().replace(' ', "_"))
}

pub fn de_ctx(text: &str) -> std::result::Result<std::result::Result<Context, String>, String> {
    catch(|| serde_json::from_str::<Context>(text).map_err(|e| e.to_string()))
}

pub fn ser_ctx(c: &Context) -> std::result::Result<String, String> {
    match catch(|| serde_json::to_string(c)) {
        Ok(Ok(s)) => Ok(s),
        Ok(Err(e)) => Err(format!("error: {}", e)),
        Err(p) => Err(format!("panic: {}", p)),
    }
}

static FAIL_COUNTS: Mutex<Option<std::collections::HashMap<String, u64>>> = Mutex::new(None);

/// report an oracle failure; at most 6 replayable details per signature are kept (all are counted)
pub fn fail(run: &mut Run, sig: &str, detail: String) {
    let n = {
        let mut g = FAIL_COUNTS.lock().unwrap();
        let m = g.get_or_insert_with(Default::default);
        let e = m.entry(sig.to_owned()).or_insert(0);
        *e += 1;
        *e
    };
    if n <= 6 {
        run.oracle_fail(sig, detail);
    } else {
        run.count(&format!("oracle_fail:{}", sig));
    }
}
