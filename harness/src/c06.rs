//! C06 — graph optimisation preserves meaning and interface.
//! corr (structural, per pass and for the pipeline): the Lean model of the four optimiser passes is given the
//!   abstract source graph (+ an oracle table with the values `evaluate_node` yields for constant-derivable
//!   nodes) and must return exactly the graph (ops, deps, annotations, names, type summary, output) and the
//!   old→new mapping the real pass produces.
//! oracle (independent of the model): both contexts are evaluated node by node on the same inputs with replayed
//!   randomness (a Random node of the result gets the value drawn for its unique source node); every mapped node
//!   must carry the same value; (Input type, name) list preserved in order; Send markers survive on a node with
//!   the same value; the result survives a serde round trip with identical types and output value.
use crate::families::*;
use crate::mpc_common::*;
use crate::util::*;
use ciphercore_base::custom_ops::ContextMappings;
use ciphercore_base::data_types::*;
use ciphercore_base::data_values::Value;
use ciphercore_base::errors::Result;
use ciphercore_base::evaluators::simple_evaluator::SimpleEvaluator;
use ciphercore_base::evaluators::Evaluator;
use ciphercore_base::graphs::*;
use ciphercore_base::mpc::mpc_compiler::{prepare_context, prepare_for_mpc_evaluation, IOStatus};
use ciphercore_base::optimizer::optimize::optimize_context;
use ciphercore_base::optimizer::verif_hooks;
use ciphercore_base::random::PRNG;
use std::collections::{HashMap, HashSet};
use std::fmt::Write as _;

// ------------------------------------------------------------------------------------------------
// interning + canonical dump
// ------------------------------------------------------------------------------------------------

#[derive(Default)]
struct Interner {
    tables: HashMap<&'static str, HashMap<String, usize>>,
}

impl Interner {
    fn id(&mut self, table: &'static str, key: String) -> usize {
        let t = self.tables.entry(table).or_default();
        let n = t.len();
        *t.entry(key).or_insert(n)
    }
}

fn value_key(v: &Value) -> String {
    v.access(
        |bytes| {
            let mut s = String::with_capacity(bytes.len() * 2 + 2);
            s.push('b');
            for b in bytes {
                write!(s, "{:02x}", b).unwrap();
            }
            Ok(s)
        },
        |vec| {
            let mut s = String::from("[");
            for e in vec.iter() {
                s.push_str(&value_key(e));
                s.push(',');
            }
            s.push(']');
            Ok(s)
        },
    )
    .unwrap_or_else(|_| "?".to_owned())
}

fn const_code(ix: &mut Interner, t: &Type, v: &Value) -> (usize, Option<u64>) {
    let vid = ix.id("value", format!("{:?}#{}", t, value_key(v)));
    let num = match t {
        Type::Scalar(st) if *st == UINT64 => v.to_u64(UINT64).ok(),
        _ => None,
    };
    (vid, num)
}

fn ty_code(ix: &mut Interner, t: &Type) -> String {
    match t {
        Type::Scalar(st) => format!("a.0.{}", ix.id("st", format!("{:?}", st))),
        Type::Array(shape, st) => format!("a.{}.{}", shape.len(), ix.id("st", format!("{:?}", st))),
        Type::Vector(_, e) => format!("v{}", ty_code(ix, e)),
        _ => "o".to_owned(),
    }
}

fn op_code(ix: &mut Interner, op: &Operation) -> String {
    if op.is_prf_operation() {
        return format!("p.{}", ix.id("op", format!("{:?}", op)));
    }
    if is_rand(op) {
        return format!("r.{}", ix.id("op", format!("{:?}", op)));
    }
    match op {
        Operation::Input(t) => format!("in.{}", ix.id("type", format!("{:?}", t))),
        Operation::Constant(t, v) => {
            let (vid, num) = const_code(ix, t, v);
            match num {
                Some(c) => format!("c.{}.{}", vid, c),
                None => format!("c.{}.n", vid),
            }
        }
        Operation::NOP => "nop".to_owned(),
        Operation::CreateTuple => "ct".to_owned(),
        Operation::CreateNamedTuple(names) => {
            let mut s = "cnt".to_owned();
            for n in names {
                write!(s, ".{}", ix.id("field", n.clone())).unwrap();
            }
            s
        }
        Operation::CreateVector(t) => format!("cv.{}", ix.id("type", format!("{:?}", t))),
        Operation::TupleGet(j) => format!("tg.{}", j),
        Operation::NamedTupleGet(n) => format!("ntg.{}", ix.id("field", n.clone())),
        Operation::VectorGet => "vg".to_owned(),
        Operation::Zip => "zip".to_owned(),
        Operation::ArrayToVector => "a2v".to_owned(),
        Operation::Get(idx) if idx.len() == 1 => format!("get.{}", idx[0]),
        Operation::GetSlice(sl) if sl.len() == 2 && matches!(sl[0], SliceElement::SingleIndex(i) if i >= 0) && matches!(sl[1], SliceElement::Ellipsis) => {
            if let SliceElement::SingleIndex(i) = sl[0] {
                format!("gsl.{}", i)
            } else {
                unreachable!()
            }
        }
        Operation::A2B => "a2b".to_owned(),
        Operation::B2A(st) => format!("b2a.{}", ix.id("st", format!("{:?}", st))),
        op => format!("o.{}.{}", ix.id("op", format!("{:?}", op)), if op.is_const_optimizable().unwrap_or(false) { 1 } else { 0 }),
    }
}

fn dump_graph(ix: &mut Interner, g: &Graph) -> Result<(u64, String)> {
    let mut s = String::new();
    for (i, n) in g.get_nodes().iter().enumerate() {
        if i > 0 {
            s.push(';');
        }
        let deps: Vec<u64> = n.get_node_dependencies().iter().map(|d| d.get_id()).collect();
        let anns: Vec<usize> = n.get_annotations()?.iter().map(|a| ix.id("ann", format!("{:?}", a))).collect();
        let name = match n.get_name()? {
            Some(nm) => ix.id("name", nm).to_string(),
            None => "n".to_owned(),
        };
        write!(s, "{}|{}|{}|{}|{}", op_code(ix, &n.get_operation()), show_list(&deps), show_list(&anns), name, ty_code(ix, &n.get_type()?)).unwrap();
    }
    if s.is_empty() {
        s.push('_');
    }
    Ok((g.get_output_node()?.get_id(), s))
}

fn dump_mapping(g: &Graph, m: &ContextMappings) -> String {
    let v: Vec<String> = g.get_nodes().iter().map(|n| if m.contains_node(n) { m.get_node(n).get_id().to_string() } else { "n".to_owned() }).collect();
    if v.is_empty() {
        "_".to_owned()
    } else {
        v.join(",")
    }
}

/// values of all constant-derivable nodes (Constant nodes and every non-input, non-randomising node all of
/// whose dependencies are constant-derivable), by `evaluate_node`; rendered as `i:vid:num,…`
fn oracle_table(ix: &mut Interner, g: &Graph) -> String {
    let mut ev = match SimpleEvaluator::new(None) {
        Ok(e) => e,
        Err(_) => return "_".to_owned(),
    };
    let _ = ev.preprocess(&g.get_context());
    let mut vals: HashMap<u64, Value> = HashMap::new();
    let mut out = vec![];
    for n in g.get_nodes() {
        let op = n.get_operation();
        if op.is_input() || is_rand(&op) || matches!(op, Operation::Call | Operation::Iterate | Operation::Custom(_)) {
            continue;
        }
        let deps = n.get_node_dependencies();
        if !deps.iter().all(|d| vals.contains_key(&d.get_id())) {
            continue;
        }
        let dv: Vec<Value> = deps.iter().map(|d| vals[&d.get_id()].clone()).collect();
        if let Ok(Ok(v)) = catch(|| ev.evaluate_node(n.clone(), dv)) {
            let t = n.get_type().unwrap();
            let (vid, num) = const_code(ix, &t, &v);
            out.push(format!("{}:{}:{}", n.get_id(), vid, num.map(|c| c.to_string()).unwrap_or_else(|| "n".to_owned())));
            vals.insert(n.get_id(), v);
        }
    }
    if out.is_empty() {
        "_".to_owned()
    } else {
        out.join(",")
    }
}

// ------------------------------------------------------------------------------------------------
// running single passes / the pipeline
// ------------------------------------------------------------------------------------------------

#[derive(Clone, Copy, PartialEq, Eq, Debug)]
enum Pass {
    Constants,
    Meta,
    Duplicates,
    Dangling,
}

impl Pass {
    fn name(self) -> &'static str {
        match self {
            Pass::Constants => "constants",
            Pass::Meta => "meta",
            Pass::Duplicates => "duplicates",
            Pass::Dangling => "dangling",
        }
    }
}

/// like `graph_in_new_context` + the pass + finalisation in optimize.rs
fn run_pass(p: Pass, g: &Graph) -> Result<(Context, ContextMappings)> {
    let c = create_context()?;
    let ng = c.create_graph()?;
    for a in g.get_annotations()? {
        ng.add_annotation(a)?;
    }
    let m = match p {
        Pass::Constants => {
            let mut ev = SimpleEvaluator::new(None)?;
            ev.preprocess(&g.get_context())?;
            verif_hooks::constants(g.clone(), ng.clone(), &mut ev)?
        }
        Pass::Meta => verif_hooks::meta_operations(g.clone(), ng.clone())?,
        Pass::Duplicates => verif_hooks::duplicates(g.clone(), ng.clone())?,
        Pass::Dangling => verif_hooks::dangling_nodes(g.clone(), ng.clone())?,
    };
    ng.finalize()?;
    ng.set_as_main()?;
    c.finalize()?;
    Ok((c, m))
}

// ------------------------------------------------------------------------------------------------
// the oracle: replayed evaluation
// ------------------------------------------------------------------------------------------------

fn input_types(g: &Graph) -> Vec<Type> {
    g.get_nodes().iter().filter_map(|n| if let Operation::Input(t) = n.get_operation() { Some(t) } else { None }).collect()
}

/// random inputs; scalar UINT64 inputs are kept in {0,1} (they may index vectors of length ≥ 2)
fn gen_inputs(rng: &mut Rng, types: &[Type]) -> Vec<Value> {
    let mut prng = PRNG::new(Some(rng.seed16())).unwrap();
    types
        .iter()
        .map(|t| match t {
            Type::Scalar(st) if *st == UINT64 => Value::from_scalar(rng.below(2), UINT64).unwrap(),
            t => prng.get_random_value(t.clone()).unwrap_or_else(|_| Value::zero_of_type(t.clone())),
        })
        .collect()
}

/// the harness's OWN classification of randomising operations (graphs.rs predicates are under test)
fn is_rand(op: &Operation) -> bool {
    matches!(op, Operation::Random(_) | Operation::RandomPermutation(_) | Operation::CuckooToPermutation | Operation::DecomposeSwitchingMap(_))
}

/// evaluate node by node; `forced(node)` supplies the value of a randomising node (None = draw)
fn eval_all(g: &Graph, inputs: &[Value], seed: [u8; 16], forced: &dyn Fn(&Node) -> Option<Value>) -> Result<Vec<Value>> {
    let mut ev = SimpleEvaluator::new(Some(seed))?;
    ev.preprocess(&g.get_context())?;
    let mut vals: Vec<Value> = vec![];
    let mut next_in = 0;
    for n in g.get_nodes() {
        let op = n.get_operation();
        let v = if op.is_input() {
            let v = inputs.get(next_in).cloned().ok_or_else(|| ciphercore_base::runtime_error!("too few inputs"))?;
            next_in += 1;
            if !v.check_type(n.get_type()?)? {
                return Err(ciphercore_base::runtime_error!("input type mismatch"));
            }
            v
        } else if is_rand(&op) && forced(&n).is_some() {
            forced(&n).unwrap()
        } else {
            let dv: Vec<Value> = n.get_node_dependencies().iter().map(|d| vals[d.get_id() as usize].clone()).collect();
            ev.evaluate_node(n.clone(), dv)?
        };
        vals.push(v);
    }
    Ok(vals)
}

fn reachable(g: &Graph) -> HashSet<u64> {
    let mut seen = HashSet::new();
    let mut stack = vec![g.get_output_node().unwrap()];
    while let Some(n) = stack.pop() {
        if seen.insert(n.get_id()) {
            for d in n.get_node_dependencies() {
                stack.push(d);
            }
        }
    }
    seen
}

fn input_iface(g: &Graph) -> Vec<String> {
    g.get_nodes()
        .iter()
        .filter_map(|n| if let Operation::Input(t) = n.get_operation() { Some(format!("{:?}/{:?}/{:?}", t, n.get_type().ok(), n.get_name().ok().flatten())) } else { None })
        .collect()
}

/// All oracle checks of one (old graph, new context, mapping) triple. `all_mapped`: the pass maps every node.
fn oracle(run: &mut Run, rng: &mut Rng, what: &str, descr: &str, og: &Graph, nc: &Context, m: &ContextMappings, all_mapped: bool) {
    let sig = |s: &str| format!("C06:{}:{}", s, what);
    let ng = match nc.get_main_graph() {
        Ok(g) => g,
        Err(_) => {
            run.oracle_fail(&sig("no-main-graph"), descr.to_owned());
            return;
        }
    };
    run.oracle_case(&format!("{} {}", what, descr), true);
    // interface
    if input_iface(og) != input_iface(&ng) {
        run.oracle_fail(&sig("inputs-changed"), format!("{} : inputs {:?} became {:?}", descr, input_iface(og), input_iface(&ng)));
        return;
    }
    // mapping shape
    let old_nodes = og.get_nodes();
    let new_nodes = ng.get_nodes();
    let reach_old = reachable(og);
    let reach_new = reachable(&ng);
    let mut origin: HashMap<u64, Vec<u64>> = HashMap::new();
    for n in &old_nodes {
        if m.contains_node(n) {
            let t = m.get_node(n);
            if t.get_graph() != ng {
                run.oracle_fail(&sig("mapping-foreign-node"), format!("{} : node {}", descr, n.get_id()));
                return;
            }
            let (o1, o2) = (n.get_operation(), t.get_operation());
            if is_rand(&o1) || o1.is_prf_operation() {
                // sources of a randomising / PRF node of the result (other nodes, e.g. a resolved getter, may
                // map to the same node; they are compared by value)
                origin.entry(t.get_id()).or_default().push(n.get_id());
            }
            if (is_rand(&o1) || o1.is_prf_operation() || o1.is_input()) && format!("{:?}", o1) != format!("{:?}", o2) {
                run.oracle_fail(&sig("random-prf-input-changed-op"), format!("{} : node {} {:?} mapped to {:?}", descr, n.get_id(), o1, o2));
            }
        } else if all_mapped || reach_old.contains(&n.get_id()) && what == "dangling" {
            run.oracle_fail(&sig("node-unmapped"), format!("{} : node {}", descr, n.get_id()));
        }
    }
    if !m.contains_node(&og.get_output_node().unwrap()) || m.get_node(&og.get_output_node().unwrap()) != ng.get_output_node().unwrap() {
        run.oracle_fail(&sig("output-not-mapped-to-output"), descr.to_owned());
        return;
    }
    // C04(b): randomising / PRF nodes of the result have exactly one source, of the same kind
    for n in &new_nodes {
        let op = n.get_operation();
        if is_rand(&op) || op.is_prf_operation() {
            let src: Vec<u64> = origin.get(&n.get_id()).cloned().unwrap_or_default();
            if src.len() != 1 {
                run.oracle_fail(&sig("random-prf-origin-not-unique"), format!("{} : new node {} ({:?}) has sources {:?}", descr, n.get_id(), op, src));
                return;
            }
        }
    }
    for n in &old_nodes {
        let op = n.get_operation();
        if (is_rand(&op) || op.is_prf_operation()) && reach_old.contains(&n.get_id()) && !m.contains_node(n) && all_mapped {
            run.oracle_fail(&sig("random-prf-dropped"), format!("{} : node {}", descr, n.get_id()));
        }
    }
    // closedness of the result
    for n in &new_nodes {
        if n.get_node_dependencies().iter().any(|d| d.get_id() >= n.get_id()) {
            run.oracle_fail(&sig("not-closed"), format!("{} : new node {}", descr, n.get_id()));
            return;
        }
    }
    // replayed evaluation
    let tys = input_types(og);
    let n_rounds = if old_nodes.len() > 300 { 1 } else { 2 };
    for round in 0..n_rounds {
        let inputs = gen_inputs(rng, &tys);
        let seed = rng.seed16();
        let old_vals = match catch(|| eval_all(og, &inputs, seed, &|_| None)) {
            Ok(Ok(v)) => v,
            _ => {
                run.count(&format!("{}:source-evaluation-failed", what));
                // the source graph has no value on this input: nothing to preserve
                continue;
            }
        };
        let forced = |n: &Node| -> Option<Value> { origin.get(&n.get_id()).and_then(|s| s.first()).map(|i| old_vals[*i as usize].clone()) };
        let new_vals = match catch(|| eval_all(&ng, &inputs, rng.seed16(), &forced)) {
            Ok(Ok(v)) => v,
            Ok(Err(e)) => {
                run.oracle_fail(&sig("result-evaluation-error"), format!("{} : {}", descr, trunc(&format!("{}", e), 200)));
                return;
            }
            Err(p) => {
                run.oracle_fail(&sig("result-evaluation-panic"), format!("{} : {}", descr, trunc(&p, 200)));
                return;
            }
        };
        for n in &old_nodes {
            if m.contains_node(n) {
                let t = m.get_node(n);
                if new_vals[t.get_id() as usize] != old_vals[n.get_id() as usize] {
                    let kind = if n == &og.get_output_node().unwrap() { "output-value-changed" } else { "mapped-value-changed" };
                    run.oracle_fail(&sig(kind), format!("{} : old node {} ({}) -> new node {} ({}) on inputs #{}", descr, n.get_id(), op_tag(&n.get_operation()), t.get_id(), op_tag(&t.get_operation()), round));
                    return;
                }
                if n.get_type().ok() != t.get_type().ok() {
                    run.oracle_fail(&sig("mapped-type-changed"), format!("{} : old node {} -> new node {}", descr, n.get_id(), t.get_id()));
                    return;
                }
            }
        }
        // annotations: every marker of a source node whose image the new output depends on (all nodes for
        // the passes that drop nothing) is carried by a node with the same value
        for n in &old_nodes {
            let anns = n.get_annotations().unwrap_or_default();
            if anns.is_empty() {
                continue;
            }
            let image = if m.contains_node(n) { Some(m.get_node(n)) } else { None };
            let needed = match &image {
                Some(t) => all_mapped || reach_new.contains(&t.get_id()),
                None => false,
            };
            if !needed {
                run.count(&format!("{}:annotated-node-no-longer-needed", what));
                continue;
            }
            for a in anns {
                let ok_image = image.as_ref().map(|t| t.get_annotations().unwrap_or_default().contains(&a)).unwrap_or(false);
                let ok_any = ok_image || new_nodes.iter().any(|k| k.get_annotations().unwrap_or_default().contains(&a) && new_vals[k.get_id() as usize] == old_vals[n.get_id() as usize]);
                if !ok_any {
                    run.oracle_fail(&sig("annotation-lost"), format!("{} : {:?} of old node {}", descr, a, n.get_id()));
                    return;
                }
                run.count(if ok_image { "annotation:on-image" } else { "annotation:on-equal-valued-node" });
            }
        }
        // serde round trip (first round only)
        if round == 0 {
            let reloaded = catch(|| -> Result<Context> {
                let s = serde_json::to_string(nc).map_err(|e| ciphercore_base::runtime_error!("{}", e))?;
                serde_json::from_str::<Context>(&s).map_err(|e| ciphercore_base::runtime_error!("{}", e))
            });
            match reloaded {
                Ok(Ok(rc)) => {
                    let rg = rc.get_main_graph().unwrap();
                    let rn = rg.get_nodes();
                    if rn.len() != new_nodes.len() {
                        run.oracle_fail(&sig("reload-node-count"), descr.to_owned());
                        return;
                    }
                    for (a, b) in rn.iter().zip(new_nodes.iter()) {
                        if a.get_type().ok() != b.get_type().ok() || a.get_type().is_err() {
                            run.oracle_fail(&sig("reload-type-differs"), format!("{} : new node {} ({}) recorded {:?} re-inferred {:?}", descr, b.get_id(), op_tag(&b.get_operation()), b.get_type().ok(), a.get_type().ok()));
                            return;
                        }
                    }
                    let forced_r = |n: &Node| -> Option<Value> { Some(new_vals[n.get_id() as usize].clone()) };
                    match catch(|| eval_all(&rg, &inputs, rng.seed16(), &forced_r)) {
                        Ok(Ok(v)) => {
                            let o = rg.get_output_node().unwrap().get_id() as usize;
                            if v[o] != old_vals[og.get_output_node().unwrap().get_id() as usize] {
                                run.oracle_fail(&sig("reload-output-differs"), descr.to_owned());
                                return;
                            }
                        }
                        _ => {
                            run.oracle_fail(&sig("reload-evaluation-failed"), descr.to_owned());
                            return;
                        }
                    }
                }
                Ok(Err(e)) => {
                    run.oracle_fail(&sig("reload-error"), format!("{} : {}", descr, trunc(&format!("{}", e), 200)));
                    return;
                }
                Err(p) => {
                    run.oracle_fail(&sig("reload-panic"), format!("{} : {}", descr, trunc(&p, 200)));
                    return;
                }
            }
        }
    }
}

// ------------------------------------------------------------------------------------------------
// generator
// ------------------------------------------------------------------------------------------------

struct Gen<'a> {
    rng: &'a mut Rng,
    g: Graph,
    nodes: Vec<Node>,
    feats: Vec<&'static str>,
    names: usize,
}

fn key_type() -> Type {
    array_type(vec![128], BIT)
}

impl<'a> Gen<'a> {
    fn push(&mut self, n: Node, feat: &'static str) {
        self.feats.push(feat);
        if self.rng.chance(1, 12) {
            self.names += 1;
            let _ = n.set_name(&format!("node{}", self.names));
        }
        self.nodes.push(n);
    }
    fn of<F: Fn(&Type) -> bool>(&mut self, f: F) -> Option<Node> {
        let c: Vec<Node> = self.nodes.iter().filter(|n| f(&n.get_type().unwrap())).cloned().collect();
        if c.is_empty() {
            None
        } else {
            // bias towards recent nodes
            let k = c.len();
            let i = if self.rng.chance(1, 2) { k - 1 - self.rng.below(k.min(4) as u64) as usize } else { self.rng.below(k as u64) as usize };
            Some(c[i].clone())
        }
    }
    fn any(&mut self) -> Node {
        self.of(|_| true).unwrap()
    }
    fn arith_types() -> Vec<Type> {
        vec![array_type(vec![2], UINT64), scalar_type(UINT64), array_type(vec![2, 3], INT32), array_type(vec![3], UINT8), scalar_type(INT64), array_type(vec![2, 2], UINT64)]
    }
    fn is_arith(t: &Type) -> bool {
        matches!(t, Type::Scalar(st) | Type::Array(_, st) if *st != BIT)
    }
    fn small_const(&mut self, t: &Type) -> Result<Node> {
        // few distinct values so that equal constants occur
        let v = match t {
            Type::Scalar(st) => Value::from_scalar(self.rng.below(3), *st)?,
            Type::Array(shape, st) => {
                let n: u64 = shape.iter().product();
                let x = self.rng.below(2);
                let data: Vec<u64> = (0..n).map(|i| if *st == BIT { (i + x) % 2 } else { i % 3 + x }).collect();
                Value::from_flattened_array(&data, *st)?
            }
            _ => Value::zero_of_type(t.clone()),
        };
        self.g.constant(t.clone(), v)
    }

    fn step(&mut self) -> Result<()> {
        let g = self.g.clone();
        match self.rng.below(30) {
            0 | 1 => {
                let t = self.rng.pick(&Self::arith_types()).clone();
                let n = g.input(t)?;
                self.push(n, "input");
            }
            2 => {
                let t = if self.rng.chance(1, 2) { array_type(vec![2, 64], BIT) } else { array_type(vec![8], BIT) };
                let n = g.input(t)?;
                self.push(n, "input-bits");
            }
            3 | 4 | 5 => {
                let t = self.rng.pick(&Self::arith_types()).clone();
                let n = self.small_const(&t)?;
                self.push(n, "constant");
            }
            6 | 7 | 8 => {
                if let Some(a) = self.of(Self::is_arith) {
                    let t = a.get_type()?;
                    let b = self.of(|x| *x == t).unwrap();
                    let n = match self.rng.below(3) {
                        0 => a.add(b.clone())?,
                        1 => a.multiply(b.clone())?,
                        _ => a.subtract(b.clone())?,
                    };
                    self.push(n.clone(), "arith");
                    if self.rng.chance(1, 4) {
                        // the same expression again
                        let n2 = g.add_node(vec![a.clone(), b.clone()], vec![], n.get_operation())?;
                        self.push(n2, "duplicate");
                    }
                    if self.rng.chance(1, 4) {
                        // the same operation with the operands swapped: a different value unless the
                        // operation is commutative
                        let n2 = g.add_node(vec![b.clone(), a.clone()], vec![], n.get_operation())?;
                        self.push(n2, "swapped-operands");
                    }
                    if matches!(&t, Type::Array(s, _) if s.len() == 2 && s[0] == s[1]) && self.rng.chance(1, 2) {
                        // matrix products of square matrices in both orders (not commutative)
                        let (p, q) = match self.rng.below(3) {
                            0 => (a.dot(b.clone())?, b.dot(a.clone())?),
                            1 => (a.matmul(b.clone())?, b.matmul(a.clone())?),
                            _ => (a.gemm(b.clone(), false, true)?, b.gemm(a.clone(), false, true)?),
                        };
                        self.push(p, "matrix-product");
                        self.push(q, "matrix-product-swapped");
                    }
                }
            }
            9 | 10 => {
                let k = 1 + self.rng.below(3);
                let es: Vec<Node> = (0..k).map(|_| self.any()).collect();
                let n = g.create_tuple(es)?;
                self.push(n, "create_tuple");
            }
            11 => {
                let k = 1 + self.rng.below(3) as usize;
                let mut names = vec!["a", "b", "c", "d"];
                self.rng.shuffle(&mut names);
                let es: Vec<(String, Node)> = (0..k).map(|i| (names[i].to_owned(), self.any())).collect();
                let n = g.create_named_tuple(es)?;
                self.push(n, "create_named_tuple");
            }
            12 | 13 => {
                let a = self.any();
                let t = a.get_type()?;
                let k = 1 + self.rng.below(3);
                let mut es = vec![a];
                for _ in 1..k {
                    es.push(self.of(|x| *x == t).unwrap());
                }
                let n = g.create_vector(t, es)?;
                self.push(n, "create_vector");
            }
            14 => {
                if let Some(v) = self.of(|t| matches!(t, Type::Vector(_, _))) {
                    let len = if let Type::Vector(l, _) = v.get_type()? { l } else { 0 };
                    let k = 2 + self.rng.below(2);
                    let mut es = vec![v];
                    for _ in 1..k {
                        es.push(self.of(|t| matches!(t, Type::Vector(l, _) if *l == len)).unwrap());
                    }
                    let n = g.zip(es)?;
                    self.push(n, "zip");
                }
            }
            15 => {
                if let Some(a) = self.of(|t| matches!(t, Type::Array(_, _))) {
                    let n = a.array_to_vector()?;
                    self.push(n, "array_to_vector");
                }
            }
            16 | 17 => {
                if let Some(t) = self.of(|t| matches!(t, Type::Tuple(_))) {
                    if let Type::Tuple(es) = t.get_type()? {
                        if !es.is_empty() {
                            let n = t.tuple_get(self.rng.below(es.len() as u64))?;
                            self.push(n, "tuple_get");
                        }
                    }
                }
            }
            18 => {
                if let Some(t) = self.of(|t| matches!(t, Type::NamedTuple(_))) {
                    if let Type::NamedTuple(es) = t.get_type()? {
                        let (name, _) = self.rng.pick(&es).clone();
                        let n = t.named_tuple_get(name)?;
                        self.push(n, "named_tuple_get");
                    }
                }
            }
            19 | 20 | 21 => {
                if let Some(v) = self.of(|t| matches!(t, Type::Vector(l, _) if *l > 0)) {
                    let len = if let Type::Vector(l, _) = v.get_type()? { l } else { 0 };
                    // index: a constant in range, or (length ≥ 2) an UINT64 input (inputs are 0/1)
                    let idx = if len >= 2 && self.rng.chance(1, 5) {
                        let c: Vec<Node> = self.nodes.iter().filter(|n| n.get_operation().is_input() && n.get_type().unwrap() == scalar_type(UINT64)).cloned().collect();
                        if c.is_empty() {
                            g.input(scalar_type(UINT64))?
                        } else {
                            self.rng.pick(&c).clone()
                        }
                    } else {
                        g.constant(scalar_type(UINT64), Value::from_scalar(self.rng.below(len), UINT64)?)?
                    };
                    let n = v.vector_get(idx)?;
                    self.push(n, "vector_get");
                }
            }
            22 => {
                if let Some(a) = self.of(Self::is_arith) {
                    let n = a.a2b()?;
                    self.push(n, "a2b");
                }
            }
            23 => {
                if let Some(b) = self.of(|t| matches!(t, Type::Array(s, st) if *st == BIT && [8, 32, 64].contains(s.last().unwrap()))) {
                    let w = if let Type::Array(s, _) = b.get_type()? { *s.last().unwrap() } else { 0 };
                    let st = match (w, self.rng.below(2)) {
                        (8, 0) => UINT8,
                        (8, _) => INT8,
                        (32, 0) => INT32,
                        (32, _) => UINT32,
                        (64, 0) => UINT64,
                        _ => INT64,
                    };
                    let n = b.b2a(st)?;
                    self.push(n, "b2a");
                }
            }
            24 => {
                let a = self.any();
                let n = a.nop()?;
                n.add_annotation(NodeAnnotation::Send(self.rng.below(3), self.rng.below(3)))?;
                self.push(n, "nop-send");
            }
            25 => {
                // an annotation on an arbitrary non-constant node (getter, constructor, arithmetic …)
                let c: Vec<Node> = self.nodes.iter().filter(|n| !matches!(n.get_operation(), Operation::Constant(_, _))).cloned().collect();
                if !c.is_empty() {
                    let n = self.rng.pick(&c).clone();
                    n.add_annotation(NodeAnnotation::Send(self.rng.below(2), 1 + self.rng.below(2)))?;
                    self.feats.push("annotated-node");
                }
            }
            26 => {
                if self.rng.chance(2, 3) {
                    let t = self.rng.pick(&Self::arith_types()).clone();
                    let n = g.random(t)?;
                    self.push(n, "random");
                } else {
                    // randomising permutation helpers, twice on the same constant table: each evaluation
                    // of each node must draw its own completion (never merged, never folded)
                    let mut table = vec![u64::MAX; 16];
                    table[1] = 2;
                    table[6] = 0;
                    table[7] = 3;
                    table[12] = 1;
                    match self.rng.below(3) {
                        0 => {
                            let src = g.constant(array_type(vec![16], UINT64), Value::from_flattened_array(&table, UINT64)?)?;
                            self.nodes.push(src.clone());
                            let a = src.cuckoo_to_permutation()?;
                            self.push(a, "cuckoo-to-permutation");
                            let b = src.cuckoo_to_permutation()?;
                            self.push(b, "cuckoo-to-permutation");
                        }
                        1 => {
                            let smap: Vec<u64> = vec![1, 4, 4, 5, 7, 2, 4, 1];
                            let src = g.constant(array_type(vec![8], UINT64), Value::from_flattened_array(&smap, UINT64)?)?;
                            self.nodes.push(src.clone());
                            let a = src.decompose_switching_map(16)?.tuple_get(0)?;
                            self.push(a, "decompose-switching-map");
                            let b = src.decompose_switching_map(16)?.tuple_get(0)?;
                            self.push(b, "decompose-switching-map");
                        }
                        _ => {
                            let a = g.random_permutation(4)?;
                            self.push(a, "random-permutation");
                            let b = g.random_permutation(4)?;
                            self.push(b, "random-permutation");
                        }
                    }
                }
            }
            27 => {
                let key = match self.rng.below(3) {
                    0 => g.random(key_type())?,
                    1 => g.input(key_type())?,
                    _ => {
                        let bits: Vec<u8> = (0..128).map(|i| ((i / 7) % 2) as u8).collect();
                        g.constant(key_type(), Value::from_flattened_array(&bits, BIT)?)?
                    }
                };
                self.nodes.push(key.clone());
                let t = self.rng.pick(&Self::arith_types()).clone();
                let n = if self.rng.chance(1, 4) { key.permutation_from_prf(self.rng.below(2), 3)? } else { key.prf(self.rng.below(2), t)? };
                self.push(n.clone(), "prf");
                if self.rng.chance(1, 3) {
                    let n2 = g.add_node(vec![key], vec![], n.get_operation())?;
                    self.push(n2, "prf-same-key-and-counter");
                }
            }
            28 => {
                let t = self.rng.pick(&Self::arith_types()).clone();
                let n = if self.rng.chance(1, 2) { g.zeros(t)? } else { g.ones(t)? };
                self.push(n, "zeros-ones");
            }
            _ => {
                // other operations: Get with one index (same op as the meta pass creates), Sum, VectorToArray
                match self.rng.below(3) {
                    0 => {
                        if let Some(a) = self.of(|t| matches!(t, Type::Array(_, _))) {
                            let d0 = if let Type::Array(s, _) = a.get_type()? { s[0] } else { 1 };
                            let n = a.get(vec![self.rng.below(d0)])?;
                            self.push(n, "get");
                        }
                    }
                    1 => {
                        if let Some(a) = self.of(|t| matches!(t, Type::Array(_, st) if *st != BIT)) {
                            let n = a.sum(vec![0])?;
                            self.push(n, "sum");
                        }
                    }
                    _ => {
                        if let Some(v) = self.of(|t| matches!(t, Type::Vector(l, e) if *l > 0 && (e.is_array() || e.is_scalar()))) {
                            let n = v.vector_to_array()?;
                            self.push(n, "vector_to_array");
                        }
                    }
                }
            }
        }
        Ok(())
    }
}

/// random inlined single-graph context
fn gen_context(rng: &mut Rng, max_steps: u64) -> Result<(Context, Vec<&'static str>)> {
    let c = create_context()?;
    let g = c.create_graph()?;
    let mut gen = Gen { rng, g: g.clone(), nodes: vec![], feats: vec![], names: 0 };
    let first = g.input(array_type(vec![2], UINT64))?;
    if gen.rng.chance(1, 2) {
        first.set_name("x")?;
    }
    gen.nodes.push(first);
    let steps = 4 + gen.rng.below(max_steps);
    for _ in 0..steps {
        gen.step()?;
    }
    // output: one node, or a tuple of a few late nodes
    let out = if gen.rng.chance(1, 2) {
        let k = 2 + gen.rng.below(3);
        let es: Vec<Node> = (0..k).map(|_| gen.any()).collect();
        g.create_tuple(es)?
    } else {
        gen.any()
    };
    out.set_as_output()?;
    g.finalize()?;
    c.set_main_graph(g)?;
    c.finalize()?;
    let feats = gen.feats.clone();
    Ok((c, feats))
}

fn describe(g: &Graph) -> String {
    let mut s = String::new();
    for n in g.get_nodes() {
        let deps: Vec<u64> = n.get_node_dependencies().iter().map(|d| d.get_id()).collect();
        let anns = n.get_annotations().unwrap_or_default();
        write!(s, "{}:{}{:?}", n.get_id(), trunc(&format!("{:?}", n.get_operation()), 60), deps).unwrap();
        if !anns.is_empty() {
            write!(s, "@{:?}", anns).unwrap();
        }
        if let Ok(Some(nm)) = n.get_name() {
            write!(s, "#{}", nm).unwrap();
        }
        s.push(' ');
    }
    write!(s, "out={}", g.get_output_node().map(|n| n.get_id()).unwrap_or(0)).unwrap();
    s
}

// ------------------------------------------------------------------------------------------------
// one case: all passes + pipeline on a context
// ------------------------------------------------------------------------------------------------

fn model_case(run: &mut Run, ix: &mut Interner, p: Pass, g: &Graph, res: &std::result::Result<Result<(Context, ContextMappings)>, String>, nontrivial: bool) {
    let (out, enc) = match dump_graph(ix, g) {
        Ok(x) => x,
        Err(_) => return,
    };
    let req = if p == Pass::Constants { format!("pass {} {} {} {}", p.name(), out, enc, oracle_table(ix, g)) } else { format!("pass {} {} {}", p.name(), out, enc) };
    let ans = match res {
        Ok(Ok((nc, m))) => {
            let ng = nc.get_main_graph().unwrap();
            let (o2, e2) = dump_graph(ix, &ng).unwrap();
            format!("{} {} {}", o2, e2, dump_mapping(g, m))
        }
        _ => "ERR".to_owned(),
    };
    run.case(req, ans, nontrivial);
}


fn do_pass(run: &mut Run, rng: &mut Rng, ix: &mut Interner, stream: &str, descr: &str, p: Pass, src: &Graph, expect_ok: bool) -> Option<Context> {
    let res = catch(|| run_pass(p, src));
    // non-trivial: the pass changed the number of nodes or re-routed a node (mapping not the identity)
    let changed = match &res {
        Ok(Ok((nc, m))) => nc.get_main_graph().map(|ng| ng.get_nodes().len() != src.get_nodes().len()).unwrap_or(false) || src.get_nodes().iter().any(|n| !m.contains_node(n) || m.get_node(n).get_id() != n.get_id()),
        _ => true,
    };
    model_case(run, ix, p, src, &res, changed);
    run.count(&format!("{}:{}:{}", stream, p.name(), if changed { "changed" } else { "same-size" }));
    match res {
        Ok(Ok((nc, m))) => {
            oracle(run, rng, p.name(), descr, src, &nc, &m, p != Pass::Dangling);
            Some(nc)
        }
        Ok(Err(e)) => {
            if expect_ok {
                run.oracle_fail(&format!("C06:error:{}", p.name()), format!("{} : {}", descr, trunc(&format!("{}", e), 200)));
            } else {
                run.count(&format!("{}:{}:err", stream, p.name()));
            }
            None
        }
        Err(pn) => {
            if expect_ok {
                run.oracle_fail(&format!("C06:panic:{}", p.name()), format!("{} : {}", descr, trunc(&pn, 200)));
            } else {
                run.count(&format!("{}:{}:panic", stream, p.name()));
            }
            None
        }
    }
}

fn check_context(run: &mut Run, rng: &mut Rng, stream: &str, c: &Context, expect_ok: bool) {
    let g = c.get_main_graph().unwrap();
    let descr = if g.get_nodes().len() <= 60 { describe(&g) } else { format!("{} nodes, {}", g.get_nodes().len(), trunc(&describe(&g), 400)) };
    let mut ix = Interner::default();
    let big = g.get_nodes().len() > 400;
    // each pass staged as in optimize_context, and (from the second on) also directly on the source graph
    let mut cur = g.clone();
    let mut keep = vec![c.clone()];
    for (idx, p) in [Pass::Constants, Pass::Meta, Pass::Duplicates, Pass::Dangling].into_iter().enumerate() {
        if idx > 0 && !big {
            if let Some(nc) = do_pass(run, rng, &mut ix, stream, &descr, p, &g, expect_ok) {
                keep.push(nc);
            }
        }
        match do_pass(run, rng, &mut ix, stream, &descr, p, &cur, expect_ok) {
            Some(nc) => {
                cur = nc.get_main_graph().unwrap();
                keep.push(nc);
            }
            None => break,
        }
    }
    // the pipeline
    let res = catch(|| optimize_context(c, SimpleEvaluator::new(None)?));
    let (out, enc) = dump_graph(&mut ix, &g).unwrap();
    let req = format!("pass optimize {} {} {}", out, enc, oracle_table(&mut ix, &g));
    match &res {
        Ok(Ok(mc)) => {
            let ng = mc.get_context().get_main_graph().unwrap();
            let (o2, e2) = dump_graph(&mut ix, &ng).unwrap();
            run.case(req, format!("{} {} {}", o2, e2, dump_mapping(&g, &mc.mappings)), ng.get_nodes().len() != g.get_nodes().len());
            oracle(run, rng, "optimize", &descr, &g, &mc.get_context(), &mc.mappings, false);
            run.count_n(&format!("{}:nodes-before", stream), g.get_nodes().len() as u64);
            run.count_n(&format!("{}:nodes-after", stream), ng.get_nodes().len() as u64);
        }
        Ok(Err(e)) => {
            run.case(req, "ERR".to_owned(), true);
            if expect_ok {
                run.oracle_fail("C06:error:optimize", format!("{} : {}", descr, trunc(&format!("{}", e), 200)));
            }
        }
        Err(pn) => {
            run.case(req, "ERR".to_owned(), true);
            if expect_ok {
                run.oracle_fail("C06:panic:optimize", format!("{} : {}", descr, trunc(pn, 200)));
            }
        }
    }
}

pub fn corr(run: &mut Run) {
    run.rule = "Streams: (random) generated inlined single-graph contexts (inputs incl. unused and named, equal constants, tuples / named tuples / \
                vectors / zip and their getters nested, array_to_vector + vector_get with constant and input index, A2B/B2A chains with equal and \
                different scalar types, duplicated sub-expressions, dangling nodes, NOPs and other nodes with Send annotations, Random and PRF nodes \
                with Random/Input/Constant keys, Zeros/Ones, named nodes); (compiled) the un-optimised output of prepare_for_mpc_evaluation for \
                generated programs; (malformed) annotated constants and an out-of-range constant index. Per context: every pass through the hook \
                (directly on the source graph and staged as in optimize_context) and optimize_context itself; the model must return the identical graph \
                and mapping; oracle = replayed evaluation of every mapped node, input interface, Send markers, closedness, unique origin of \
                Random/PRF nodes, serde round trip. Non-trivial: the pass changed the number of nodes or its mapping is not the identity."
        .to_owned();
    // (1) random graphs
    let mut rng = run.rng("random-graphs");
    let n = run.tier.scale(1500, 12000);
    for it in 0..n {
        let max_steps = if it % 5 == 0 { 60 } else { 24 };
        let (c, feats) = match catch(|| gen_context(&mut rng, max_steps)) {
            Ok(Ok(x)) => x,
            Ok(Err(e)) => {
                run.count(&format!("random:gen-failed:{}", trunc(&format!("{}", e).lines().next().unwrap_or("").to_owned(), 50)));
                continue;
            }
            _ => {
                run.count("random:gen-failed:panic");
                continue;
            }
        };
        for f in &feats {
            run.count(&format!("feature:{}", f));
        }
        check_context(run, &mut rng, "random", &c, true);
    }
    // (2) compiler output before optimisation
    let mut rng = run.rng("compiled");
    let n = run.tier.scale(40, 240);
    for it in 0..n {
        let fam = match catch(|| match it % 6 { 0 => compare_family(&mut rng), 1 => conversion_family(&mut rng), 2 => gen_family(&mut rng, false), _ => arith_family(&mut rng, 5) }) {
            Ok(Ok(f)) => f,
            _ => continue,
        };
        let ins: Vec<IOStatus> = fam.in_types.iter().map(|_| gen_status(&mut rng)).collect();
        let outs = gen_outputs(&mut rng);
        let mode = rng.below(3) as u8;
        // as compile_context, stopping before its final optimize_context
        let c = match catch(|| -> Result<Context> {
            let c4 = prepare_context(fam.ctx.clone(), inline_cfg(mode), SimpleEvaluator::new(None)?, true)?.get_context();
            Ok(prepare_for_mpc_evaluation(&c4, vec![ins.clone()], vec![outs.clone()], inline_cfg(mode))?.get_context())
        }) {
            Ok(Ok(c)) => c,
            _ => {
                run.count("compiled:rejected");
                continue;
            }
        };
        let size = c.get_main_graph().map(|g| g.get_nodes().len()).unwrap_or(0);
        if c.get_graphs().len() != 1 || size > run.tier.scale(5000, 9000) {
            run.count(&format!("compiled:skipped-size:{}", fam.name));
            continue;
        }
        run.count(&format!("compiled:family:{}", fam.name));
        run.count_n(&format!("compiled:nodes:{}", fam.name), size as u64);
        check_context(run, &mut rng, "compiled", &c, true);
    }
    // (3) malformed: annotated constant → the constants pass and the pipeline return Err (model: ERR)
    let mut rng = run.rng("malformed");
    for _ in 0..run.tier.scale(10, 60) {
        let r = catch(|| -> Result<Context> {
            let c = create_context()?;
            let g = c.create_graph()?;
            let i = g.input(scalar_type(UINT64))?;
            let k = g.constant(scalar_type(UINT64), Value::from_scalar(rng.below(5), UINT64)?)?;
            k.add_annotation(NodeAnnotation::Send(0, 1))?;
            let mut o = i.add(k)?;
            for _ in 0..rng.below(4) {
                o = o.multiply(i.clone())?;
            }
            o.set_as_output()?;
            g.finalize()?;
            c.set_main_graph(g)?;
            c.finalize()?;
            Ok(c)
        });
        if let Ok(Ok(c)) = r {
            check_context(run, &mut rng, "malformed", &c, false);
        }
    }
    // (4) probe (outside the statement of C06): constant index out of range of a proxied vector
    let r = catch(|| -> Result<Context> {
        let c = create_context()?;
        let g = c.create_graph()?;
        let i = g.input(scalar_type(UINT64))?;
        let v = g.create_vector(scalar_type(UINT64), vec![i.clone(), i])?;
        let k = g.constant(scalar_type(UINT64), Value::from_scalar(5, UINT64)?)?;
        v.vector_get(k)?.set_as_output()?;
        g.finalize()?;
        c.set_main_graph(g)?;
        c.finalize()?;
        Ok(c)
    });
    if let Ok(Ok(c)) = r {
        let g = c.get_main_graph().unwrap();
        let res = catch(|| run_pass(Pass::Meta, &g));
        let mut ix = Interner::default();
        model_case(run, &mut ix, Pass::Meta, &g, &res, true);
        let what = match &res {
            Ok(Ok(_)) => "ok",
            Ok(Err(_)) => "error",
            Err(_) => "panic",
        };
        run.count(&format!("probe:vector_get-constant-index-out-of-range:{}", what));
        run.notes.push(format!("probe: meta pass on vector_get(create_vector(i,i), constant 5) ends with: {} (run-time error graph; outside C06)", what));
    }
    run.rule.push_str(" M: hand-built contexts with 2-3 independent graphs whose main graph is not the last: optimize_context must keep the main graph (value, input name).");
    stream_multi_graph(run);
}

/// M: contexts with several independent graphs whose MAIN graph is not the last one (hand-built or
/// deserialized contexts; the standard pipeline always emits the main graph last). optimize_context must
/// keep the interface: the optimised context's main graph is the image of the original main graph — same
/// value on the same inputs, same input names — and every other graph keeps its value too.
fn stream_multi_graph(run: &mut Run) {
    let mut rng = run.rng("multi-graph");
    let n = run.tier.scale(12, 100);
    for it in 0..n {
        let n_graphs = 2 + (it % 2) as usize;
        let main_pos = rng.below(n_graphs as u64) as usize;
        let built = catch(|| -> Result<(Context, Vec<i64>)> {
            let c = create_context()?;
            let mut ks = vec![];
            let mut gs = vec![];
            for gi in 0..n_graphs {
                let g = c.create_graph()?;
                let x = g.input(array_type(vec![3], INT64))?;
                x.set_name(&format!("x{}", gi))?;
                let k = 2 + gi as i64 * 3 + rng.below(3) as i64;
                ks.push(k);
                let kc = g.constant(scalar_type(INT64), Value::from_scalar(k, INT64)?)?;
                let kc2 = g.constant(scalar_type(INT64), Value::from_scalar(k, INT64)?)?;
                // k*x + k  (with a duplicated constant and a dangling node for the passes to work on)
                let _dangling = x.add(x.clone())?;
                let o = x.multiply(kc)?.add(kc2)?;
                o.set_as_output()?;
                g.finalize()?;
                g.set_name(&format!("graph{}", gi))?;
                gs.push(g);
            }
            gs[main_pos].set_as_main()?;
            c.finalize()?;
            Ok((c, ks))
        });
        let (c, ks) = match built {
            Ok(Ok(x)) => x,
            _ => continue,
        };
        let descr = format!("multi-graph context: {} graphs computing k*x+k with k={:?}, main graph at position {}", n_graphs, ks, main_pos);
        run.oracle_case(&descr, true);
        run.count(&format!("multi-graph:main-{}", if main_pos + 1 == n_graphs { "last" } else { "not-last" }));
        let xs: Vec<i64> = (0..3).map(|_| rng.range(-50, 50)).collect();
        let input = Value::from_flattened_array(&xs, INT64).unwrap();
        let r = catch(|| -> Result<Option<String>> {
            let m = optimize_context(&c, SimpleEvaluator::new(None)?)?;
            let oc = m.get_context();
            let eval_main = |ctx: &Context| -> Result<Vec<i64>> {
                let mut e = SimpleEvaluator::new(None)?;
                e.preprocess(ctx)?;
                let v = e.evaluate_graph(ctx.get_main_graph()?, vec![input.clone()])?;
                v.to_flattened_array_i64(array_type(vec![3], INT64))
            };
            let want: Vec<i64> = xs.iter().map(|x| ks[main_pos] * x + ks[main_pos]).collect();
            let before = eval_main(&c)?;
            let after = eval_main(&oc)?;
            if before != want {
                return Ok(Some(format!("generator: original main graph gives {:?}, expected {:?}", before, want)));
            }
            if after != want {
                return Ok(Some(format!("the optimised context's main graph gives {:?} on x={:?}, the original main graph gives {:?}", after, xs, want)));
            }
            let in_name = oc.get_main_graph()?.get_nodes().iter().find(|n| n.get_operation().is_input()).and_then(|n| n.get_name().ok().flatten());
            if in_name != Some(format!("x{}", main_pos)) {
                return Ok(Some(format!("the input of the optimised main graph is named {:?}, expected x{}", in_name, main_pos)));
            }
            if oc.get_graphs().len() != n_graphs {
                return Ok(Some(format!("the optimised context has {} graphs, expected {}", oc.get_graphs().len(), n_graphs)));
            }
            Ok(None)
        });
        match r {
            Ok(Ok(None)) => {}
            Ok(Ok(Some(why))) => run.oracle_fail("C06:multi-graph:interface", format!("{} : {}", descr, why)),
            Ok(Err(e)) => run.oracle_fail("C06:multi-graph:error", format!("{} : {}", descr, trunc(&format!("{}", e), 200))),
            Err(p) => run.oracle_fail("C06:panic:multi-graph", format!("{} : {}", descr, p)),
        }
    }
}
