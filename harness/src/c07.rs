//! C07 — inlining preserves Call/Iterate semantics in every mode.
//! Stream S (structural, model + oracle): the private prefix-sum / log-depth-sum functions of
//! `inline/data_structures.rs` and `pick_prefix_sum_algorithm` run through the `verif_hooks` with the
//! FREE MONOID (elements = lists of indices, combine = concatenation, every combine call recorded);
//! the Lean model must return the same prefixes and the same call trace.  Oracle: element `i` of the
//! result is `[0..=i]`, computed natively; a second oracle run uses 2x2 integer matrices (non-commutative).
//! Stream T (strategy level, model + oracle): concrete body families inlined+evaluated by the code vs
//! iterAssoc / iterOneBit / iterSmall of the model.
//! Stream TB (batched states): `batched` below — iterSmallB / iterOneBitB (array-level model of exponential_inliner.rs).
//! Stream F (fresh randomness, node structure): c07_fresh.rs.
//! Stream E (end-to-end, oracle only): module `e2e` below.
use crate::util::*;
use ciphercore_base::data_types::{array_type, scalar_type, tuple_type, vector_type, Type, BIT, UINT64};
use ciphercore_base::data_values::Value;
use ciphercore_base::errors::Result;
use ciphercore_base::evaluators::random_evaluate;
use ciphercore_base::graphs::{create_context, Context, Graph, GraphAnnotation, Node, SliceElement};
use ciphercore_base::inline::inline_ops::{inline_operations, DepthOptimizationLevel, InlineConfig, InlineMode};
use ciphercore_base::inline::verif_hooks::{log_depth_sum_hook, prefix_sums};
use std::cell::RefCell;

type Elem = Vec<u32>;

/// maximal ascending runs `lo-hi` joined by `.`; the empty element prints as `e`
fn show_elem(e: &Elem) -> String {
    if e.is_empty() {
        return "e".to_owned();
    }
    let mut runs: Vec<(u32, u32)> = vec![];
    for &x in e {
        match runs.last_mut() {
            Some((_, hi)) if *hi + 1 == x => *hi = x,
            _ => runs.push((x, x)),
        }
    }
    runs.iter().map(|(a, b)| format!("{}-{}", a, b)).collect::<Vec<_>>().join(".")
}

fn show_elems(es: &[Elem]) -> String {
    if es.is_empty() {
        "_".to_owned()
    } else {
        es.iter().map(show_elem).collect::<Vec<_>>().join(",")
    }
}

fn show_trace(t: &[(Elem, Elem)]) -> String {
    if t.is_empty() {
        "_".to_owned()
    } else {
        t.iter().map(|(a, b)| format!("{}+{}", show_elem(a), show_elem(b))).collect::<Vec<_>>().join(",")
    }
}

const WHICH: [&str; 5] = ["binary_ascent", "sqrt_trick", "segment_tree", "picked_default", "picked_extreme"];

type M2 = [u64; 4];
fn m2_mul(a: M2, b: M2) -> M2 {
    let m = |x: u64, y: u64| x.wrapping_mul(y);
    [
        m(a[0], b[0]).wrapping_add(m(a[1], b[2])),
        m(a[0], b[1]).wrapping_add(m(a[1], b[3])),
        m(a[2], b[0]).wrapping_add(m(a[3], b[2])),
        m(a[2], b[1]).wrapping_add(m(a[3], b[3])),
    ]
}

fn structural(run: &mut Run) {
    let max_n = run.tier.scale(64, 200);
    for n in 0..=max_n {
        let items: Vec<Elem> = (0..n as u32).map(|i| vec![i]).collect();
        for which in WHICH {
            let trace: RefCell<Vec<(Elem, Elem)>> = RefCell::new(vec![]);
            let r = catch(|| {
                let mut f = |a: Elem, b: Elem| -> Result<Elem> {
                    trace.borrow_mut().push((a.clone(), b.clone()));
                    let mut c = a;
                    c.extend(b);
                    Ok(c)
                };
                prefix_sums(which, &items, &mut f)
            });
            let req = format!("prefix {} {}", which, n);
            let bucket = match n {
                0 => "0",
                1 => "1",
                2..=14 => "2-14",
                15 => "15",
                16 => "16",
                17..=64 => "17-64",
                _ => "65+",
            };
            run.count(&format!("S:{}:n={}", which, bucket));
            match r {
                Err(p) => run.oracle_fail(&format!("C07:panic:{}", which), format!("{} panicked: {}", req, p)),
                Ok(Err(_)) => {
                    run.case(req.clone(), "ERR".into(), n >= 2);
                    // the prefix functions accept every length (0 gives the empty vector)
                    run.oracle_fail(&format!("C07:prefix:err:{}", which), format!("{} returned Err", req));
                }
                Ok(Ok(res)) => {
                    let t = trace.borrow();
                    run.case(req.clone(), format!("{}|{}", show_elems(&res), show_trace(&t)), n >= 2);
                    run.count_n(&format!("S:{}:combine_calls", which), t.len() as u64);
                    // oracle: position i holds 0..=i, in order (free monoid: order and multiplicity visible)
                    run.oracle_case(&req, n >= 2);
                    let ok = res.len() == n && res.iter().enumerate().all(|(i, e)| e.iter().copied().eq(0..=i as u32));
                    if !ok {
                        run.oracle_fail(&format!("C07:prefix:wrong:{}", which), format!("{} gives {}", req, show_elems(&res)));
                    }
                }
            }
            // second oracle: 2x2 matrices over Z/2^64 (associative, not commutative)
            let mut mrng = Rng::new(run.seed, &format!("C07/S-mat/{}", n));
            let mats: Vec<M2> = (0..n).map(|_| [mrng.below(5), mrng.below(5), mrng.below(5), mrng.below(5)]).collect();
            let r = catch(|| prefix_sums(which, &mats, &mut |a: M2, b: M2| -> Result<M2> { Ok(m2_mul(a, b)) }));
            run.oracle_case(&format!("prefix-mat {} {}", which, n), n >= 2);
            let mut want = vec![];
            let mut acc: Option<M2> = None;
            for m in &mats {
                acc = Some(match acc {
                    None => *m,
                    Some(a) => m2_mul(a, *m),
                });
                want.push(acc.unwrap());
            }
            match r {
                Ok(Ok(got)) if got == want => {}
                Ok(Ok(got)) => run.oracle_fail(
                    &format!("C07:prefix:wrong-mat:{}", which),
                    format!("prefix_sums {} on 2x2 matrices {:?} gives {:?} want {:?}", which, mats, got, want),
                ),
                Ok(Err(_)) => run.oracle_fail(&format!("C07:prefix:err:{}", which), format!("{} matrices n={} returned Err", which, n)),
                Err(p) => run.oracle_fail(&format!("C07:panic:{}", which), format!("{} matrices n={} panicked: {}", which, n, p)),
            }
        }
        // log_depth_sum
        let trace: RefCell<Vec<(Elem, Elem)>> = RefCell::new(vec![]);
        let r = catch(|| {
            let mut f = |a: Elem, b: Elem| -> Result<Elem> {
                trace.borrow_mut().push((a.clone(), b.clone()));
                let mut c = a;
                c.extend(b);
                Ok(c)
            };
            log_depth_sum_hook(&items, &mut f)
        });
        let req = format!("logsum {}", n);
        run.count(if n == 0 { "S:logsum:n=0" } else { "S:logsum:n>0" });
        match r {
            Err(p) => run.oracle_fail("C07:panic:log_depth_sum", format!("{} panicked: {}", req, p)),
            Ok(Err(_)) => {
                run.case(req.clone(), "ERR".into(), false);
                if n != 0 {
                    run.oracle_fail("C07:logsum:err", format!("{} returned Err", req));
                }
            }
            Ok(Ok(e)) => {
                let t = trace.borrow();
                run.case(req.clone(), format!("{}|{}", show_elem(&e), show_trace(&t)), n >= 2);
                run.oracle_case(&req, n >= 2);
                if n == 0 || !e.iter().copied().eq(0..n as u32) {
                    run.oracle_fail("C07:logsum:wrong", format!("{} gives {}", req, show_elem(&e)));
                }
                if t.len() + 1 != n {
                    run.oracle_fail("C07:logsum:calls", format!("{} used {} combine calls, want n-1", req, t.len()));
                }
            }
        }
    }
}

// ---------------------------------------------------------------------------------------------
// Stream T (strategy level, model + oracle): concrete body families built as graphs, inlined with
// DepthOptimized(level), evaluated; the Lean model runs iterAssoc / iterOneBit / iterSmall on the
// same data; the native oracle is the plain left-to-right loop.

fn mode_of(level: char) -> InlineMode {
    InlineMode::DepthOptimized(if level == 'd' { DepthOptimizationLevel::Default } else { DepthOptimizationLevel::Extreme })
}

/// context: main graph = Iterate(body, state, inputs) with two inputs (state, vector)
fn iterate_context(state_t: Type, elem_t: Type, n: u64, body: impl FnOnce(&Graph, Node, Node) -> Result<(Node, Node)>, ann: GraphAnnotation) -> Result<Context> {
    let c = create_context()?;
    let g0 = c.create_graph()?;
    let st = g0.input(state_t.clone())?;
    let inp = g0.input(elem_t.clone())?;
    let (new_state, out) = body(&g0, st, inp)?;
    g0.set_output_node(g0.create_tuple(vec![new_state, out])?)?;
    g0.add_annotation(ann)?;
    g0.finalize()?;
    let g1 = c.create_graph()?;
    let s = g1.input(state_t)?;
    let v = g1.input(vector_type(n, elem_t))?;
    let it = g1.iterate(g0, s, v)?;
    g1.set_output_node(it)?;
    g1.finalize()?;
    c.set_main_graph(g1)?;
    c.finalize()?;
    Ok(c)
}

/// inline with the level, evaluate the inlined main graph; returns (final state, outputs)
fn inline_and_run(c: &Context, level: char, inputs: Vec<Value>) -> Result<(Value, Vec<Value>)> {
    let cfg = InlineConfig { default_mode: mode_of(level), ..Default::default() };
    let ic = inline_operations(c, cfg)?.get_context();
    let r = random_evaluate(ic.get_main_graph()?, inputs)?.to_vector()?;
    Ok((r[0].clone(), r[1].to_vector()?))
}

fn show_outs(empty_out: bool, n: usize, outs: Vec<String>) -> String {
    if empty_out {
        format!("u{}", n)
    } else if outs.is_empty() {
        "_".to_owned()
    } else {
        outs.join(",")
    }
}

fn show_m2(m: &[u64]) -> String {
    format!("{}.{}.{}.{}", m[0], m[1], m[2], m[3])
}

fn gen_len(rng: &mut Rng) -> usize {
    match rng.below(10) {
        0 => *rng.pick(&[0usize, 1, 2]),
        1 | 2 => *rng.pick(&[14usize, 15, 16, 17, 18]),
        _ => rng.below(41) as usize,
    }
}

fn strategies(run: &mut Run) {
    // ---- associative: 2x2 matrices over Z/2^64; body = (state·input, state+input | ())
    let mut rng = run.rng("T-assoc");
    let t22 = array_type(vec![2, 2], UINT64);
    for it in 0..run.tier.scale(60, 400) {
        let n = if it <= 40 { it } else { gen_len(&mut rng) };
        let level = if rng.chance(1, 2) { 'd' } else { 'e' };
        let empty_out = rng.chance(1, 3);
        let gm = |rng: &mut Rng| -> Vec<u64> {
            (0..4).map(|_| if rng.chance(1, 8) { rng.next() } else { rng.below(4) }).collect()
        };
        let s0 = gm(&mut rng);
        let xs: Vec<Vec<u64>> = (0..n).map(|_| gm(&mut rng)).collect();
        let req = format!(
            "assoc {} {} {} {}",
            level,
            empty_out as u8,
            show_m2(&s0),
            if xs.is_empty() { "_".to_owned() } else { xs.iter().map(|m| show_m2(m)).collect::<Vec<_>>().join(",") }
        );
        run.count(&format!("T:assoc:{}:{}", level, if empty_out { "emptyout" } else { "out" }));
        let r = catch(|| -> Result<(Vec<u64>, Vec<Vec<u64>>)> {
            let c = iterate_context(
                t22.clone(),
                t22.clone(),
                n as u64,
                |g, st, inp| {
                    let new_state = st.matmul(inp.clone())?;
                    let out = if empty_out { g.create_tuple(vec![])? } else { st.add(inp)? };
                    Ok((new_state, out))
                },
                GraphAnnotation::AssociativeOperation,
            )?;
            let inputs = vec![
                Value::from_flattened_array(&s0, UINT64)?,
                Value::from_vector(xs.iter().map(|m| Value::from_flattened_array(m, UINT64)).collect::<Result<Vec<_>>>()?),
            ];
            let (fin, outs) = inline_and_run(&c, level, inputs)?;
            let fin = fin.to_flattened_array_u64(t22.clone())?;
            let outs = if empty_out {
                vec![]
            } else {
                outs.iter().map(|o| o.to_flattened_array_u64(t22.clone())).collect::<Result<Vec<_>>>()?
            };
            Ok((fin, outs))
        });
        match r {
            Err(p) => run.oracle_fail("C07:panic:strategy:assoc", format!("{} panicked: {}", req, p)),
            Ok(Err(e)) => {
                run.case(req.clone(), "ERR".into(), n >= 2);
                run.oracle_fail("C07:strategy:err:assoc", format!("{} returned Err {:?}", req, e));
            }
            Ok(Ok((fin, outs))) => {
                run.case(req.clone(), format!("{}|{}", show_m2(&fin), show_outs(empty_out, n, outs.iter().map(|m| show_m2(m)).collect())), n >= 2);
                // native oracle: the reference loop
                run.oracle_case(&req, n >= 2);
                let mut st: M2 = [s0[0], s0[1], s0[2], s0[3]];
                let mut want_outs = vec![];
                for x in &xs {
                    let xm: M2 = [x[0], x[1], x[2], x[3]];
                    want_outs.push((0..4).map(|k| st[k].wrapping_add(xm[k])).collect::<Vec<u64>>());
                    st = m2_mul(st, xm);
                }
                if fin != st.to_vec() || (!empty_out && outs != want_outs) {
                    run.oracle_fail(&format!("C07:strategy:assoc:{}", level), format!("{} gives {:?} {:?}, reference loop {:?} {:?}", req, fin, outs, st, want_outs));
                }
            }
        }
    }
    // ---- one-bit: scalar BIT state, new = a·s·x + b·s + c·x + d (tt = 8a+4b+2c+d), output s+x | ()
    let mut rng = run.rng("T-onebit");
    let bit = scalar_type(BIT);
    for it in 0..run.tier.scale(120, 800) {
        let n = if it <= 40 { it } else { gen_len(&mut rng) };
        let level = if rng.chance(1, 2) { 'd' } else { 'e' };
        let empty_out = rng.chance(1, 3);
        let tt = if it < 16 * 3 { (it % 16) as u64 } else { rng.below(16) };
        let s0 = rng.below(2);
        let xs: Vec<u64> = (0..n).map(|_| rng.below(2)).collect();
        let req = format!("onebit {} {} {} {} {}", level, empty_out as u8, tt, s0, show_list(&xs));
        run.count(&format!("T:onebit:{}:tt{}", level, tt));
        let r = catch(|| -> Result<(u64, Vec<u64>)> {
            let c = iterate_context(
                bit.clone(),
                bit.clone(),
                n as u64,
                |g, st, inp| {
                    let mut acc = if tt & 1 == 1 { g.ones(scalar_type(BIT))? } else { g.zeros(scalar_type(BIT))? };
                    if tt & 8 != 0 {
                        acc = acc.add(st.multiply(inp.clone())?)?;
                    }
                    if tt & 4 != 0 {
                        acc = acc.add(st.clone())?;
                    }
                    if tt & 2 != 0 {
                        acc = acc.add(inp.clone())?;
                    }
                    let out = if empty_out { g.create_tuple(vec![])? } else { st.add(inp)? };
                    Ok((acc, out))
                },
                GraphAnnotation::OneBitState,
            )?;
            let inputs = vec![
                Value::from_scalar(s0, BIT)?,
                Value::from_vector(xs.iter().map(|x| Value::from_scalar(*x, BIT)).collect::<Result<Vec<_>>>()?),
            ];
            let (fin, outs) = inline_and_run(&c, level, inputs)?;
            let outs = if empty_out { vec![] } else { outs.iter().map(|o| o.to_u64(BIT)).collect::<Result<Vec<_>>>()? };
            Ok((fin.to_u64(BIT)?, outs))
        });
        match r {
            Err(p) => run.oracle_fail("C07:panic:strategy:onebit", format!("{} panicked: {}", req, p)),
            Ok(Err(e)) => {
                run.case(req.clone(), "ERR".into(), n >= 2);
                run.oracle_fail("C07:strategy:err:onebit", format!("{} returned Err {:?}", req, e));
            }
            Ok(Ok((fin, outs))) => {
                run.case(req.clone(), format!("{}|{}", fin, show_outs(empty_out, n, outs.iter().map(|o| o.to_string()).collect())), n >= 2);
                run.oracle_case(&req, n >= 2);
                let mut st = s0;
                let mut want = vec![];
                for &x in &xs {
                    want.push(st ^ x);
                    st = (((tt >> 3) & st & x) ^ ((tt >> 2) & st) ^ ((tt >> 1) & x) ^ tt) & 1;
                }
                if fin != st || (!empty_out && outs != want) {
                    run.oracle_fail(&format!("C07:strategy:onebit:{}", level), format!("{} gives {} {:?}, reference loop {} {:?}", req, fin, outs, st, want));
                }
            }
        }
    }
    // ---- small state: BIT array [K], input one bit; fam 0 counter, fam 1 x ? all-ones : rotl; output = old state | ()
    // (the model evaluates matrices as nested closures: keep K and n tiny; larger sizes are in stream E)
    let mut rng = run.rng("T-small");
    for it in 0..run.tier.scale(60, 300) {
        let k = 1 + (it % 3) as u64;
        let max_n = match k {
            1 => 7,
            2 => 6,
            _ => 4,
        };
        let n = rng.below(max_n + 1) as usize;
        let level = if rng.chance(1, 2) { 'd' } else { 'e' };
        let empty_out = rng.chance(1, 3);
        let fam = rng.below(2);
        let s0 = rng.below(1 << k);
        let xs: Vec<u64> = (0..n).map(|_| rng.below(2)).collect();
        let req = format!("small {} {} {} {} {} {}", level, empty_out as u8, k, fam, s0, show_list(&xs));
        run.count(&format!("T:small:{}:K{}:fam{}", level, k, fam));
        let tk = array_type(vec![k], BIT);
        let bits_of = |v: u64| -> Vec<u64> { (0..k).map(|i| (v >> i) & 1).collect() };
        let num_of = |b: &[u64]| -> u64 { b.iter().enumerate().map(|(i, x)| x << i).sum() };
        let r = catch(|| -> Result<(u64, Vec<u64>)> {
            let c = iterate_context(
                tk.clone(),
                bit.clone(),
                n as u64,
                |g, st, inp| {
                    let bits: Vec<Node> = (0..k).map(|i| st.get_slice(vec![SliceElement::SingleIndex(i as i64)])).collect::<Result<Vec<_>>>()?;
                    let mut new_bits = vec![];
                    if fam == 0 {
                        let mut carry = inp.clone();
                        for b in &bits {
                            new_bits.push(b.add(carry.clone())?);
                            carry = b.multiply(carry)?;
                        }
                    } else {
                        let notx = inp.add(g.ones(scalar_type(BIT))?)?;
                        for i in 0..k as usize {
                            let prev = bits[(i + k as usize - 1) % k as usize].clone();
                            new_bits.push(inp.add(notx.multiply(prev)?)?);
                        }
                    }
                    let new_state = g.create_vector(scalar_type(BIT), new_bits)?.vector_to_array()?;
                    let out = if empty_out { g.create_tuple(vec![])? } else { st.clone() };
                    Ok((new_state, out))
                },
                GraphAnnotation::SmallState,
            )?;
            let inputs = vec![
                Value::from_flattened_array(&bits_of(s0), BIT)?,
                Value::from_vector(xs.iter().map(|x| Value::from_scalar(*x, BIT)).collect::<Result<Vec<_>>>()?),
            ];
            let (fin, outs) = inline_and_run(&c, level, inputs)?;
            let outs = if empty_out {
                vec![]
            } else {
                outs.iter().map(|o| Ok(num_of(&o.to_flattened_array_u64(tk.clone())?))).collect::<Result<Vec<_>>>()?
            };
            Ok((num_of(&fin.to_flattened_array_u64(tk.clone())?), outs))
        });
        match r {
            Err(p) => run.oracle_fail("C07:panic:strategy:small", format!("{} panicked: {}", req, p)),
            Ok(Err(e)) => {
                run.case(req.clone(), "ERR".into(), n >= 2);
                run.oracle_fail("C07:strategy:err:small", format!("{} returned Err {:?}", req, e));
            }
            Ok(Ok((fin, outs))) => {
                run.case(req.clone(), format!("{}|{}", fin, show_outs(empty_out, n, outs.iter().map(|o| o.to_string()).collect())), n >= 2);
                run.oracle_case(&req, n >= 2);
                let mut st = s0;
                let mut want = vec![];
                let m = (1u64 << k) - 1;
                for &x in &xs {
                    want.push(st);
                    st = if fam == 0 {
                        (st + x) & m
                    } else if x == 1 {
                        m
                    } else {
                        ((st << 1) & m) | (st >> (k - 1))
                    };
                }
                if fin != st || (!empty_out && outs != want) {
                    run.oracle_fail(&format!("C07:strategy:small:{}", level), format!("{} gives {} {:?}, reference loop {} {:?}", req, fin, outs, st, want));
                }
            }
        }
    }
    let _ = tuple_type(vec![]);
}

// ---------------------------------------------------------------------------------------------
// Stream TB (strategy level, batched states, model + oracle): the state is a BIT array of shape
// B ++ [K] (small state) or of any shape (one-bit state); every batch row / position gets its own
// input bit per step (the input element is a BIT array of shape B), so a layout mix-up between rows
// or axes changes the result.  The Lean model runs iterSmallB / iterOneBitB (array-level model of
// exponential_inliner.rs); the native oracle is the row-wise reference loop.
fn show_bits(b: &[u64]) -> String {
    if b.is_empty() {
        "-".to_owned()
    } else {
        b.iter().map(|x| x.to_string()).collect::<Vec<_>>().join(".")
    }
}

fn show_dims(b: &[u64]) -> String {
    if b.is_empty() {
        "_".to_owned()
    } else {
        b.iter().map(|x| x.to_string()).collect::<Vec<_>>().join(".")
    }
}

fn bit_type(shape: &[u64]) -> Type {
    if shape.is_empty() {
        scalar_type(BIT)
    } else {
        array_type(shape.to_vec(), BIT)
    }
}

fn batched(run: &mut Run) {
    let batch_shapes: Vec<Vec<u64>> = vec![vec![], vec![1], vec![2], vec![3], vec![2, 1], vec![1, 2], vec![2, 2], vec![3, 2], vec![2, 3], vec![2, 1, 2]];
    // ---- small state, shape B ++ [K]
    let mut rng = run.rng("TB-small");
    for it in 0..run.tier.scale(70, 400) {
        let k = 1 + (it % 3) as u64 + if it % 17 == 16 { 1 } else { 0 };
        let b = batch_shapes[(it / 3) % batch_shapes.len()].clone();
        let rows: u64 = b.iter().product();
        let max_n = match k {
            1 => 7,
            2 => 6,
            3 => 4,
            _ => 3,
        };
        let n = if it % 11 == 10 { rng.below(2) } else { 2 + rng.below(max_n - 1) } as usize;
        let level = if rng.chance(1, 2) { 'd' } else { 'e' };
        let empty_out = rng.chance(1, 3);
        let fam = rng.below(2);
        let m = (1u64 << k) - 1;
        let s_rows: Vec<u64> = (0..rows).map(|_| rng.below(1 << k)).collect();
        let s_bits: Vec<u64> = s_rows.iter().flat_map(|v| (0..k).map(move |i| (v >> i) & 1)).collect();
        // one input per step: bit r = input of row r
        let xs: Vec<u64> = (0..n).map(|_| rng.below(1 << rows)).collect();
        let req = format!("smallb {} {} {} {} {} {} {}", level, empty_out as u8, k, show_dims(&b), fam, show_list(&s_bits), show_list(&xs));
        run.count(&format!("TB:small:{}:K{}:rank{}:fam{}", level, k, b.len(), fam));
        let mut shape = b.clone();
        shape.push(k);
        let tk = array_type(shape.clone(), BIT);
        let tin = bit_type(&b);
        let r = catch(|| -> Result<(Vec<u64>, Vec<Vec<u64>>)> {
            let rank = b.len();
            let c = iterate_context(
                tk.clone(),
                tin.clone(),
                n as u64,
                |g, st, inp| {
                    let bits: Vec<Node> = (0..k)
                        .map(|i| st.get_slice(vec![SliceElement::Ellipsis, SliceElement::SingleIndex(i as i64)]))
                        .collect::<Result<Vec<_>>>()?;
                    let mut new_bits = vec![];
                    if fam == 0 {
                        let mut carry = inp.clone();
                        for bt in &bits {
                            new_bits.push(bt.add(carry.clone())?);
                            carry = bt.multiply(carry)?;
                        }
                    } else {
                        let notx = inp.add(g.ones(scalar_type(BIT))?)?;
                        for i in 0..k as usize {
                            let prev = bits[(i + k as usize - 1) % k as usize].clone();
                            new_bits.push(inp.add(notx.multiply(prev)?)?);
                        }
                    }
                    // [K] ++ B  ->  B ++ [K]
                    let stacked = g.create_vector(tin.clone(), new_bits)?.vector_to_array()?;
                    let new_state = if rank == 0 {
                        stacked
                    } else {
                        let mut perm: Vec<u64> = (1..=rank as u64).collect();
                        perm.push(0);
                        stacked.permute_axes(perm)?
                    };
                    let out = if empty_out { g.create_tuple(vec![])? } else { st.clone() };
                    Ok((new_state, out))
                },
                GraphAnnotation::SmallState,
            )?;
            let inputs = vec![
                Value::from_flattened_array(&s_bits, BIT)?,
                Value::from_vector(
                    xs.iter()
                        .map(|x| {
                            let bits: Vec<u64> = (0..rows).map(|r| (x >> r) & 1).collect();
                            if b.is_empty() {
                                Value::from_scalar(bits[0], BIT)
                            } else {
                                Value::from_flattened_array(&bits, BIT)
                            }
                        })
                        .collect::<Result<Vec<_>>>()?,
                ),
            ];
            let (fin, outs) = inline_and_run(&c, level, inputs)?;
            let outs = if empty_out { vec![] } else { outs.iter().map(|o| o.to_flattened_array_u64(tk.clone())).collect::<Result<Vec<_>>>()? };
            Ok((fin.to_flattened_array_u64(tk.clone())?, outs))
        });
        let nontrivial = n >= 2 && rows >= 2;
        match r {
            Err(p) => run.oracle_fail("C07:panic:strategy:smallb", format!("{} panicked: {}", req, p)),
            Ok(Err(e)) => {
                run.case(req.clone(), "ERR".into(), nontrivial);
                run.oracle_fail("C07:strategy:err:smallb", format!("{} returned Err {:?}", req, e));
            }
            Ok(Ok((fin, outs))) => {
                run.case(req.clone(), format!("{}|{}", show_bits(&fin), show_outs(empty_out, n, outs.iter().map(|o| show_bits(o)).collect())), nontrivial);
                run.oracle_case(&req, nontrivial);
                let mut st = s_rows.clone();
                let mut want: Vec<Vec<u64>> = vec![];
                let to_bits = |st: &[u64]| -> Vec<u64> { st.iter().flat_map(|v| (0..k).map(move |i| (v >> i) & 1)).collect() };
                for &x in &xs {
                    want.push(to_bits(&st));
                    for (r, v) in st.iter_mut().enumerate() {
                        let xr = (x >> r) & 1;
                        *v = if fam == 0 {
                            (*v + xr) & m
                        } else if xr == 1 {
                            m
                        } else {
                            ((*v << 1) & m) | (*v >> (k - 1))
                        };
                    }
                }
                if fin != to_bits(&st) || (!empty_out && outs != want) {
                    run.oracle_fail(&format!("C07:strategy:smallb:{}", level), format!("{} gives {:?} {:?}, row-wise reference loop {:?} {:?}", req, fin, outs, to_bits(&st), want));
                }
            }
        }
    }
    // ---- one-bit state of any shape: new = a·s·x + b·s + c·x + d elementwise, output s + x | ()
    let mut rng = run.rng("TB-onebit");
    for it in 0..run.tier.scale(50, 300) {
        let sh = batch_shapes[it % batch_shapes.len()].clone();
        let cells: u64 = sh.iter().product();
        let n = if it % 9 == 8 { rng.below(2) as usize } else { 2 + rng.below(if it % 5 == 0 { 18 } else { 6 }) as usize };
        let level = if rng.chance(1, 2) { 'd' } else { 'e' };
        let empty_out = rng.chance(1, 3);
        let tt = if it < 32 { (it % 16) as u64 } else { rng.below(16) };
        let s_bits: Vec<u64> = (0..cells).map(|_| rng.below(2)).collect();
        let xs: Vec<u64> = (0..n).map(|_| rng.below(1 << cells)).collect();
        let dims: Vec<u64> = if sh.is_empty() { vec![1] } else { sh.clone() };
        let req = format!("onebitb {} {} {} {} {} {}", level, empty_out as u8, show_dims(&dims), tt, show_list(&s_bits), show_list(&xs));
        run.count(&format!("TB:onebit:{}:rank{}", level, sh.len()));
        let t = bit_type(&sh);
        let val = |bits: &[u64]| -> Result<Value> {
            if sh.is_empty() {
                Value::from_scalar(bits[0], BIT)
            } else {
                Value::from_flattened_array(bits, BIT)
            }
        };
        let r = catch(|| -> Result<(Vec<u64>, Vec<Vec<u64>>)> {
            let c = iterate_context(
                t.clone(),
                t.clone(),
                n as u64,
                |g, st, inp| {
                    // constant term broadcast to the state shape through the state (st + st = 0)
                    let zero = st.add(st.clone())?;
                    let mut acc = if tt & 1 == 1 { zero.add(g.ones(scalar_type(BIT))?)? } else { zero };
                    if tt & 8 != 0 {
                        acc = acc.add(st.multiply(inp.clone())?)?;
                    }
                    if tt & 4 != 0 {
                        acc = acc.add(st.clone())?;
                    }
                    if tt & 2 != 0 {
                        acc = acc.add(inp.clone())?;
                    }
                    let out = if empty_out { g.create_tuple(vec![])? } else { st.add(inp)? };
                    Ok((acc, out))
                },
                GraphAnnotation::OneBitState,
            )?;
            let inputs = vec![
                val(&s_bits)?,
                Value::from_vector(xs.iter().map(|x| val(&(0..cells).map(|r| (x >> r) & 1).collect::<Vec<u64>>())).collect::<Result<Vec<_>>>()?),
            ];
            let (fin, outs) = inline_and_run(&c, level, inputs)?;
            let flat = |v: &Value| -> Result<Vec<u64>> {
                if sh.is_empty() {
                    Ok(vec![v.to_u64(BIT)?])
                } else {
                    v.to_flattened_array_u64(t.clone())
                }
            };
            let outs = if empty_out { vec![] } else { outs.iter().map(|o| flat(o)).collect::<Result<Vec<_>>>()? };
            Ok((flat(&fin)?, outs))
        });
        let nontrivial = n >= 2 && cells >= 2;
        match r {
            Err(p) => run.oracle_fail("C07:panic:strategy:onebitb", format!("{} panicked: {}", req, p)),
            Ok(Err(e)) => {
                run.case(req.clone(), "ERR".into(), nontrivial);
                run.oracle_fail("C07:strategy:err:onebitb", format!("{} returned Err {:?}", req, e));
            }
            Ok(Ok((fin, outs))) => {
                run.case(req.clone(), format!("{}|{}", show_bits(&fin), show_outs(empty_out, n, outs.iter().map(|o| show_bits(o)).collect())), nontrivial);
                run.oracle_case(&req, nontrivial);
                let mut st = s_bits.clone();
                let mut want: Vec<Vec<u64>> = vec![];
                for &x in &xs {
                    want.push(st.iter().enumerate().map(|(r, v)| v ^ ((x >> r) & 1)).collect());
                    for (r, v) in st.iter_mut().enumerate() {
                        let xr = (x >> r) & 1;
                        *v = (((tt >> 3) & *v & xr) ^ ((tt >> 2) & *v) ^ ((tt >> 1) & xr) ^ tt) & 1;
                    }
                }
                if fin != st || (!empty_out && outs != want) {
                    run.oracle_fail(&format!("C07:strategy:onebitb:{}", level), format!("{} gives {:?} {:?}, elementwise reference loop {:?} {:?}", req, fin, outs, st, want));
                }
            }
        }
    }
}

pub fn corr(run: &mut Run) {
    run.rule = "stream S: for every n in 0..=64 (thorough 0..=200) the three prefix-sum functions, both picked \
                variants (Default/Extreme) and log_depth_sum run through the verif hook on the free monoid over n \
                generators (combine = concatenation, calls recorded): results and call trace must equal the Lean \
                model's; natively checked against prefix i = [0..=i] and against 2x2 matrix products over Z/2^64. \
                Stream TB: batched small / one-bit states (BIT[B++[K]], K=1..4, batch rank 0..3, every row has its own input bit per step) \
                inlined+evaluated by the code vs the array-level Lean model iterSmallB / iterOneBitB and a row-wise native loop \
                (non-trivial: >=2 steps and >=2 rows). Stream F: bodies with Random nodes, exact node structure of the inlined \
                graph vs the Lean structure model, Random sets of different copies disjoint. \
                Stream E: generated contexts with nested Call/Iterate of every state kind, evaluated natively vs \
                after inline_operations in every mode (see notes). Non-trivial: n >= 2; distinct by request text."
        .to_owned();
    structural(run);
    strategies(run);
    batched(run);
    e2e::e2e(run);
    crate::c07_fresh::fresh(run);
}

// ---------------------------------------------------------------------------------------------
// Stream E
pub mod e2e {
    // C07 end-to-end stream (to be merged into c07.rs): evaluator-native Call/Iterate vs inline_operations.
    //
    // For generated contexts the main graph is evaluated by `SimpleEvaluator` (which interprets Call and
    // Iterate natively, `Evaluator::evaluate_call_iterate`) and compared with the evaluation of
    // `inline_operations(&c, config)` on the same inputs, for every default mode and random overrides.
    // Body graphs are generated so that they satisfy the contract of the strategy they are annotated
    // with (associative state update, one-bit state with element-wise independence, small state with
    // row independence).
    use crate::util::*;
    use ciphercore_base::data_types::*;
    use ciphercore_base::data_values::Value;
    use ciphercore_base::errors::Result;
    use ciphercore_base::evaluators::simple_evaluator::SimpleEvaluator;
    use ciphercore_base::evaluators::Evaluator;
    use ciphercore_base::graphs::{create_context, Context, Graph, GraphAnnotation, Node, Operation, SliceElement};
    use ciphercore_base::inline::inline_ops::{inline_operations, DepthOptimizationLevel, InlineConfig, InlineMode};

    const EVAL_SEED: [u8; 16] = *b"C07-e2e-prngseed";

    #[derive(Clone, Copy, PartialEq, Eq, Debug)]
    enum Kind {
        Empty,
        Assoc,
        OneBit,
        SmallState,
        General,
    }

    impl Kind {
        fn name(self) -> &'static str {
            match self {
                Kind::Empty => "empty",
                Kind::Assoc => "assoc",
                Kind::OneBit => "onebit",
                Kind::SmallState => "smallstate",
                Kind::General => "general",
            }
        }
        fn annotation(self) -> Option<GraphAnnotation> {
            match self {
                Kind::Assoc => Some(GraphAnnotation::AssociativeOperation),
                Kind::OneBit => Some(GraphAnnotation::OneBitState),
                Kind::SmallState => Some(GraphAnnotation::SmallState),
                _ => None,
            }
        }
    }

    /// forced generator parameters (boundary grid); `None` = random
    #[derive(Clone, Default)]
    struct Force {
        n: Option<u64>,
        k: Option<u64>,
        batch: Option<Vec<u64>>,
        onebit_shape: Option<Vec<u64>>,
    }

    const KINDS: [Kind; 5] = [Kind::Empty, Kind::Assoc, Kind::OneBit, Kind::SmallState, Kind::General];

    /// An Iterate body graph: inputs (state, element) in this order, output tuple (new state, output).
    #[derive(Clone)]
    struct BodyInfo {
        graph: Graph,
        state_t: Type,
        elem_t: Type,
        kind: Kind,
        empty_out: bool,
        /// relative cost of one inlined element (used to cap the vector length)
        heavy: bool,
        descr: String,
        /// coverage tags (counted once per context)
        tags: Vec<String>,
    }

    impl BodyInfo {
        fn label(&self) -> &'static str {
            if self.kind == Kind::Assoc && self.empty_out {
                "assoc_emptyout"
            } else {
                self.kind.name()
            }
        }
    }

    fn bit_t() -> Type {
        scalar_type(BIT)
    }

    fn is_empty_tuple(t: &Type) -> bool {
        matches!(t, Type::Tuple(v) if v.is_empty())
    }

    fn arr_or_scalar(shape: &[u64], st: ScalarType) -> Type {
        if shape.is_empty() {
            scalar_type(st)
        } else {
            array_type(shape.to_vec(), st)
        }
    }

    fn const_u64(g: &Graph, x: u64) -> Result<Node> {
        g.constant(scalar_type(UINT64), Value::from_scalar(x, UINT64)?)
    }

    fn const_of(g: &Graph, t: &Type, x: u64) -> Result<Node> {
        let st = t.get_scalar_type();
        let n: u64 = if t.is_scalar() { 1 } else { t.get_shape().iter().product() };
        let v: Vec<u64> = (0..n).map(|i| if st == BIT { (x + i) & 1 } else { x + i }).collect();
        let val = if t.is_scalar() { Value::from_scalar(v[0], st)? } else { Value::from_flattened_array(&v, st)? };
        g.constant(t.clone(), val)
    }

    fn finish_body(g: &Graph, new_state: Node, out: Node, ann: Option<GraphAnnotation>) -> Result<()> {
        let o = g.create_tuple(vec![new_state, out])?;
        g.set_output_node(o)?;
        if let Some(a) = ann {
            g.add_annotation(a)?;
        }
        g.finalize()?;
        Ok(())
    }

    /// output of the body: empty tuple / new state / (old state, input) / old state + f(input)
    fn pick_out(
        g: &Graph,
        rng: &mut Rng,
        s: &Node,
        x: &Node,
        new_state: &Node,
        xarith: Option<&Node>,
    ) -> Result<(Node, &'static str, bool)> {
        match rng.below(5) {
            0 => Ok((g.create_tuple(vec![])?, "out=empty", true)),
            1 => Ok((new_state.clone(), "out=newstate", false)),
            2 => Ok((g.create_tuple(vec![s.clone(), x.clone()])?, "out=(state,input)", false)),
            _ => match xarith {
                Some(xa) => Ok((s.add(xa.clone())?, "out=state+input", false)),
                None => Ok((g.create_tuple(vec![x.clone(), s.clone()])?, "out=(input,state)", false)),
            },
        }
    }

    // ---------------------------------------------------------------------------------------------
    // body generators
    // ---------------------------------------------------------------------------------------------

    fn small_int_type(rng: &mut Rng) -> Type {
        let st = *rng.pick(&[BIT, UINT8, INT32, UINT64]);
        let shape: &[u64] = match rng.below(4) {
            0 => &[],
            1 => &[3],
            2 => &[2, 2],
            _ => &[1],
        };
        arr_or_scalar(shape, st)
    }

    /// kind 1: empty state; `n_random` Random nodes are added to the output when > 0
    fn body_empty(c: &Context, rng: &mut Rng, n_random: u64) -> Result<BodyInfo> {
        let g = c.create_graph()?;
        let state_t = tuple_type(vec![]);
        let elem_t = small_int_type(rng);
        let s = g.input(state_t.clone())?;
        let x = g.input(elem_t.clone())?;
        let (mut out, mut name) = match rng.below(5) {
            0 => (x.add(g.ones(elem_t.clone())?)?, "x+1"),
            1 => (x.multiply(x.clone())?, "x*x"),
            2 => (x.clone(), "x"),
            3 => (g.create_tuple(vec![x.clone(), x.add(x.clone())?])?, "(x,x+x)"),
            _ => (x.multiply(const_of(&g, &elem_t, 3)?)?.subtract(x.clone())?, "x*c-x"),
        };
        if n_random > 0 {
            let mut o = x.clone();
            for _ in 0..n_random {
                o = o.add(g.random(elem_t.clone())?)?;
            }
            out = o;
            name = "x+random";
        }
        let new_state = if rng.chance(1, 2) { s } else { g.create_tuple(vec![])? };
        finish_body(&g, new_state, out, None)?;
        Ok(BodyInfo {
            graph: g,
            state_t,
            elem_t: elem_t.clone(),
            kind: Kind::Empty,
            empty_out: false,
            heavy: false,
            descr: format!("empty[{} elem={} random={}]", name, elem_t, n_random),
            tags: vec![format!("empty:f:{}", name)],
        })
    }

    /// kind 2: associative state update (state type == element type); mostly non-commutative
    fn body_assoc(c: &Context, rng: &mut Rng) -> Result<BodyInfo> {
        let g = c.create_graph()?;
        let st = *rng.pick(&[UINT64, INT32, BIT, UINT8]);
        let variant = rng.below(11);
        let t = match variant {
            10 => {
                let part = arr_or_scalar(*rng.pick(&[&[][..], &[2][..]]), st);
                tuple_type(vec![part.clone(), part])
            }
            0..=3 => {
                let d = 2 + rng.below(2);
                if rng.chance(1, 4) {
                    array_type(vec![2, d, d], st)
                } else {
                    array_type(vec![d, d], st)
                }
            }
            4 | 5 => {
                if rng.chance(1, 3) {
                    array_type(vec![2, 3], st)
                } else {
                    array_type(vec![2], st)
                }
            }
            _ => arr_or_scalar(*rng.pick(&[&[][..], &[3][..], &[2, 2][..]]), st),
        };
        let s = g.input(t.clone())?;
        let x = g.input(t.clone())?;
        let (new_state, name) = match variant {
            0..=3 => (s.matmul(x.clone())?, "matmul(state,input)"),
            4 | 5 => {
                // affine maps (a,b): x -> a*x+b; state applied first, then the input
                let a1 = s.get(vec![0])?;
                let b1 = s.get(vec![1])?;
                let a2 = x.get(vec![0])?;
                let b2 = x.get(vec![1])?;
                let a = a1.multiply(a2.clone())?;
                let b = a2.multiply(b1)?.add(b2)?;
                (g.stack(vec![a, b], vec![2])?, "affine-compose")
            }
            6 => (s.clone(), "left-projection"),
            7 => (x.clone(), "right-projection"),
            8 => (s.add(x.clone())?, "add"),
            10 => {
                // the same affine composition with a tuple-typed state (a, b)
                let a1 = s.tuple_get(0)?;
                let b1 = s.tuple_get(1)?;
                let a2 = x.tuple_get(0)?;
                let b2 = x.tuple_get(1)?;
                let a = a1.multiply(a2.clone())?;
                let b = a2.multiply(b1)?.add(b2)?;
                (g.create_tuple(vec![a, b])?, "affine-compose-tuple")
            }
            _ => (s.multiply(x.clone())?, "multiply"),
        };
        let xarith = if variant == 10 { None } else { Some(&x) };
        let (out, oname, empty_out) = pick_out(&g, rng, &s, &x, &new_state, xarith)?;
        finish_body(&g, new_state, out, Kind::Assoc.annotation())?;
        Ok(BodyInfo {
            graph: g,
            state_t: t.clone(),
            elem_t: t.clone(),
            kind: Kind::Assoc,
            empty_out,
            heavy: false,
            descr: format!("assoc[{} type={} {}]", name, t, oname),
            tags: vec![format!("assoc:f:{}", name), format!("assoc:{}", oname)],
        })
    }

    /// kind 3: OneBitState; element-wise boolean function of (state bit, input bits)
    fn body_onebit(c: &Context, rng: &mut Rng, force: &Force) -> Result<BodyInfo> {
        let g = c.create_graph()?;
        let shape: Vec<u64> = match if force.onebit_shape.is_some() { 99 } else { rng.below(11) } {
            99 => force.onebit_shape.clone().unwrap(),
            8 => vec![9],
            9 => vec![17],
            10 => vec![4, 5],
            0 | 1 => vec![],
            2 => vec![1],
            3 => vec![3],
            4 => vec![5],
            5 => vec![3, 1],
            6 => vec![1, 1],
            _ => vec![2, 3],
        };
        let state_t = arr_or_scalar(&shape, BIT);
        let form = rng.below(5);
        let (elem_t, fname) = match form {
            0 => (state_t.clone(), "same"),
            1 => (tuple_type(vec![state_t.clone(), state_t.clone()]), "pair"),
            2 => (bit_t(), "scalarbit"),
            3 => (scalar_type(UINT8), "u8"),
            _ => {
                if shape.len() == 2 {
                    (array_type(vec![shape[1]], BIT), "row")
                } else {
                    (state_t.clone(), "same")
                }
            }
        };
        let s = g.input(state_t.clone())?;
        let x = g.input(elem_t.clone())?;
        let (x0, x1) = match form {
            1 => (x.tuple_get(0)?, x.tuple_get(1)?),
            3 => {
                let bits = x.a2b()?;
                (bits.get(vec![0])?, bits.get(vec![1])?)
            }
            _ => (x.clone(), x.clone()),
        };
        let one = g.ones(bit_t())?;
        let f = rng.below(9);
        let (mut new_state, name) = match f {
            0 => (s.multiply(x0.clone())?.add(x1.clone())?, "s*x0+x1"),
            1 => (s.add(x0.multiply(x1.clone())?)?.add(one)?, "s+x0*x1+1"),
            2 => (x0.clone(), "x0"),
            3 => (s.clone(), "s"),
            4 => (s.add(one)?, "s+1"),
            5 => (g.ones(state_t.clone())?, "1"),
            6 => (s.multiply(x0.clone())?, "s*x0"),
            7 => (s.add(x0.clone())?.multiply(x1.clone())?.add(s.clone())?, "(s+x0)*x1+s"),
            _ => (s.add(x0.clone())?, "s+x0"),
        };
        if new_state.get_type()? != state_t {
            new_state = new_state.add(g.zeros(state_t.clone())?)?;
        }
        let (out, oname, empty_out) = pick_out(&g, rng, &s, &x, &new_state, Some(&x0))?;
        finish_body(&g, new_state, out, Kind::OneBit.annotation())?;
        Ok(BodyInfo {
            graph: g,
            state_t: state_t.clone(),
            elem_t: elem_t.clone(),
            kind: Kind::OneBit,
            empty_out,
            heavy: false,
            descr: format!("onebit[{} state={} input={}:{} {}]", name, state_t, fname, elem_t, oname),
            tags: vec![format!("onebit:f:{}", name), format!("onebit:state:{}", state_t), format!("onebit:input:{}", fname), format!("onebit:{}", oname)],
        })
    }

    fn columns(x: &Node, k: u64) -> Result<Vec<Node>> {
        let mut v = vec![];
        for i in 0..k {
            v.push(x.get_slice(vec![SliceElement::Ellipsis, SliceElement::SingleIndex(i as i64)])?);
        }
        Ok(v)
    }

    /// columns (each of the batch shape) -> array of shape batch ++ [K]
    fn from_columns(g: &Graph, cols: Vec<Node>, rank: usize, via_stack: bool) -> Result<Node> {
        let k = cols.len() as u64;
        let arr = if via_stack {
            g.stack(cols, vec![k])?
        } else {
            g.create_vector(cols[0].get_type()?, cols)?.vector_to_array()?
        };
        if rank == 1 {
            return Ok(arr);
        }
        let mut perm: Vec<u64> = (0..rank as u64).collect();
        perm.rotate_left(1);
        arr.permute_axes(perm)
    }

    /// kind 4: SmallState; state BIT array batch ++ [K], rows independent
    fn body_smallstate(c: &Context, rng: &mut Rng, force: &Force) -> Result<BodyInfo> {
        let g = c.create_graph()?;
        let k = force.k.unwrap_or(1 + rng.below(4));
        let batch: Vec<u64> = match if force.batch.is_some() { 99 } else { rng.below(10) } {
            99 => force.batch.clone().unwrap(),
            8 => vec![7],
            9 => vec![3, 3],
            0 | 1 => vec![],
            2 => vec![1],
            3 => vec![3],
            4 => vec![2, 3],
            5 => vec![5],
            6 => vec![2, 1],
            _ => vec![2],
        };
        // transition matrices are 2^K x 2^K per batch row and vector element: keep K >= 3 at <= 6 rows
        let batch = if force.batch.is_none() && k >= 3 && batch.iter().product::<u64>() > 6 { vec![2] } else { batch };
        let mut shape = batch.clone();
        shape.push(k);
        let rank = shape.len();
        let state_t = array_type(shape.clone(), BIT);
        let col_t = arr_or_scalar(&batch, BIT);
        let form = rng.below(7);
        let (elem_t, fname) = match form {
            0 | 1 => (state_t.clone(), "same"),
            2 => {
                let mut sh = batch.clone();
                sh.push(1);
                (array_type(sh, BIT), "lastdim1")
            }
            3 => (array_type(vec![k], BIT), "rowK"),
            4 => (scalar_type(UINT8), "u8"),
            5 => (tuple_type(vec![state_t.clone(), bit_t()]), "pair"),
            _ => (bit_t(), "scalarbit"),
        };
        let s = g.input(state_t.clone())?;
        let x = g.input(elem_t.clone())?;
        let xfull = match form {
            0 | 1 => x.clone(),
            4 => x
                .a2b()?
                .get_slice(vec![SliceElement::SubArray(Some(1), Some(1 + k as i64), None)])?
                .add(g.zeros(state_t.clone())?)?,
            5 => x.tuple_get(0)?,
            _ => x.add(g.zeros(state_t.clone())?)?,
        };
        let mut xbit = match form {
            0 | 1 | 2 => x.get_slice(vec![SliceElement::Ellipsis, SliceElement::SingleIndex(0)])?,
            3 => x.get(vec![0])?,
            4 => x.a2b()?.get(vec![0])?,
            5 => x.tuple_get(1)?,
            _ => x.clone(),
        };
        if xbit.get_type()? != col_t {
            xbit = xbit.add(g.zeros(col_t.clone())?)?;
        }
        let via_stack = rng.chance(1, 2);
        let f = rng.below(11);
        let (mut new_state, name) = match f {
            0 => (s.add(xfull.clone())?, "xor"),
            1 => {
                let mut cols = columns(&s.add(xfull.clone())?, k)?;
                for i in 1..k as usize {
                    cols[i] = cols[i].multiply(cols[i - 1].clone())?;
                }
                (from_columns(&g, cols, rank, via_stack)?, "cumulative-and(s+x)")
            }
            2 => {
                let cols = columns(&s, k)?;
                let mut carry = xbit.clone();
                let mut out = vec![];
                for col in cols.iter() {
                    out.push(col.add(carry.clone())?);
                    carry = carry.multiply(col.clone())?;
                }
                (from_columns(&g, out, rank, via_stack)?, "counter+=xbit")
            }
            3 => {
                let mut cols = columns(&s, k)?;
                cols.rotate_left(1);
                (from_columns(&g, cols, rank, via_stack)?.add(xfull.clone())?, "rotate(s)+x")
            }
            4 => {
                let cols = columns(&s, k)?;
                let mut out = vec![xbit.clone()];
                for col in cols.iter().take(k as usize - 1) {
                    out.push(col.clone());
                }
                (from_columns(&g, out, rank, via_stack)?, "shift-in-xbit")
            }
            5 => (s.multiply(xfull.clone())?, "and"),
            6 => (xfull.clone(), "x(ignores-state)"),
            7 => (s.clone(), "s(ignores-input)"),
            8 => (s.add(g.ones(bit_t())?)?, "not-s"),
            9 => {
                let cols = columns(&s, k)?;
                let ku = k as usize;
                let mut out = vec![];
                for i in 0..ku {
                    out.push(
                        cols[i]
                            .multiply(cols[(i + 1) % ku].clone())?
                            .add(xbit.clone())?
                            .add(cols[(i + 2) % ku].clone())?,
                    );
                }
                (from_columns(&g, out, rank, via_stack)?, "mix")
            }
            _ => {
                // counter decrement-or-reset: if xbit then state := x else state+1 (as K-bit counter)
                let cols = columns(&s, k)?;
                let xcols = columns(&xfull, k)?;
                let notx = xbit.add(g.ones(bit_t())?)?;
                let mut carry = g.ones(col_t.clone())?;
                let mut out = vec![];
                for (i, col) in cols.iter().enumerate() {
                    let inc = col.add(carry.clone())?;
                    carry = carry.multiply(col.clone())?;
                    out.push(inc.multiply(notx.clone())?.add(xcols[i].multiply(xbit.clone())?)?);
                }
                (from_columns(&g, out, rank, via_stack)?, "xbit?x:s+1")
            }
        };
        if new_state.get_type()? != state_t {
            new_state = new_state.add(g.zeros(state_t.clone())?)?;
        }
        let (out, oname, empty_out) = pick_out(&g, rng, &s, &x, &new_state, Some(&xfull))?;
        finish_body(&g, new_state, out, Kind::SmallState.annotation())?;
        Ok(BodyInfo {
            graph: g,
            state_t: state_t.clone(),
            elem_t: elem_t.clone(),
            kind: Kind::SmallState,
            empty_out,
            heavy: k >= 3,
            descr: format!(
                "smallstate[{} K={} state={} input={}:{} {} {}]",
                name,
                k,
                state_t,
                fname,
                elem_t,
                oname,
                if via_stack { "stack" } else { "vector_to_array" }
            ),
            tags: vec![
                format!("smallstate:f:{}", name),
                format!("smallstate:K={}:batch={:?}", k, batch),
                format!("smallstate:input:{}", fname),
                format!("smallstate:{}", oname),
            ],
        })
    }

    /// kind 5: general state, no annotation (simple inlining in all modes)
    fn body_general(c: &Context, rng: &mut Rng, n_random: u64) -> Result<BodyInfo> {
        let g = c.create_graph()?;
        let variant = if n_random > 0 { rng.below(2) * 2 } else { rng.below(5) };
        let (state_t, elem_t) = match variant {
            0 => (scalar_type(UINT64), scalar_type(UINT64)),
            1 => (tuple_type(vec![scalar_type(UINT64), scalar_type(UINT64)]), scalar_type(UINT64)),
            2 => (array_type(vec![3], INT32), if rng.chance(1, 2) { array_type(vec![3], INT32) } else { scalar_type(INT32) }),
            3 => (array_type(vec![5], BIT), array_type(vec![5], BIT)),
            _ => (array_type(vec![2, 2], UINT8), array_type(vec![2, 2], UINT8)),
        };
        let s = g.input(state_t.clone())?;
        let x = g.input(elem_t.clone())?;
        let (mut new_state, name) = match variant {
            0 => (s.multiply(const_of(&g, &state_t, 3)?)?.add(x.clone())?, "s*3+x"),
            1 => {
                let a = s.tuple_get(0)?;
                let b = s.tuple_get(1)?;
                (g.create_tuple(vec![b.clone(), a.add(b.multiply(x.clone())?)?])?, "(b,a+b*x)")
            }
            2 => (s.multiply(s.clone())?.add(x.clone())?, "s*s+x"),
            3 => {
                // mixes positions (not a valid OneBitState/SmallState body, hence no annotation)
                let r = s.get_slice(vec![SliceElement::SubArray(None, None, Some(-1))])?;
                (r.multiply(x.clone())?.add(s.clone())?.add(g.ones(bit_t())?)?, "rev(s)*x+s+1")
            }
            _ => (s.matmul(x.clone())?.subtract(x.matmul(s.clone())?)?.add(s.clone())?, "s@x-x@s+s"),
        };
        for _ in 0..n_random {
            new_state = new_state.add(g.random(state_t.clone())?)?;
        }
        let xarith = if variant == 1 { None } else { Some(&x) };
        let (out, oname, empty_out) = pick_out(&g, rng, &s, &x, &new_state, xarith)?;
        finish_body(&g, new_state, out, None)?;
        Ok(BodyInfo {
            graph: g,
            state_t: state_t.clone(),
            elem_t: elem_t.clone(),
            kind: Kind::General,
            empty_out,
            heavy: false,
            descr: format!("general[{} state={} input={} {} random={}]", name, state_t, elem_t, oname, n_random),
            tags: vec![format!("general:f:{}", name), format!("general:{}", oname)],
        })
    }

    fn body_of_kind(c: &Context, rng: &mut Rng, kind: Kind, force: &Force) -> Result<BodyInfo> {
        match kind {
            Kind::Empty => body_empty(c, rng, 0),
            Kind::Assoc => body_assoc(c, rng),
            Kind::OneBit => body_onebit(c, rng, force),
            Kind::SmallState => body_smallstate(c, rng, force),
            Kind::General => body_general(c, rng, 0),
        }
    }

    // ---------------------------------------------------------------------------------------------
    // nesting wrappers (the wrapped body computes the same function, so the annotation stays valid)
    // ---------------------------------------------------------------------------------------------

    /// body' (s,x) = Call(body, s, x)
    fn wrap_call(c: &Context, rng: &mut Rng, b: &BodyInfo) -> Result<BodyInfo> {
        let g = c.create_graph()?;
        let s = g.input(b.state_t.clone())?;
        let x = g.input(b.elem_t.clone())?;
        let r = g.call(b.graph.clone(), vec![s, x])?;
        let direct = rng.chance(1, 2);
        let out = if direct { r } else { g.create_tuple(vec![r.tuple_get(0)?, r.tuple_get(1)?])? };
        g.set_output_node(out)?;
        if let Some(a) = b.kind.annotation() {
            g.add_annotation(a)?;
        }
        g.finalize()?;
        let mut nb = b.clone();
        nb.graph = g;
        nb.descr = format!("callwrap{}({})", if direct { "" } else { "-retuple" }, b.descr);
        nb.tags.push("wrap:call".into());
        Ok(nb)
    }

    /// body' (s, xs: vector<m, elem>) = Iterate(body, s, xs)   or   body'(s, x) = Iterate(body, s, repeat(x, m))
    fn wrap_inner_iterate(c: &Context, rng: &mut Rng, b: &BodyInfo, iters: &mut Vec<(Kind, u64)>) -> Result<BodyInfo> {
        let g = c.create_graph()?;
        let m = rng.below(4); // 0..=3 constant inner length
        let by_repeat = rng.chance(1, 3);
        let elem_t = if by_repeat { b.elem_t.clone() } else { vector_type(m, b.elem_t.clone()) };
        let s = g.input(b.state_t.clone())?;
        let x = g.input(elem_t.clone())?;
        let xs = if by_repeat { x.repeat(m)? } else { x };
        let r = g.iterate(b.graph.clone(), s, xs)?;
        let out = if rng.chance(1, 2) { r } else { g.create_tuple(vec![r.tuple_get(0)?, r.tuple_get(1)?])? };
        g.set_output_node(out)?;
        // a composition of row-/element-independent updates is again one; an associative f is not
        // associative any more after composing (types differ), so that annotation is dropped
        let kind = match b.kind {
            Kind::OneBit | Kind::SmallState if rng.chance(2, 3) => b.kind,
            Kind::Empty => Kind::Empty,
            _ => Kind::General,
        };
        if let Some(a) = kind.annotation() {
            g.add_annotation(a)?;
        }
        g.finalize()?;
        iters.push((b.kind, m));
        let mut tags = b.tags.clone();
        tags.push(format!("wrap:inner-iterate:m={}:{}:outer={}", m, if by_repeat { "repeat" } else { "vector-elem" }, kind.name()));
        Ok(BodyInfo {
            tags,
            graph: g,
            state_t: b.state_t.clone(),
            elem_t,
            kind,
            empty_out: false,
            heavy: true,
            descr: format!("inner-iterate[m={} {} outer={}]({})", m, if by_repeat { "repeat" } else { "vector-elem" }, kind.name(), b.descr),
        })
    }

    // ---------------------------------------------------------------------------------------------
    // main graphs
    // ---------------------------------------------------------------------------------------------

    struct Built {
        ctx: Context,
        in_types: Vec<Type>,
        /// kind used in failure signatures
        label: String,
        descr: String,
        n: u64,
        /// (body kind, length) of the Iterate operations (for strategy statistics)
        iters: Vec<(Kind, u64)>,
        has_random: bool,
        nontrivial: bool,
        tags: Vec<String>,
    }

    struct MainB<'a> {
        g: &'a Graph,
        in_types: Vec<Type>,
        /// give (unique) names to inputs and to Call/Iterate nodes of the main graph
        named: bool,
        names: u64,
    }

    impl<'a> MainB<'a> {
        fn input(&mut self, t: Type) -> Result<Node> {
            self.in_types.push(t.clone());
            let n = self.g.input(t)?;
            self.name(&n, "in")
        }
        fn name(&mut self, n: &Node, what: &str) -> Result<Node> {
            if self.named {
                self.names += 1;
                n.set_name(&format!("{}#{}", what, self.names))?;
            }
            Ok(n.clone())
        }
        fn vector(&mut self, rng: &mut Rng, n: u64, elem_t: &Type) -> Result<(Node, &'static str)> {
            let plain = elem_t.is_scalar() || elem_t.is_array();
            match rng.below(7) {
                0 | 1 if n <= 24 => {
                    let mut v = vec![];
                    for _ in 0..n {
                        v.push(self.input(elem_t.clone())?);
                    }
                    Ok((self.g.create_vector(elem_t.clone(), v)?, "create_vector"))
                }
                2 | 3 if plain && n >= 1 => {
                    let mut shape = vec![n];
                    if elem_t.is_array() {
                        shape.extend(elem_t.get_shape());
                    }
                    let a = self.input(array_type(shape, elem_t.get_scalar_type()))?;
                    Ok((a.array_to_vector()?, "array_to_vector"))
                }
                4 if n >= 1 && rng.chance(1, 3) => Ok((self.input(elem_t.clone())?.repeat(n)?, "repeat")),
                _ => Ok((self.input(vector_type(n, elem_t.clone()))?, "input_vector")),
            }
        }
        fn state(&mut self, rng: &mut Rng, t: &Type) -> Result<Node> {
            if is_empty_tuple(t) && rng.chance(1, 2) {
                self.g.create_tuple(vec![])
            } else {
                self.input(t.clone())
            }
        }
    }

    fn gen_n(rng: &mut Rng, heavy: bool) -> u64 {
        let n = match rng.below(10) {
            0..=2 => *rng.pick(&[0u64, 1, 2, 15, 16, 17]),
            3 | 4 => 14 + rng.below(5),
            5 => *rng.pick(&[3u64, 5, 6, 7, 9, 10, 11, 12, 13, 19, 23, 31, 33, 40]),
            _ => rng.below(41),
        };
        if heavy && n > 18 && !rng.chance(1, 4) {
            // keep the expensive kinds mostly at or below the algorithm switch
            return *rng.pick(&[0u64, 1, 2, 3, 5, 7, 14, 15, 16, 17, 18]);
        }
        n
    }

    fn len_bucket(n: u64) -> &'static str {
        match n {
            0 => "0",
            1 => "1",
            2..=14 => "2-14",
            15 => "15",
            16 => "16",
            17 => "17",
            _ => "18-40",
        }
    }

    /// graph G(s0, vec) = Iterate(body, s0, vec), optionally behind `depth` further Call layers
    fn iterate_graph(c: &Context, rng: &mut Rng, b: &BodyInfo, n: u64, depth: u64) -> Result<Graph> {
        let vt = vector_type(n, b.elem_t.clone());
        let mut g = c.create_graph()?;
        {
            let s0 = g.input(b.state_t.clone())?;
            let v = g.input(vt.clone())?;
            let it = g.iterate(b.graph.clone(), s0, v)?;
            g.set_output_node(it)?;
            g.finalize()?;
        }
        for _ in 0..depth {
            let h = c.create_graph()?;
            let s0 = h.input(b.state_t.clone())?;
            let v = h.input(vt.clone())?;
            let r = h.call(g.clone(), vec![s0, v])?;
            let out = if rng.chance(1, 2) { r } else { h.create_tuple(vec![r.tuple_get(0)?, r.tuple_get(1)?])? };
            h.set_output_node(out)?;
            h.finalize()?;
            g = h;
        }
        Ok(g)
    }

    /// main graph forms: 0 plain Iterate; 1 Call of a graph containing the Iterate; 2 that graph called
    /// twice; 3 the body used both through Call and as Iterate body
    fn build_main(c: &Context, rng: &mut Rng, b: &BodyInfo, n: u64, form: u64, tags: &mut Vec<String>) -> Result<(Vec<Type>, String)> {
        let depth = rng.below(3);
        let sub = match form {
            1 => Some(iterate_graph(c, rng, b, n, depth)?),
            2 => Some(iterate_graph(c, rng, b, n, depth.min(1))?),
            _ => None,
        };
        let g = c.create_graph()?;
        let named = rng.chance(1, 3);
        let mut mb = MainB { g: &g, in_types: vec![], named, names: 0 };
        let s0 = mb.state(rng, &b.state_t)?;
        let descr;
        let out = match form {
            1 => {
                let (v, vname) = mb.vector(rng, n, &b.elem_t)?;
                descr = format!("main=call(G) vec={}", vname);
                mb.name(&g.call(sub.unwrap(), vec![s0, v])?, "call")?
            }
            2 => {
                let (v1, vn1) = mb.vector(rng, n, &b.elem_t)?;
                let (v2, vn2) = mb.vector(rng, n, &b.elem_t)?;
                let sub = sub.unwrap();
                let r1 = mb.name(&g.call(sub.clone(), vec![s0, v1])?, "call")?;
                let r2 = mb.name(&g.call(sub, vec![r1.tuple_get(0)?, v2])?, "call")?;
                descr = format!("main=call(G)twice vec={},{}", vn1, vn2);
                g.create_tuple(vec![r1, r2])?
            }
            3 => {
                let x0 = mb.input(b.elem_t.clone())?;
                let (v, vname) = mb.vector(rng, n, &b.elem_t)?;
                let r0 = mb.name(&g.call(b.graph.clone(), vec![s0, x0])?, "call")?;
                let it = mb.name(&g.iterate(b.graph.clone(), r0.tuple_get(0)?, v)?, "iterate")?;
                descr = format!("main=call(B)+iterate(B) vec={}", vname);
                g.create_tuple(vec![r0.tuple_get(1)?, it])?
            }
            _ => {
                let (v, vname) = mb.vector(rng, n, &b.elem_t)?;
                let it = mb.name(&g.iterate(b.graph.clone(), s0.clone(), v.clone())?, "iterate")?;
                let post = rng.below(6);
                let mut pname = "retuple";
                let o = match post {
                    0 => g.create_tuple(vec![it.tuple_get(0)?, it.tuple_get(1)?])?,
                    1 if n >= 1 => {
                        pname = "vector_get(first,last)";
                        let last = it.tuple_get(1)?.vector_get(const_u64(&g, n - 1)?)?;
                        let first = it.tuple_get(1)?.vector_get(const_u64(&g, 0)?)?;
                        g.create_tuple(vec![it.clone(), last, first])?
                    }
                    2 if n <= 20 && (!b.heavy || n <= 6) => {
                        pname = "second-iterate";
                        // the same body inlined a second time, continuing from the final state
                        let outs = it.tuple_get(1)?;
                        let v2 = if outs.get_type()? == v.get_type()? && rng.chance(2, 3) { outs } else { v };
                        let it2 = mb.name(&g.iterate(b.graph.clone(), it.tuple_get(0)?, v2)?, "iterate")?;
                        g.create_tuple(vec![it, it2])?
                    }
                    3 if b.state_t.is_array() || b.state_t.is_scalar() => {
                        pname = "final+initial-state";
                        let fs = it.tuple_get(0)?;
                        g.create_tuple(vec![fs.add(s0)?, it.tuple_get(1)?])?
                    }
                    _ => {
                        pname = "none";
                        it
                    }
                };
                descr = format!("main=iterate post={} vec={}", pname, vname);
                o
            }
        };
        g.set_output_node(out)?;
        g.finalize()?;
        c.set_main_graph(g.clone())?;
        c.finalize()?;
        let descr = format!("{}{}", descr, if named { " named" } else { "" });
        if named {
            tags.push("main:named-nodes".into());
        }
        tags.push(format!("main:{}", descr.split(" vec=").next().unwrap_or("")));
        for v in descr.split(" vec=").nth(1).unwrap_or("").trim_end_matches(" named").split(',') {
            tags.push(format!("vec:{}", v));
        }
        Ok((mb.in_types, descr))
    }

    /// pure Call contexts: chains 2-3 deep, the same graph called twice
    fn build_pure_calls(c: &Context, rng: &mut Rng, n_random: u64) -> Result<(Vec<Type>, String)> {
        let t = match rng.below(3) {
            0 => scalar_type(UINT64),
            1 => array_type(vec![3], INT32),
            _ => array_type(vec![4], BIT),
        };
        let g0 = c.create_graph()?;
        {
            // no inputs at all
            let o = const_of(&g0, &t, 5)?.add(g0.ones(t.clone())?)?;
            g0.set_output_node(o)?;
            g0.finalize()?;
        }
        let g1 = c.create_graph()?;
        {
            // the second input is declared after other nodes
            let a = g1.input(t.clone())?;
            let sq = a.multiply(a.clone())?;
            let b = g1.input(t.clone())?;
            let mut o = a.multiply(b)?.add(a)?.add(sq)?;
            for _ in 0..n_random {
                o = o.add(g1.random(t.clone())?)?;
            }
            g1.set_output_node(o)?;
            g1.finalize()?;
        }
        let g2 = c.create_graph()?;
        {
            let a = g2.input(t.clone())?;
            let b = g2.input(t.clone())?;
            let i = g2.call(g1.clone(), vec![a.clone(), b.clone()])?;
            let o = g2.call(g1.clone(), vec![i, b.clone()])?.subtract(b)?;
            g2.set_output_node(o)?;
            g2.finalize()?;
        }
        let g3 = c.create_graph()?;
        {
            let a = g3.input(t.clone())?;
            let k = g3.call(g0.clone(), vec![])?;
            // the same node passed for both parameters
            let d = g3.call(g1.clone(), vec![a.clone(), a.clone()])?;
            let o = g3.call(g2.clone(), vec![d, a.add(k)?])?;
            g3.set_output_node(o)?;
            g3.finalize()?;
        }
        let g = c.create_graph()?;
        let a = g.input(t.clone())?;
        let b = g.input(t.clone())?;
        let o1 = g.call(g2, vec![a.clone(), b.clone()])?;
        let o2 = g.call(g3.clone(), vec![o1.clone()])?;
        let o3 = g.call(g1, vec![o2.clone(), a])?;
        let o4 = if rng.chance(1, 2) { g.call(g3, vec![b])? } else { g.call(g0, vec![])? };
        g.set_output_node(g.create_tuple(vec![o1, o2, o3, o4])?)?;
        g.finalize()?;
        c.set_main_graph(g)?;
        c.finalize()?;
        Ok((vec![t.clone(), t.clone()], format!("pure-call-chain type={} random={}", t, n_random)))
    }

    /// Calls of graphs that return one of their inputs (identity / projection), with named nodes in
    /// the main graph: naming must not make a valid context un-inlinable
    fn build_named_projection_calls(c: &Context, rng: &mut Rng) -> Result<(Vec<Type>, String)> {
        let t = if rng.chance(1, 2) { scalar_type(UINT64) } else { array_type(vec![3], BIT) };
        let ident = c.create_graph()?;
        {
            let a = ident.input(t.clone())?;
            ident.set_output_node(a)?;
            ident.finalize()?;
        }
        let proj = c.create_graph()?;
        {
            let a = proj.input(t.clone())?;
            let _b = proj.input(t.clone())?;
            proj.set_output_node(a)?;
            proj.finalize()?;
        }
        let g = c.create_graph()?;
        let a = g.input(t.clone())?;
        let b = g.input(t.clone())?;
        let variant = rng.below(4);
        let (out, name) = match variant {
            0 => {
                a.set_name("a")?;
                let r = g.call(ident, vec![a.clone()])?;
                r.set_name("r")?;
                (r.add(b)?, "named-input-through-named-identity-call")
            }
            1 => {
                let r1 = g.call(ident.clone(), vec![a.clone()])?;
                r1.set_name("r1")?;
                let r2 = g.call(ident, vec![a])?;
                r2.set_name("r2")?;
                (r1.add(r2)?.add(b)?, "two-named-identity-calls-same-argument")
            }
            2 => {
                let m = a.multiply(b.clone())?;
                let r = g.call(proj, vec![m, a])?;
                r.set_name("r")?;
                (r.add(b)?, "named-projection-call-of-unnamed-node")
            }
            _ => {
                let m = a.multiply(b.clone())?;
                m.set_name("m")?;
                let r = g.call(proj, vec![m, a])?;
                r.set_name("r")?;
                (r.add(b)?, "named-projection-call-of-named-node")
            }
        };
        g.set_output_node(out)?;
        g.finalize()?;
        c.set_main_graph(g)?;
        c.finalize()?;
        Ok((vec![t.clone(), t.clone()], format!("named-projection-calls[{}] type={}", name, t)))
    }

    /// `stream`: one of the five kind names, "nested", "call", "random"
    fn build_context(stream: &str, rng: &mut Rng, force: &Force) -> Result<Built> {
        let c = create_context()?;
        let mut iters = vec![];
        let mut has_random = false;
        if stream == "named" {
            let (in_types, descr) = build_named_projection_calls(&c, rng)?;
            return Ok(Built { ctx: c, in_types, label: "call_named".into(), descr, n: 0, iters, has_random, nontrivial: true, tags: vec!["main:named-projection-calls".into()] });
        }
        if stream == "call" && force.n.is_none() && rng.chance(1, 6) {
            let (in_types, descr) = build_pure_calls(&c, rng, 0)?;
            return Ok(Built { ctx: c, in_types, label: "call".into(), descr, n: 0, iters, has_random, nontrivial: true, tags: vec!["main:pure-call-chain".into()] });
        }
        if stream == "random" && rng.chance(1, 5) {
            let r = 1 + rng.below(2);
            let (in_types, descr) = build_pure_calls(&c, rng, r)?;
            return Ok(Built { ctx: c, in_types, label: "call".into(), descr, n: 0, iters, has_random: true, nontrivial: true, tags: vec!["main:pure-call-chain".into()] });
        }
        let mut body = match stream {
            "empty" => body_empty(&c, rng, 0)?,
            "assoc" => body_assoc(&c, rng)?,
            "onebit" => body_onebit(&c, rng, force)?,
            "smallstate" => body_smallstate(&c, rng, force)?,
            "general" => body_general(&c, rng, 0)?,
            "random" => {
                has_random = true;
                let r = 1 + rng.below(2);
                if rng.chance(1, 2) {
                    body_empty(&c, rng, r)?
                } else {
                    body_general(&c, rng, r)?
                }
            }
            _ => {
                let k = *rng.pick(&KINDS);
                if k == Kind::SmallState {
                    // keep nested small states cheap
                    let f = Force { k: Some(1 + rng.below(2)), ..Default::default() };
                    body_smallstate(&c, rng, &f)?
                } else {
                    body_of_kind(&c, rng, k, &Force::default())?
                }
            }
        };
        let mut label = body.label().to_owned();
        let mut form = 0;
        match stream {
            "nested" => {
                label = "nested".into();
                let w = rng.below(6);
                match w {
                    0 => body = wrap_call(&c, rng, &body)?,
                    1 => {
                        body = wrap_call(&c, rng, &body)?;
                        body = wrap_call(&c, rng, &body)?;
                        if rng.chance(1, 2) {
                            body = wrap_call(&c, rng, &body)?;
                        }
                    }
                    2 | 3 => body = wrap_inner_iterate(&c, rng, &body, &mut iters)?,
                    4 => {
                        body = wrap_call(&c, rng, &body)?;
                        body = wrap_inner_iterate(&c, rng, &body, &mut iters)?;
                    }
                    _ => {
                        body = wrap_inner_iterate(&c, rng, &body, &mut iters)?;
                        body = wrap_call(&c, rng, &body)?;
                    }
                }
                if rng.chance(1, 4) {
                    form = 1 + rng.below(3);
                }
            }
            "call" => {
                label = "call".into();
                form = 1 + rng.below(3);
                if rng.chance(1, 4) {
                    body = wrap_call(&c, rng, &body)?;
                }
            }
            "random" => {
                if rng.chance(1, 3) {
                    body = wrap_call(&c, rng, &body)?;
                }
                form = rng.below(4);
            }
            _ => {}
        }
        let mut n = gen_n(rng, body.heavy);
        if let Some(fnn) = force.n {
            n = fnn;
        }
        let inner_label = body.label();
        if force.n.is_none() && (body.descr.starts_with("inner-iterate") || body.descr.starts_with("callwrap(inner-iterate")) {
            n = n.min(if rng.chance(1, 5) { 18 } else { 9 });
        }
        if form == 2 && body.heavy {
            n = n.min(17);
        }
        let mut tags = body.tags.clone();
        if label != inner_label {
            tags.push(format!("{}:inner={}", label, inner_label));
        }
        let (in_types, mdescr) = build_main(&c, rng, &body, n, form, &mut tags)?;
        let copies = if form == 2 { 2 } else { 1 };
        for _ in 0..copies {
            iters.push((body.kind, n));
        }
        Ok(Built {
            ctx: c,
            in_types,
            label,
            descr: format!("{} n={} {}", body.descr, n, mdescr),
            n,
            iters,
            has_random,
            nontrivial: n >= 2,
            tags,
        })
    }

    // ---------------------------------------------------------------------------------------------
    // values, evaluation, comparison
    // ---------------------------------------------------------------------------------------------

    fn rand_elem(rng: &mut Rng, st: ScalarType) -> u64 {
        if st == BIT {
            return rng.below(2);
        }
        let w = st.size_in_bits();
        let x = match rng.below(4) {
            0 => rng.below(4),
            1 => u64::MAX - rng.below(3),
            _ => rng.next(),
        };
        if w >= 64 {
            x
        } else {
            x & ((1u64 << w) - 1)
        }
    }

    fn rand_value(rng: &mut Rng, t: &Type) -> Value {
        match t {
            Type::Scalar(st) => Value::from_scalar(rand_elem(rng, *st), *st).unwrap(),
            Type::Array(shape, st) => {
                let n: u64 = shape.iter().product();
                let v: Vec<u64> = (0..n).map(|_| rand_elem(rng, *st)).collect();
                Value::from_flattened_array(&v, *st).unwrap()
            }
            Type::Vector(n, et) => Value::from_vector((0..*n).map(|_| rand_value(rng, et)).collect()),
            Type::Tuple(ts) => Value::from_vector(ts.iter().map(|t| rand_value(rng, t)).collect()),
            Type::NamedTuple(ts) => Value::from_vector(ts.iter().map(|(_, t)| rand_value(rng, t)).collect()),
        }
    }

    fn leaves(v: &Value, t: &Type, path: &str, out: &mut Vec<(String, u128)>) {
        match t {
            Type::Scalar(st) => match v.to_u128(*st) {
                Ok(x) => out.push((path.to_owned(), x)),
                Err(_) => out.push((format!("{}:unreadable", path), 0)),
            },
            Type::Array(_, _) => match v.to_flattened_array_u128(t.clone()) {
                Ok(xs) => {
                    for (i, x) in xs.iter().enumerate() {
                        out.push((format!("{}[{}]", path, i), *x));
                    }
                }
                Err(_) => out.push((format!("{}:unreadable", path), 0)),
            },
            Type::Vector(n, et) => match v.to_vector() {
                Ok(vs) if vs.len() as u64 == *n => {
                    for (i, x) in vs.iter().enumerate() {
                        leaves(x, et, &format!("{}.v{}", path, i), out);
                    }
                }
                _ => out.push((format!("{}:bad-vector", path), 0)),
            },
            Type::Tuple(ts) => match v.to_vector() {
                Ok(vs) if vs.len() == ts.len() => {
                    for (i, x) in vs.iter().enumerate() {
                        leaves(x, &ts[i], &format!("{}.t{}", path, i), out);
                    }
                }
                _ => out.push((format!("{}:bad-tuple", path), 0)),
            },
            Type::NamedTuple(_) => out.push((format!("{}:named", path), 0)),
        }
    }

    fn first_diff(want: &Value, got: &Value, t: &Type) -> String {
        let mut a = vec![];
        let mut b = vec![];
        leaves(want, t, "out", &mut a);
        leaves(got, t, "out", &mut b);
        if a.len() != b.len() {
            return format!("result structure differs: {} vs {} leaves", a.len(), b.len());
        }
        let nd = a.iter().zip(b.iter()).filter(|(x, y)| x != y).count();
        for (x, y) in a.iter().zip(b.iter()) {
            if x != y {
                return format!("{} of {} leaves differ; first at {}: expected {} got {} ({})", nd, a.len(), x.0, x.1, y.1, y.0);
            }
        }
        "typed contents equal, byte representation differs".to_owned()
    }

    fn evaluate(ctx: &Context, inputs: Vec<Value>) -> Result<Value> {
        let mut ev = SimpleEvaluator::new(Some(EVAL_SEED))?;
        ev.preprocess(ctx)?;
        ev.evaluate_graph(ctx.get_main_graph()?, inputs)
    }

    /// Random nodes the inlined main graph must contain when every Call is inlined once per call site
    /// and every Iterate once per element (computed on the original context by graph traversal)
    fn expected_random(g: &Graph) -> u64 {
        let mut total = 0;
        for node in g.get_nodes() {
            match node.get_operation() {
                Operation::Random(_) => total += 1,
                Operation::Call => total += expected_random(&node.get_graph_dependencies()[0]),
                Operation::Iterate => {
                    let n = match node.get_node_dependencies()[1].get_type() {
                        Ok(Type::Vector(n, _)) => n,
                        _ => 0,
                    };
                    total += n * expected_random(&node.get_graph_dependencies()[0]);
                }
                _ => {}
            }
        }
        total
    }

    fn mode_name(m: &InlineMode) -> &'static str {
        match m {
            InlineMode::Noop => "noop",
            InlineMode::Simple => "simple",
            InlineMode::DepthOptimized(DepthOptimizationLevel::Default) => "default",
            InlineMode::DepthOptimized(DepthOptimizationLevel::Extreme) => "extreme",
        }
    }

    fn gen_override(rng: &mut Rng, allow_noop: bool) -> Option<InlineMode> {
        match rng.below(if allow_noop { 5 } else { 4 }) {
            0 => None,
            1 => Some(InlineMode::Simple),
            2 => Some(InlineMode::DepthOptimized(DepthOptimizationLevel::Default)),
            3 => Some(InlineMode::DepthOptimized(DepthOptimizationLevel::Extreme)),
            _ => Some(InlineMode::Noop),
        }
    }

    fn strategy(kind: Kind, mode: &InlineMode) -> &'static str {
        match mode {
            InlineMode::Noop => "noop",
            InlineMode::Simple => "simple",
            InlineMode::DepthOptimized(_) => match kind {
                Kind::Empty => "empty_state",
                Kind::Assoc => "associative",
                Kind::OneBit => "one_bit_state",
                Kind::SmallState => "small_state",
                Kind::General => "simple_fallback",
            },
        }
    }

    fn show_inputs(inputs: &[Value], types: &[Type]) -> String {
        let mut s = String::new();
        for (i, (v, t)) in inputs.iter().zip(types.iter()).enumerate() {
            let mut l = vec![];
            leaves(v, t, "", &mut l);
            let xs: Vec<String> = l.iter().map(|(_, x)| x.to_string()).collect();
            s.push_str(&format!("in{}:{}=[{}] ", i, t, xs.join(",")));
        }
        trunc(&s, 1500)
    }

    fn one_context(run: &mut Run, stream: &str, idx: &str, force: &Force) {
        let t0 = std::time::Instant::now();
        one_context_inner(run, stream, idx, force);
        if std::env::var("C07_E2E_TIMING").is_ok() {
            eprintln!("{:.3} e2e-{}-{}", t0.elapsed().as_secs_f64(), stream, idx);
        }
    }

    fn one_context_inner(run: &mut Run, stream: &str, idx: &str, force: &Force) {
        let stream_name = format!("e2e-{}-{}", stream, idx);
        let mut rng = run.rng(&stream_name);
        let built = match catch(|| build_context(stream, &mut rng, force)) {
            Ok(Ok(b)) => b,
            Ok(Err(e)) => {
                // a generator problem (or a graph-construction error), not an inlining failure
                run.count(&format!("e2e:build_err:{}", stream));
                if run.notes.len() < 12 {
                    run.notes.push(format!("e2e build error in {}: {}", stream_name, trunc(&format!("{}", e), 300)));
                }
                return;
            }
            Err(p) => {
                run.oracle_fail("C07:panic:build_context", format!("stream {} panicked while building: {}", stream_name, p));
                return;
            }
        };
        let ctx_descr = format!("rng={} kind={} {}", stream_name, built.label, built.descr);
        for t in built.tags.iter() {
            run.count(&format!("e2e:body:{}", t));
        }
        if std::env::var("C07_E2E_TIMING").is_ok() {
            eprintln!("      {}", ctx_descr);
        }
        let out_t = match catch(|| built.ctx.get_main_graph().and_then(|g| g.get_output_node()).and_then(|n| n.get_type())) {
            Ok(Ok(t)) => t,
            _ => {
                run.count("e2e:build_err:output_type");
                return;
            }
        };
        // inputs and reference results (native Call/Iterate)
        let n_inputs = 2 + rng.below(2) as usize;
        let mut inputs = vec![];
        let mut refs = vec![];
        if !built.has_random {
            for _ in 0..n_inputs {
                let vals: Vec<Value> = built.in_types.iter().map(|t| rand_value(&mut rng, t)).collect();
                match catch(|| evaluate(&built.ctx, vals.clone())) {
                    Ok(Ok(r)) => {
                        inputs.push(vals);
                        refs.push(r);
                    }
                    Ok(Err(e)) => {
                        run.count(&format!("e2e:reference_err:{}", stream));
                        if run.notes.len() < 12 {
                            run.notes.push(format!("e2e reference evaluation error in {}: {}", ctx_descr, trunc(&format!("{}", e), 300)));
                        }
                        return;
                    }
                    Err(p) => {
                        run.oracle_fail("C07:panic:reference_evaluation", format!("{} panicked: {}", ctx_descr, p));
                        return;
                    }
                }
            }
        }
        let ovr_chance = if stream == "call" || stream == "nested" { 2 } else { 3 };
        for default_mode in [
            InlineMode::Simple,
            InlineMode::DepthOptimized(DepthOptimizationLevel::Default),
            InlineMode::DepthOptimized(DepthOptimizationLevel::Extreme),
        ] {
            let with_ovr = rng.chance(1, ovr_chance);
            let (oc, oi) = if with_ovr {
                (gen_override(&mut rng, !built.has_random), gen_override(&mut rng, !built.has_random))
            } else {
                (None, None)
            };
            let has_noop = oc == Some(InlineMode::Noop) || oi == Some(InlineMode::Noop);
            let config = InlineConfig { default_mode: default_mode.clone(), override_call_mode: oc.clone(), override_iterate_mode: oi.clone() };
            let mode = format!("{}{}", mode_name(&default_mode), if with_ovr { "_ovr" } else { "" });
            let cfg_descr = format!(
                "config={{default={} call={} iterate={}}}",
                mode_name(&default_mode),
                oc.as_ref().map(mode_name).unwrap_or("-"),
                oi.as_ref().map(mode_name).unwrap_or("-")
            );
            let eff_iter = oi.clone().unwrap_or(default_mode.clone());
            for (k, n) in built.iters.iter() {
                run.count(&format!("e2e:strategy:{}:len{}", strategy(*k, &eff_iter), len_bucket(*n)));
            }
            run.count(&format!("e2e:{}:{}:len{}", built.label, mode, len_bucket(built.n)));
            if built.has_random {
                run.count(&format!("e2e:random_stream:{}:{}", built.label, mode));
            }
            let inlined = match catch(|| inline_operations(&built.ctx, config.clone())) {
                Err(p) => {
                    run.oracle_case(&format!("{} {}", ctx_descr, cfg_descr), built.nontrivial);
                    run.oracle_fail("C07:panic:inline_operations", format!("{} {} panicked: {}", ctx_descr, cfg_descr, p));
                    continue;
                }
                Ok(Err(e)) => {
                    run.oracle_case(&format!("{} {}", ctx_descr, cfg_descr), built.nontrivial);
                    run.oracle_fail(
                        &format!("C07:e2e:err:{}:{}", built.label, mode),
                        format!("{} {} inline_operations returned Err: {}", ctx_descr, cfg_descr, trunc(&format!("{}", e), 400)),
                    );
                    continue;
                }
                Ok(Ok(m)) => m.get_context(),
            };
            // structure: one graph, no Call/Iterate left
            let structure = catch(|| -> Result<(usize, u64, u64, u64, u64, u64)> {
                let graphs = inlined.get_graphs();
                let mut calls = 0;
                let mut n_call = 0;
                let mut n_iter = 0;
                let mut randoms_main = 0;
                let mut total_nodes = 0;
                let main = inlined.get_main_graph()?;
                for g in graphs.iter() {
                    for node in g.get_nodes() {
                        total_nodes += 1;
                        match node.get_operation() {
                            Operation::Call => {
                                calls += 1;
                                n_call += 1
                            }
                            Operation::Iterate => {
                                calls += 1;
                                n_iter += 1
                            }
                            Operation::Random(_) if g == &main => randoms_main += 1,
                            _ => {}
                        }
                        if !node.get_graph_dependencies().is_empty() && !matches!(node.get_operation(), Operation::Call | Operation::Iterate) {
                            calls += 1;
                        }
                    }
                }
                Ok((graphs.len(), calls, randoms_main, total_nodes, n_call, n_iter))
            });
            match structure {
                Ok(Ok((ngraphs, calls, randoms_main, total_nodes, n_call, n_iter))) => {
                    // with a Noop override for one operation the other one must still be gone everywhere
                    // (kept graphs are processed with the same config)
                    let eff_call = oc.clone().unwrap_or(default_mode.clone());
                    if has_noop && ((eff_call != InlineMode::Noop && n_call != 0) || (eff_iter != InlineMode::Noop && n_iter != 0)) {
                        run.oracle_fail(
                            &format!("C07:e2e:leftover:{}:{}", built.label, mode),
                            format!("{} {}: {} Call and {} Iterate nodes left in the inlined context", ctx_descr, cfg_descr, n_call, n_iter),
                        );
                    }
                    run.count_n(&format!("e2e:inlined_nodes:{}", built.label), total_nodes);
                    if !has_noop && (ngraphs != 1 || calls != 0) {
                        run.oracle_fail(
                            &format!("C07:e2e:leftover:{}:{}", built.label, mode),
                            format!("{} {}: inlined context has {} graphs and {} Call/Iterate nodes", ctx_descr, cfg_descr, ngraphs, calls),
                        );
                    }
                    if has_noop {
                        run.count("e2e:with_noop_override");
                    }
                    if built.has_random {
                        // only the number of copies is checked (evaluation consumes the PRNG in another order)
                        run.oracle_case(&format!("{} {} random-copies", ctx_descr, cfg_descr), built.nontrivial);
                        let want = catch(|| built.ctx.get_main_graph().map(|g| expected_random(&g)));
                        match want {
                            Ok(Ok(want)) => {
                                if want != randoms_main {
                                    run.oracle_fail(
                                        &format!("C07:random_copies:{}:{}", built.label, mode),
                                        format!("{} {}: {} Random nodes after inlining, expected {}", ctx_descr, cfg_descr, randoms_main, want),
                                    );
                                }
                                if want > 0 {
                                    run.count("e2e:random_copies:checked_nonzero");
                                }
                            }
                            _ => run.oracle_fail("C07:panic:expected_random", ctx_descr.clone()),
                        }
                        // the inlined graph must still evaluate
                        let vals: Vec<Value> = built.in_types.iter().map(|t| rand_value(&mut rng, t)).collect();
                        match catch(|| evaluate(&inlined, vals.clone())) {
                            Ok(Ok(v)) => {
                                if !v.check_type(out_t.clone()).unwrap_or(false) {
                                    run.oracle_fail(
                                        &format!("C07:e2e:{}:{}", built.label, mode),
                                        format!("{} {}: inlined random graph returns a value not of type {}", ctx_descr, cfg_descr, out_t),
                                    );
                                }
                            }
                            Ok(Err(e)) => run.oracle_fail(
                                &format!("C07:e2e:err:{}:{}", built.label, mode),
                                format!("{} {}: inlined graph fails to evaluate: {}", ctx_descr, cfg_descr, trunc(&format!("{}", e), 300)),
                            ),
                            Err(p) => run.oracle_fail("C07:panic:inlined_evaluation", format!("{} {} panicked: {}", ctx_descr, cfg_descr, p)),
                        }
                        continue;
                    }
                }
                _ => {
                    run.oracle_fail("C07:panic:inlined_structure", format!("{} {}", ctx_descr, cfg_descr));
                    continue;
                }
            }
            for (i, vals) in inputs.iter().enumerate() {
                let descr = format!("{} {} input#{}", ctx_descr, cfg_descr, i);
                run.oracle_case(&descr, built.nontrivial);
                match catch(|| evaluate(&inlined, vals.clone())) {
                    Ok(Ok(got)) => {
                        if got != refs[i] {
                            run.oracle_fail(
                                &format!("C07:e2e:{}:{}", built.label, mode),
                                format!("{}: {}; inputs {}", descr, first_diff(&refs[i], &got, &out_t), show_inputs(vals, &built.in_types)),
                            );
                        }
                    }
                    Ok(Err(e)) => run.oracle_fail(
                        &format!("C07:e2e:err:{}:{}", built.label, mode),
                        format!("{}: inlined graph fails to evaluate: {}; inputs {}", descr, trunc(&format!("{}", e), 300), show_inputs(vals, &built.in_types)),
                    ),
                    Err(p) => run.oracle_fail("C07:panic:inlined_evaluation", format!("{} panicked: {}", descr, p)),
                }
            }
        }
    }

    pub fn e2e(run: &mut Run) {
        run.notes.push(
            "e2e stream: contexts whose main graph applies Iterate (vector length 0..=40, extra weight on 0,1,2,14..18 and \
             non-powers of two; vector built from an Input vector, create_vector of inputs, array_to_vector or repeat) \
             and/or Call to generated body graphs of kinds empty-state, associative (matmul, affine composition, \
             left/right projection, add, multiply), OneBitState, SmallState (K=1..4, batch shapes [],[1],[2],[3],[5],[2,1],[2,3]), \
             general state, nested (Call chains / inner Iterate inside bodies) and call (Iterate behind Call layers, a graph \
             called twice, a body used both by Call and Iterate, pure Call chains); every body satisfies the contract of its \
             annotation. Each context is inlined with default modes Simple, DepthOptimized(Default), DepthOptimized(Extreme) \
             (random per-operation overrides incl. Noop with probability 1/3, 1/2 for nested/call) and evaluated on 2-3 random \
             inputs; the result must equal the SimpleEvaluator result of the original context (native Call/Iterate), and \
             without Noop the inlined context must have one graph and no Call/Iterate. Bodies with Random nodes are only \
             checked for the number of Random copies. Non-trivial: vector length >= 2 (pure Call chains: always, they have \
             >= 2 nested call sites); distinct by context description + config + input index."
                .to_owned(),
        );
        let t_all = std::time::Instant::now();
        // random contexts per stream: (quick, thorough)
        let streams: [(&str, usize, usize); 9] = [
            ("named", 8, 24),
            ("empty", 100, 800),
            ("assoc", 300, 2500),
            ("onebit", 200, 1600),
            ("smallstate", 60, 800),
            ("general", 100, 800),
            ("nested", 200, 1500),
            ("call", 150, 1200),
            ("random", 80, 600),
        ];
        for (stream, q, t) in streams {
            let count = run.tier.scale(q, t);
            let t0 = std::time::Instant::now();
            for idx in 0..count {
                one_context(run, stream, &idx.to_string(), &Force::default());
            }
            run.extra.insert(format!("e2e_seconds_{}", stream), serde_json::json!(t0.elapsed().as_secs_f64()));
        }
        // boundary grid: every stream at the lengths where the algorithms switch; OneBitState / SmallState
        // at every state-shape class (scalar bit, [1], [m,1], [K] without batch, batched)
        let t0 = std::time::Instant::now();
        let reps = run.tier.scale(1, 4);
        for stream in ["empty", "assoc", "general", "nested", "call"] {
            for n in [0u64, 1, 2, 14, 15, 16, 17, 18] {
                for r in 0..reps * 2 {
                    let f = Force { n: Some(n), ..Default::default() };
                    one_context(run, stream, &format!("grid-n{}-{}", n, r), &f);
                }
            }
        }
        for shape in [vec![], vec![1], vec![4], vec![3, 1], vec![2, 3]] {
            for n in [0u64, 1, 2, 15, 16, 17] {
                for r in 0..reps {
                    let f = Force { n: Some(n), onebit_shape: Some(shape.clone()), ..Default::default() };
                    one_context(run, "onebit", &format!("grid-{:?}-n{}-{}", shape, n, r), &f);
                }
            }
        }
        let ss: [(u64, Vec<u64>); 9] = [
            (1, vec![]),
            (1, vec![3]),
            (1, vec![1]),
            (2, vec![]),
            (3, vec![]),
            (4, vec![]),
            (4, vec![2]),
            (2, vec![2, 3]),
            (3, vec![1]),
        ];
        for (k, batch) in ss.iter() {
            for n in [0u64, 1, 2, 15, 16, 17] {
                for r in 0..reps {
                    let f = Force { n: Some(n), k: Some(*k), batch: Some(batch.clone()), ..Default::default() };
                    one_context(run, "smallstate", &format!("grid-K{}-{:?}-n{}-{}", k, batch, n, r), &f);
                }
            }
        }
        run.extra.insert("e2e_seconds_grid".into(), serde_json::json!(t0.elapsed().as_secs_f64()));
        run.extra.insert("e2e_seconds_total".into(), serde_json::json!(t_all.elapsed().as_secs_f64()));
    }
}
