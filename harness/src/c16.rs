//! C16 — comparison operations equal integer comparison (ops/comparisons.rs, min_max.rs, multiplexer.rs).
//! One-op graphs with the real custom operations on bit arrays `[.., w]`, instantiated
//! (`run_instantiation_pass`), inlined (`inline_operations`) and evaluated with the simple evaluator.
//! Streams: X exhaustive operand pairs for small widths (through a broadcast `[N,1,w] × [N,w]`),
//! R random + boundary operands for every width 1..128 with random broadcastable shapes,
//! M structural fingerprint (Multiply nodes per width), E malformed (rejections),
//! A whole arrays (random broadcastable shapes of rank 1..4) against the array-level model
//! (`CCV.Model.CompareArr`: expand_to_same_dims / pull_out_bits / broadcast / normalize_cmp / Mux).
use crate::util::*;
use ciphercore_base::custom_ops::{run_instantiation_pass, CustomOperation};
use ciphercore_base::data_types::*;
use ciphercore_base::data_values::Value;
use ciphercore_base::errors::Result;
use ciphercore_base::evaluators::random_evaluate;
use ciphercore_base::graphs::{create_context, Graph, Operation};
use ciphercore_base::inline::inline_ops::{inline_operations, InlineConfig, InlineMode};
use ciphercore_base::ops::comparisons::*;
use ciphercore_base::ops::min_max::{Max, Min};

#[derive(Clone, Copy, PartialEq, Eq, Debug)]
enum Kind {
    Eq,
    Ne,
    Lt,
    Gt,
    Le,
    Ge,
    Min,
    Max,
}

impl Kind {
    fn name(self) -> &'static str {
        match self {
            Kind::Eq => "eq",
            Kind::Ne => "ne",
            Kind::Lt => "lt",
            Kind::Gt => "gt",
            Kind::Le => "le",
            Kind::Ge => "ge",
            Kind::Min => "min",
            Kind::Max => "max",
        }
    }
    fn is_cmp(self) -> bool {
        !matches!(self, Kind::Min | Kind::Max)
    }
}

/// the 14 operation configurations (Equal / NotEqual have no signed mode)
fn configs() -> Vec<(Kind, bool)> {
    let mut v = vec![(Kind::Eq, false), (Kind::Ne, false)];
    for k in [Kind::Lt, Kind::Gt, Kind::Le, Kind::Ge, Kind::Min, Kind::Max] {
        v.push((k, false));
        v.push((k, true));
    }
    v
}

fn custom(kind: Kind, signed: bool) -> CustomOperation {
    let signed_comparison = signed;
    match kind {
        Kind::Eq => CustomOperation::new(Equal {}),
        Kind::Ne => CustomOperation::new(NotEqual {}),
        Kind::Lt => CustomOperation::new(LessThan { signed_comparison }),
        Kind::Gt => CustomOperation::new(GreaterThan { signed_comparison }),
        Kind::Le => CustomOperation::new(LessThanEqualTo { signed_comparison }),
        Kind::Ge => CustomOperation::new(GreaterThanEqualTo { signed_comparison }),
        Kind::Min => CustomOperation::new(Min { signed_comparison }),
        Kind::Max => CustomOperation::new(Max { signed_comparison }),
    }
}

struct Built {
    /// main graph after instantiation only (Call nodes)
    instantiated: Graph,
    /// main graph after instantiation + inlining
    inlined: Graph,
    /// graphs hold weak references to their contexts: keep the contexts alive
    _keep: Vec<ciphercore_base::graphs::Context>,
}

fn build(kind: Kind, signed: bool, ta: Type, tb: Type) -> Result<Built> {
    let c = create_context()?;
    let g = c.create_graph()?;
    let i_a = g.input(ta)?;
    let i_b = g.input(tb)?;
    let o = g.custom_op(custom(kind, signed), vec![i_a, i_b])?;
    g.set_output_node(o)?;
    g.finalize()?;
    c.set_main_graph(g.clone())?;
    c.finalize()?;
    let mapped = run_instantiation_pass(c)?;
    let ictx = mapped.get_context();
    let instantiated = ictx.get_main_graph()?;
    let nctx = inline_operations(&ictx, InlineConfig { default_mode: InlineMode::Simple, ..Default::default() })?.get_context();
    let inlined = nctx.get_main_graph()?;
    Ok(Built { instantiated, inlined, _keep: vec![ictx, nctx] })
}

fn mask(w: u32) -> u128 {
    if w >= 128 {
        u128::MAX
    } else {
        (1u128 << w) - 1
    }
}

/// two's-complement value of the `w` low bits of `x`
fn sext(w: u32, x: u128) -> i128 {
    ((x << (128 - w)) as i128) >> (128 - w)
}

/// the property's oracle: native integer comparison / min / max; result as the encoded natural
fn oracle(kind: Kind, signed: bool, w: u32, a: u128, b: u128) -> u128 {
    let ord = if signed { sext(w, a).cmp(&sext(w, b)) } else { a.cmp(&b) };
    use std::cmp::Ordering::*;
    match kind {
        Kind::Eq => (ord == Equal) as u128,
        Kind::Ne => (ord != Equal) as u128,
        Kind::Lt => (ord == Less) as u128,
        Kind::Gt => (ord == Greater) as u128,
        Kind::Le => (ord != Greater) as u128,
        Kind::Ge => (ord != Less) as u128,
        Kind::Min => {
            if ord == Greater {
                b
            } else {
                a
            }
        }
        Kind::Max => {
            if ord == Less {
                b
            } else {
                a
            }
        }
    }
}

fn bits_of(vals: &[u128], w: u32) -> Vec<u8> {
    let mut v = Vec::with_capacity(vals.len() * w as usize);
    for x in vals {
        for i in 0..w {
            v.push(((x >> i) & 1) as u8);
        }
    }
    v
}

/// numpy broadcasting of the leading (non-bit) dimensions, computed here independently
fn bshape(a: &[u64], b: &[u64]) -> Vec<u64> {
    let r = a.len().max(b.len());
    let mut out = vec![];
    for i in 0..r {
        let da = if i + a.len() >= r { a[i + a.len() - r] } else { 1 };
        let db = if i + b.len() >= r { b[i + b.len() - r] } else { 1 };
        out.push(da.max(db));
    }
    out
}

/// flat index into an operand with leading dims `dims` of the element that the result multi-index
/// `idx` (over `res` dims) reads
fn src_index(idx: &[u64], dims: &[u64]) -> usize {
    let off = idx.len() - dims.len();
    let mut flat = 0u64;
    for (j, d) in dims.iter().enumerate() {
        let i = if *d == 1 { 0 } else { idx[off + j] };
        flat = flat * d + i;
    }
    flat as usize
}

/// Evaluate the one-op graph on operand arrays with leading dims `da`, `db` and width `w`;
/// returns, per element of the broadcast result (row-major), `(a, b, result)`.
fn eval_pairs(
    built: &Built,
    use_inlined: bool,
    kind: Kind,
    w: u32,
    da: &[u64],
    db: &[u64],
    va: &[u128],
    vb: &[u128],
) -> Result<Vec<(u128, u128, u128)>> {
    let v_a = Value::from_flattened_array(&bits_of(va, w), BIT)?;
    let v_b = Value::from_flattened_array(&bits_of(vb, w), BIT)?;
    let g = if use_inlined { built.inlined.clone() } else { built.instantiated.clone() };
    let out = random_evaluate(g, vec![v_a, v_b])?;
    let res = bshape(da, db);
    let n: u64 = res.iter().product();
    let flat: Vec<u128> = if kind.is_cmp() {
        if res.is_empty() {
            vec![out.to_u8(BIT)? as u128]
        } else {
            out.to_flattened_array_u64(array_type(res.clone(), BIT))?.into_iter().map(|x| x as u128).collect()
        }
    } else {
        let mut s = res.clone();
        s.push(w as u64);
        let bits = out.to_flattened_array_u64(array_type(s, BIT))?;
        bits.chunks(w as usize)
            .map(|c| c.iter().enumerate().fold(0u128, |acc, (i, b)| acc | ((*b as u128) << i)))
            .collect()
    };
    if flat.len() as u64 != n {
        panic!("unexpected result size {} want {}", flat.len(), n);
    }
    let mut outv = Vec::with_capacity(n as usize);
    let mut idx = vec![0u64; res.len()];
    for k in 0..n as usize {
        let a = va[src_index(&idx, da)];
        let b = vb[src_index(&idx, db)];
        outv.push((a, b, flat[k]));
        for j in (0..res.len()).rev() {
            idx[j] += 1;
            if idx[j] < res[j] {
                break;
            }
            idx[j] = 0;
        }
    }
    Ok(outv)
}

fn req(kind: Kind, signed: bool, w: u32, a: u128, b: u128) -> String {
    if kind.is_cmp() {
        format!("cmp {} {} {} {} {}", kind.name(), signed as u8, w, a, b)
    } else {
        format!("{} {} {} {} {}", kind.name(), signed as u8, w, a, b)
    }
}

/// boundary-biased `w`-bit operand
fn gen_val(rng: &mut Rng, w: u32) -> u128 {
    let m = mask(w);
    let top = 1u128 << (w - 1);
    let v = match rng.below(12) {
        0 => 0,
        1 => 1,
        2 => m,
        3 => m.wrapping_sub(1),
        4 => top,
        5 => top.wrapping_sub(1),
        6 => top.wrapping_add(1),
        7 => {
            let k = rng.below(w as u64) as u32;
            (1u128 << k).wrapping_add(rng.below(3) as u128).wrapping_sub(1)
        }
        8 => {
            // only some low bits set: equal high parts
            let k = rng.below(w as u64) as u32 + 1;
            rng.next128() & mask(k)
        }
        9 => {
            // only some high bits set
            let k = rng.below(w as u64) as u32;
            rng.next128() & !mask(k)
        }
        _ => rng.next128(),
    };
    v & m
}

fn classify(signed: bool, w: u32, a: u128, b: u128) -> &'static str {
    let m = mask(w);
    if a == b {
        "equal"
    } else if a.wrapping_add(1) & m == b || b.wrapping_add(1) & m == a {
        "adjacent"
    } else if signed && (a >> (w - 1)) != (b >> (w - 1)) {
        "signs-differ"
    } else if (a ^ b) >> (w - 1) == 1 {
        "msb-differs"
    } else {
        "other"
    }
}

/// record one evaluated batch: model cases + oracle checks
fn record(run: &mut Run, stream: &str, kind: Kind, signed: bool, w: u32, shapes: &str, rows: &[(u128, u128, u128)]) {
    for &(a, b, r) in rows {
        run.case(req(kind, signed, w, a, b), r.to_string(), true);
        run.oracle_case(&format!("{} {} {}", stream, req(kind, signed, w, a, b), shapes), true);
        run.count(&format!("{}:pair:{}", stream, classify(signed, w, a, b)));
        let want = oracle(kind, signed, w, a, b);
        if r != want {
            run.oracle_fail(
                &format!("C16:wrong:{}:{}", kind.name(), if signed { "signed" } else { "unsigned" }),
                format!("{} shapes {} gives {} want {}", req(kind, signed, w, a, b), shapes, r, want),
            );
        }
    }
}

fn with_w(dims: &[u64], w: u32) -> Vec<u64> {
    let mut s = dims.to_vec();
    s.push(w as u64);
    s
}

fn run_batch(
    run: &mut Run,
    stream: &str,
    kind: Kind,
    signed: bool,
    w: u32,
    da: &[u64],
    db: &[u64],
    va: &[u128],
    vb: &[u128],
    also_uninlined: bool,
) {
    let shapes = format!("{:?}x{:?}", with_w(da, w), with_w(db, w));
    let ta = array_type(with_w(da, w), BIT);
    let tb = array_type(with_w(db, w), BIT);
    let built = match catch(|| build(kind, signed, ta, tb)) {
        Err(p) => {
            run.oracle_fail("C16:panic:build", format!("{} {} w={} {}: {}", kind.name(), signed, w, shapes, p));
            return;
        }
        Ok(Err(e)) => {
            run.oracle_fail(
                "C16:reject:valid-input",
                format!("{} signed={} w={} {} rejected: {}", kind.name(), signed, w, shapes, trunc(&format!("{}", e), 200)),
            );
            return;
        }
        Ok(Ok(b)) => b,
    };
    let rows = match catch(|| eval_pairs(&built, true, kind, w, da, db, va, vb)) {
        Err(p) => {
            run.oracle_fail("C16:panic:evaluate", format!("{} {} w={} {}: {}", kind.name(), signed, w, shapes, p));
            return;
        }
        Ok(Err(e)) => {
            run.oracle_fail(
                "C16:error:evaluate",
                format!("{} signed={} w={} {}: {}", kind.name(), signed, w, shapes, trunc(&format!("{}", e), 200)),
            );
            return;
        }
        Ok(Ok(r)) => r,
    };
    run.count(&format!("{}:op:{}:{}", stream, kind.name(), if signed { "signed" } else { "unsigned" }));
    record(run, stream, kind, signed, w, &shapes, &rows);
    if also_uninlined {
        match catch(|| eval_pairs(&built, false, kind, w, da, db, va, vb)) {
            Ok(Ok(r2)) => {
                run.oracle_case(&format!("uninlined {} {} {} {}", kind.name(), signed, w, shapes), true);
                if r2 != rows {
                    run.oracle_fail("C16:inline-differs", format!("{} signed={} w={} {}", kind.name(), signed, w, shapes));
                }
            }
            _ => run.oracle_fail("C16:error:evaluate-uninlined", format!("{} signed={} w={} {}", kind.name(), signed, w, shapes)),
        }
    }
}

/// random leading dims of two broadcastable operands (ranks 0..3, dims 1..3)
fn gen_dims(rng: &mut Rng) -> (Vec<u64>, Vec<u64>) {
    let r = rng.below(4) as usize;
    let full: Vec<u64> = (0..r).map(|_| 1 + rng.below(3)).collect();
    let mut mk = |rng: &mut Rng| -> Vec<u64> {
        let drop = rng.below(r as u64 + 1) as usize;
        let drop = if rng.chance(1, 2) { 0 } else { drop };
        full[drop..].iter().map(|d| if rng.chance(1, 4) { 1 } else { *d }).collect()
    };
    let a = mk(rng);
    let b = mk(rng);
    (a, b)
}

fn shape_str(s: &[u64]) -> String {
    if s.is_empty() {
        "_".to_owned()
    } else {
        s.iter().map(|d| d.to_string()).collect::<Vec<_>>().join(",")
    }
}

fn bits_str(b: &[u8]) -> String {
    b.iter().map(|x| if *x == 0 { '0' } else { '1' }).collect()
}

/// leading dims of two operands for stream A: ranks 0..3 (array ranks 1..4), dims 1..4, size-1 axes,
/// a rank-1 operand (no leading dims) with probability ~1/4 on either side
fn gen_dims_a(rng: &mut Rng) -> (Vec<u64>, Vec<u64>) {
    let r = if rng.chance(1, 12) { 0 } else { 1 + rng.below(3) as usize };
    let full: Vec<u64> = (0..r).map(|_| if rng.chance(1, 5) { 1 } else { 1 + rng.below(4) }).collect();
    let mk = |rng: &mut Rng| -> Vec<u64> {
        let drop = match rng.below(8) {
            0 | 1 => r,
            2 | 3 => rng.below(r as u64 + 1) as usize,
            _ => 0,
        };
        full[drop..].iter().map(|d| if rng.chance(1, 4) { 1 } else { *d }).collect()
    };
    let a = mk(rng);
    let b = mk(rng);
    (a, b)
}

/// stream A, one case: whole operand arrays to the array-level model; the implementation's answer is
/// the type and value of the output of the instantiated graph (and of the inlined one: must agree)
fn run_array_case(run: &mut Run, kind: Kind, signed: bool, sa: &[u64], sb: &[u64], xa: &[u8], xb: &[u8], expect_ok: bool) {
    let request = format!(
        "arr {} {} {} {} {} {}",
        kind.name(),
        signed as u8,
        shape_str(sa),
        bits_str(xa),
        shape_str(sb),
        bits_str(xb)
    );
    let descr = format!("A {} {} {:?}x{:?}", kind.name(), signed, sa, sb);
    let ta = array_type(sa.to_vec(), BIT);
    let tb = array_type(sb.to_vec(), BIT);
    let built = match catch(|| build(kind, signed, ta, tb)) {
        Err(p) => {
            run.oracle_fail("C16:panic:build", format!("{}: {}", descr, p));
            return;
        }
        Ok(Err(e)) => {
            run.case(request, "ERR".to_owned(), false);
            run.oracle_case(&descr, false);
            run.count("A:rejected");
            if expect_ok {
                run.oracle_fail("C16:reject:valid-input", format!("{} rejected: {}", descr, trunc(&format!("{}", e), 200)));
            }
            return;
        }
        Ok(Ok(b)) => b,
    };
    if !expect_ok {
        run.oracle_fail("C16:accepts:malformed", descr.clone());
        return;
    }
    let eval = |g: Graph| -> Result<(Vec<u64>, Vec<u8>)> {
        let t = g.get_output_node()?.get_type()?;
        let v_a = Value::from_flattened_array(xa, BIT)?;
        let v_b = Value::from_flattened_array(xb, BIT)?;
        let out = random_evaluate(g, vec![v_a, v_b])?;
        if t.is_scalar() {
            Ok((vec![], vec![out.to_u8(BIT)?]))
        } else {
            let bits = out.to_flattened_array_u64(t.clone())?.into_iter().map(|x| x as u8).collect();
            Ok((t.get_shape(), bits))
        }
    };
    let (rshape, rbits) = match catch(|| eval(built.instantiated.clone())) {
        Ok(Ok(r)) => r,
        Ok(Err(e)) => {
            run.oracle_fail("C16:error:evaluate", format!("{}: {}", descr, trunc(&format!("{}", e), 200)));
            return;
        }
        Err(p) => {
            run.oracle_fail("C16:panic:evaluate", format!("{}: {}", descr, p));
            return;
        }
    };
    let answer = format!("{} {}", shape_str(&rshape), bits_str(&rbits));
    run.case(request.clone(), answer, true);
    run.oracle_case(&descr, true);
    run.count(&format!("A:op:{}:{}", kind.name(), if signed { "signed" } else { "unsigned" }));
    run.count(&format!("A:rank:{}x{}", sa.len(), sb.len()));
    if sa.len() != sb.len() {
        run.count("A:rank-differs");
    }
    if sa.len() == 1 || sb.len() == 1 {
        run.count("A:rank1-operand");
    }
    let w = *sa.last().unwrap() as usize;
    let (da, db) = (&sa[..sa.len() - 1], &sb[..sb.len() - 1]);
    if da != db {
        run.count("A:shapes-differ");
    }
    // the property's oracle: shape = numpy broadcast of the leading dims (+ [w] for min/max);
    // element = native comparison of the two bit strings at the broadcast positions
    let res = bshape(da, db);
    let mut want_shape = res.clone();
    if !kind.is_cmp() {
        want_shape.push(w as u64);
    }
    if rshape != want_shape {
        run.oracle_fail("C16:array:shape", format!("{} gives shape {:?} want {:?}", request, rshape, want_shape));
        return;
    }
    let val = |bits: &[u8], k: usize| -> u128 { (0..w).fold(0u128, |acc, i| acc | ((bits[k * w + i] as u128) << i)) };
    let n: u64 = res.iter().product();
    let mut idx = vec![0u64; res.len()];
    for k in 0..n as usize {
        let a = val(xa, src_index(&idx, da));
        let b = val(xb, src_index(&idx, db));
        let want = oracle(kind, signed, w as u32, a, b);
        let got = if kind.is_cmp() { rbits[k] as u128 } else { val(&rbits, k) };
        if got != want {
            run.oracle_fail(
                &format!("C16:array:wrong:{}:{}", kind.name(), if signed { "signed" } else { "unsigned" }),
                format!("{} element {:?} (a={} b={}) gives {} want {}", request, idx, a, b, got, want),
            );
            break;
        }
        for j in (0..res.len()).rev() {
            idx[j] += 1;
            if idx[j] < res[j] {
                break;
            }
            idx[j] = 0;
        }
    }
    // the inlined graph must give the same value
    match catch(|| eval(built.inlined.clone())) {
        Ok(Ok(r2)) => {
            if r2 != (rshape, rbits) {
                run.oracle_fail("C16:inline-differs", descr);
            }
        }
        _ => run.oracle_fail("C16:error:evaluate-inlined", descr),
    }
}

pub fn corr(run: &mut Run) {
    run.rule = "stream X: every operand pair of widths 1..5 (quick) / 1..7 (thorough) for the 14 operation configurations \
                (Equal, NotEqual; LessThan, GreaterThan, LessThanEqualTo, GreaterThanEqualTo, Min, Max × unsigned/signed), \
                evaluated in one broadcast [2^w,1,w]×[2^w,w] (or transposed) graph; stream R: every width 1..128 × 14 \
                configurations × random broadcastable shapes (ranks 1..4, dims 1..3), operands boundary-biased and drawn from a \
                small pool so that equal / adjacent / sign-boundary pairs are frequent; stream M: number of Multiply nodes of \
                the instantiated+inlined graph per width and operation; stream A: whole operand arrays (random bits, strings of b \
                often copies of strings of a with one bit changed) of random broadcastable shapes (array rank 1..4, dims 1..4, \
                size-1 axes, rank-1 operands, 1/12 malformed: not broadcastable / unequal widths / signed 1-bit) sent to the \
                array-level model, answer = type and value of the output of the instantiated graph; stream E: rejected inputs (signed 1-bit, unequal \
                widths, non-bit arrays, scalars). Graphs are built with the real custom operations, instantiated, inlined and \
                run by the simple evaluator. Non-trivial: a real operand pair was compared (all of X and R); distinct by request text."
        .to_owned();
    let cfgs = configs();

    // ---------------------------------------------------------------- X: exhaustive small widths
    let wmax = run.tier.scale(5, 7) as u32;
    for w in 1..=wmax {
        let n = 1u64 << w;
        let all: Vec<u128> = (0..n as u128).collect();
        for (ci, &(kind, signed)) in cfgs.iter().enumerate() {
            if signed && w < 2 {
                continue;
            }
            let (da, db): (Vec<u64>, Vec<u64>) = if (w as usize + ci) % 2 == 0 { (vec![n, 1], vec![n]) } else { (vec![n], vec![n, 1]) };
            run_batch(run, "X", kind, signed, w, &da, &db, &all, &all, w <= 3);
        }
    }

    // ---------------------------------------------------------------- R: random + boundary, all widths
    let mut rng = run.rng("R");
    let reps = run.tier.scale(3, 12);
    for w in 1..=128u32 {
        for &(kind, signed) in cfgs.iter() {
            if signed && w < 2 {
                continue;
            }
            for rep in 0..reps {
                let (da, db) = if rep == 0 && rng.chance(1, 3) { (vec![], vec![]) } else { gen_dims(&mut rng) };
                let na: u64 = da.iter().product();
                let nb: u64 = db.iter().product();
                let base = gen_val(&mut rng, w);
                let m = mask(w);
                let pool = [
                    base,
                    base.wrapping_add(1) & m,
                    base.wrapping_sub(1) & m,
                    base ^ (1u128 << rng.below(w as u64)),
                    base ^ (1u128 << (w - 1)),
                    gen_val(&mut rng, w),
                ];
                let mut pick = |rng: &mut Rng| if rng.chance(3, 4) { *rng.pick(&pool) } else { gen_val(rng, w) };
                let va: Vec<u128> = (0..na).map(|_| pick(&mut rng)).collect();
                let vb: Vec<u128> = (0..nb).map(|_| pick(&mut rng)).collect();
                run.count(&format!("R:rank:{}x{}", da.len() + 1, db.len() + 1));
                run_batch(run, "R", kind, signed, w, &da, &db, &va, &vb, rng.chance(1, 8));
            }
        }
    }

    // ---------------------------------------------------------------- A: whole arrays
    let mut rng = run.rng("A");
    let widths: [u64; 14] = [1, 2, 2, 3, 3, 4, 5, 7, 8, 9, 16, 31, 33, 64];
    let n_a = run.tier.scale(700, 6000);
    for i in 0..n_a {
        let &(kind, signed) = rng.pick(&cfgs);
        let mut w = *rng.pick(&widths);
        if signed && w < 2 {
            w = 2;
        }
        let (mut da, mut db) = gen_dims_a(&mut rng);
        if i % 7 == 3 {
            // all dimensions equal to the bit width (the shape is invariant under moving the bit axis):
            // [w,w] or [w,w,w] against the same shape, a single string or a row of strings
            w = *rng.pick(&[2u64, 3, 4, 5, 8]);
            let r = 1 + rng.below(2) as usize;
            da = vec![w; r];
            db = match rng.below(3) { 0 => vec![w; r], 1 => vec![], _ => vec![1] };
            if rng.chance(1, 2) {
                std::mem::swap(&mut da, &mut db);
            }
            run.count("A:all-dims-equal-width");
        }
        let mut sa = da.clone();
        sa.push(w);
        let mut sb = db.clone();
        sb.push(w);
        let mut expect_ok = true;
        if i % 12 == 11 {
            // malformed: not broadcastable / unequal widths / signed 1-bit strings
            expect_ok = false;
            match rng.below(3) {
                0 => {
                    sa = vec![2, w];
                    sb = vec![3, w];
                    if rng.chance(1, 2) {
                        sa.insert(0, 2);
                    }
                }
                1 => {
                    let l = sb.len();
                    sb[l - 1] = w + 1;
                }
                _ => {
                    if signed {
                        let (la, lb) = (sa.len(), sb.len());
                        sa[la - 1] = 1;
                        sb[lb - 1] = 1;
                    } else {
                        sa = vec![4, 1, w];
                        sb = vec![3, 2, w];
                    }
                }
            }
        }
        let na: u64 = sa.iter().product();
        let nb: u64 = sb.iter().product();
        // operands: random bits; with probability 1/2 the strings of b are copies of strings of a
        // with at most one bit changed (equal / adjacent values are frequent)
        let wa = *sa.last().unwrap() as usize;
        let xa: Vec<u8> = (0..na).map(|_| rng.below(2) as u8).collect();
        let mut xb: Vec<u8> = (0..nb).map(|_| rng.below(2) as u8).collect();
        if rng.chance(1, 2) && *sb.last().unwrap() as usize == wa {
            for k in 0..(nb as usize / wa) {
                let src = rng.below(na / wa as u64) as usize;
                for j in 0..wa {
                    xb[k * wa + j] = xa[src * wa + j];
                }
                if rng.chance(1, 2) {
                    let j = rng.below(wa as u64) as usize;
                    xb[k * wa + j] ^= 1;
                }
            }
        }
        run_array_case(run, kind, signed, &sa, &sb, &xa, &xb, expect_ok);
    }

    // ---------------------------------------------------------------- M: structural fingerprint
    let mut graph_sizes = vec![];
    for w in 1..=128u32 {
        for &(kind, signed) in cfgs.iter() {
            if signed {
                continue; // the MSB flip adds no Multiply node; signed graphs are covered by X and R
            }
            let t = array_type(vec![w as u64], BIT);
            match catch(|| build(kind, signed, t.clone(), t.clone())) {
                Ok(Ok(b)) => {
                    let mults = b.inlined.get_nodes().iter().filter(|n| matches!(n.get_operation(), Operation::Multiply)).count();
                    run.case(format!("mults {} {}", kind.name(), w), mults.to_string(), w > 1);
                    if kind == Kind::Gt {
                        graph_sizes.push(serde_json::json!([w, b.inlined.get_num_nodes(), mults]));
                    }
                    run.count("M:graphs");
                }
                Ok(Err(e)) => run.oracle_fail("C16:reject:valid-input", format!("{} w={}: {}", kind.name(), w, trunc(&format!("{}", e), 200))),
                Err(p) => run.oracle_fail("C16:panic:build", format!("{} w={}: {}", kind.name(), w, p)),
            }
        }
    }
    run.extra.insert("greater_than_graph_[w,nodes,multiplies]".into(), serde_json::Value::Array(graph_sizes.into_iter().step_by(9).collect()));

    // ---------------------------------------------------------------- E: malformed inputs
    // signed comparison of 1-bit strings: rejected by validate_signed_arguments (model answers ERR too)
    for &(kind, signed) in cfgs.iter() {
        if !signed {
            continue;
        }
        let t = array_type(vec![2, 1], BIT);
        let r = catch(|| build(kind, true, t.clone(), t.clone()));
        let ans = match &r {
            Ok(Ok(_)) => "ACCEPTED".to_owned(),
            Ok(Err(_)) => "ERR".to_owned(),
            Err(_) => "PANIC".to_owned(),
        };
        run.count(&format!("E:signed-1bit:{}", ans));
        for (a, b) in [(0u128, 1u128), (1, 1)] {
            run.case(req(kind, true, 1, a, b), ans.clone(), false);
        }
        if ans == "PANIC" {
            run.oracle_fail("C16:panic:build", format!("{} signed 1-bit", kind.name()));
        }
    }
    // inputs the operations must reject (oracle only)
    let bad: Vec<(&str, Type, Type)> = vec![
        ("unequal-widths", array_type(vec![2, 3], BIT), array_type(vec![2, 4], BIT)),
        ("non-bit", array_type(vec![4], UINT8), array_type(vec![4], UINT8)),
        ("scalar", scalar_type(BIT), array_type(vec![4], BIT)),
        ("not-broadcastable", array_type(vec![2, 4], BIT), array_type(vec![3, 4], BIT)),
    ];
    for (what, ta, tb) in bad {
        for &(kind, signed) in cfgs.iter() {
            run.oracle_case(&format!("E {} {} {}", what, kind.name(), signed), false);
            match catch(|| build(kind, signed, ta.clone(), tb.clone())) {
                Ok(Ok(_)) => run.oracle_fail("C16:accepts:malformed", format!("{} {} signed={}", what, kind.name(), signed)),
                Ok(Err(_)) => run.count(&format!("E:{}:rejected", what)),
                Err(p) => run.oracle_fail("C16:panic:build", format!("{} {} signed={}: {}", what, kind.name(), signed, p)),
            }
        }
    }
}
