//! C17 — bit-level arithmetic helpers are exact (ops/adder.rs, multiplexer.rs, clip.rs, long_division.rs).
//! One-operation graphs (`BinaryAdd{overflow_bit}`, `Mux`, `Clip2K{k}`, `LongDivision{signed}`) are
//! built on bit arrays, instantiated (`run_instantiation_pass`) and evaluated by the simple
//! evaluator (`random_evaluate`), exactly as the unit tests of those files do.  Every output element
//! becomes one request for the Lean model and is compared with a native u128/i128 oracle.
use crate::util::*;
use crate::vals::st_name;
use ciphercore_base::custom_ops::{run_instantiation_pass, CustomOperation};
use ciphercore_base::data_types::*;
use ciphercore_base::data_values::Value;
use ciphercore_base::errors::Result;
use ciphercore_base::evaluators::random_evaluate;
use ciphercore_base::graphs::util::simple_context;
use ciphercore_base::ops::adder::BinaryAdd;
use ciphercore_base::ops::clip::Clip2K;
use ciphercore_base::ops::long_division::LongDivision;
use ciphercore_base::ops::multiplexer::Mux;

// ---------------------------------------------------------------- plumbing

thread_local! {
    static FAILS: std::cell::RefCell<std::collections::HashMap<String, u32>> = std::cell::RefCell::new(Default::default());
}

/// report an oracle failure; at most 20 replayable details per signature (the rest is only counted),
/// so that one frequent signature cannot crowd out another one in the bounded failure log
fn fail(run: &mut Run, sig: &str, detail: String) {
    let n = FAILS.with(|f| {
        let mut f = f.borrow_mut();
        let e = f.entry(sig.to_owned()).or_insert(0);
        *e += 1;
        *e
    });
    if n <= 20 {
        run.oracle_fail(sig, detail);
    } else {
        run.count(&format!("oracle_fail:{}", sig));
    }
}

/// build the one-op graph, instantiate, evaluate
fn eval_op(op: CustomOperation, types: Vec<Type>, vals: Vec<Value>) -> Result<Value> {
    let c = simple_context(|g| {
        let mut ins = vec![];
        for t in &types {
            ins.push(g.input(t.clone())?);
        }
        g.custom_op(op, ins)
    })?;
    let mc = run_instantiation_pass(c)?;
    random_evaluate(mc.get_context().get_main_graph()?, vals)
}

fn mask(n: u32) -> u128 {
    if n >= 128 {
        u128::MAX
    } else {
        (1u128 << n) - 1
    }
}

fn bit_str(x: u128, n: u32) -> String {
    (0..n).map(|i| if (x >> i) & 1 == 1 { '1' } else { '0' }).collect()
}

/// the signed integer a residue denotes (n <= 128)
fn sval(x: u128, n: u32) -> i128 {
    if n >= 128 {
        x as i128
    } else if (x >> (n - 1)) & 1 == 1 {
        (x as i128) - (1i128 << n)
    } else {
        x as i128
    }
}

/// an array of `n`-bit strings: element shape prefix `pre` (may be empty), values little-endian
#[derive(Clone)]
struct BitArr {
    pre: Vec<u64>,
    n: u32,
    xs: Vec<u128>,
}

impl BitArr {
    fn new(pre: &[u64], n: u32, xs: Vec<u128>) -> Self {
        assert_eq!(pre.iter().product::<u64>() as usize, xs.len());
        BitArr { pre: pre.to_vec(), n, xs }
    }
    fn shape(&self) -> Vec<u64> {
        let mut s = self.pre.clone();
        s.push(self.n as u64);
        s
    }
    fn ty(&self) -> Type {
        array_type(self.shape(), BIT)
    }
    fn value(&self) -> Value {
        let mut bits: Vec<u8> = Vec::with_capacity(self.xs.len() * self.n as usize);
        for x in &self.xs {
            for i in 0..self.n {
                bits.push(((x >> i) & 1) as u8);
            }
        }
        Value::from_flattened_array(&bits, BIT).expect("bit value")
    }
}

/// read an array of bit strings back (shape pre ++ [n])
fn read_bits(v: &Value, pre: &[u64], n: u32) -> Result<Vec<u128>> {
    let mut s = pre.to_vec();
    s.push(n as u64);
    let flat = v.to_flattened_array_u64(array_type(s, BIT))?;
    let cnt = pre.iter().product::<u64>() as usize;
    let mut out = Vec::with_capacity(cnt);
    for e in 0..cnt {
        let mut x = 0u128;
        for i in 0..n as usize {
            if flat[e * n as usize + i] & 1 == 1 {
                x |= 1u128 << i;
            }
        }
        out.push(x);
    }
    Ok(out)
}

/// NumPy broadcast of two shapes (None if incompatible) — the harness' own implementation
fn bshape(a: &[u64], b: &[u64]) -> Option<Vec<u64>> {
    let r = a.len().max(b.len());
    let mut out = vec![0u64; r];
    for i in 0..r {
        let x = if i + a.len() >= r { a[i + a.len() - r] } else { 1 };
        let y = if i + b.len() >= r { b[i + b.len() - r] } else { 1 };
        out[i] = if x == y || y == 1 {
            x
        } else if x == 1 {
            y
        } else {
            return None;
        };
    }
    Some(out)
}

/// flat index into an operand of shape `ins` for flat index `flat` of the broadcast shape `out`
fn bidx(out: &[u64], flat: usize, ins: &[u64]) -> usize {
    let mut idx = vec![0u64; out.len()];
    let mut f = flat as u64;
    for i in (0..out.len()).rev() {
        idx[i] = f % out[i];
        f /= out[i];
    }
    let off = out.len() - ins.len();
    let mut r = 0u64;
    for i in 0..ins.len() {
        let j = if ins[i] == 1 { 0 } else { idx[i + off] };
        r = r * ins[i] + j;
    }
    r as usize
}

/// boundary operands of width n (as residues)
fn boundaries(n: u32) -> Vec<u128> {
    let m = mask(n);
    let top = 1u128 << (n - 1);
    let mut v = vec![0, 1 & m, m, top, top.wrapping_sub(1) & m, (top | 1) & m, m.wrapping_sub(1) & m, 2 & m, 3 & m];
    v.push(0x5555_5555_5555_5555_5555_5555_5555_5555u128 & m);
    v.push(0xAAAA_AAAA_AAAA_AAAA_AAAA_AAAA_AAAA_AAAAu128 & m);
    if n >= 4 {
        v.push((top >> 1) & m);
        v.push(((top >> 1).wrapping_sub(1)) & m);
        v.push((top + (top >> 1)) & m);
    }
    v.sort();
    v.dedup();
    v
}

fn gen_val(rng: &mut Rng, n: u32) -> u128 {
    let m = mask(n);
    match rng.below(8) {
        0 => *rng.pick(&boundaries(n)),
        1 => {
            let k = rng.below(n as u64) as u32;
            ((1u128 << k).wrapping_add(rng.below(3) as u128).wrapping_sub(1)) & m
        }
        2 => (rng.below(16) as u128) & m,
        3 => (rng.below(16) as u128).wrapping_neg() & m,
        4 => {
            // short random value (small magnitudes make quotients non-trivial)
            let k = 1 + rng.below(n as u64) as u32;
            rng.next128() & mask(k)
        }
        _ => rng.next128() & m,
    }
}

/// a random prefix shape that broadcasts into `out` (drop leading dims, turn dims into 1)
fn sub_shape(rng: &mut Rng, out: &[u64]) -> Vec<u64> {
    let drop = rng.below(out.len() as u64 + 1) as usize;
    out[drop..].iter().map(|&d| if rng.chance(1, 3) { 1 } else { d }).collect()
}

fn gen_out_shape(rng: &mut Rng) -> Vec<u64> {
    let rank = rng.below(4) as usize;
    (0..rank).map(|_| 1 + rng.below(3)).collect()
}

/// all (x, y) pairs of widths (na, nd) in chunks of about `chunk` pairs (the evaluator is much slower
/// per element on very large arrays, in particular inside Iterate)
fn pair_chunks(na: u32, nd: u32, chunk: usize) -> Vec<(BitArr, BitArr)> {
    let (ma, md) = (1usize << na, 1usize << nd);
    let chunk_rows = (chunk / md).max(1).min(ma);
    let mut out = vec![];
    for x0 in (0..ma).step_by(chunk_rows) {
        let mut xs = Vec::with_capacity(chunk_rows * md);
        let mut ys = Vec::with_capacity(chunk_rows * md);
        for x in x0..(x0 + chunk_rows).min(ma) {
            for y in 0..md {
                xs.push(x as u128);
                ys.push(y as u128);
            }
        }
        let cnt = xs.len() as u64;
        out.push((BitArr::new(&[cnt], na, xs), BitArr::new(&[cnt], nd, ys)));
    }
    out
}

// ---------------------------------------------------------------- adder

struct AddOut {
    sums: Vec<u128>,
    ovs: Option<Vec<u128>>,
}

fn run_add(ov: bool, a: &BitArr, b: &BitArr, out_pre: &[u64]) -> std::result::Result<Result<AddOut>, String> {
    let n = a.n;
    catch(|| -> Result<AddOut> {
        let v = eval_op(CustomOperation::new(BinaryAdd { overflow_bit: ov }), vec![a.ty(), b.ty()], vec![a.value(), b.value()])?;
        if ov {
            let parts = v.to_vector()?;
            Ok(AddOut { sums: read_bits(&parts[0], out_pre, n)?, ovs: Some(read_bits(&parts[1], out_pre, 1)?) })
        } else {
            Ok(AddOut { sums: read_bits(&v, out_pre, n)?, ovs: None })
        }
    })
}

/// one adder batch: model requests for the elements selected by `to_model`, oracle on all
fn add_batch(run: &mut Run, tag: &str, ov: bool, a: &BitArr, b: &BitArr, to_model: &dyn Fn(usize) -> bool) {
    let n = a.n;
    let out_pre = match bshape(&a.pre, &b.pre) {
        Some(s) => s,
        None => return,
    };
    let cnt = out_pre.iter().product::<u64>() as usize;
    run.count(&format!("add:{}:n{}:ov{}", tag, n, ov as u8));
    let r = run_add(ov, a, b, &out_pre);
    let descr = format!("add ov={} n={} shapes {:?} {:?}", ov as u8, n, a.shape(), b.shape());
    let out = match r {
        Err(p) => {
            fail(run, "C17:panic:add", format!("{} panicked: {}", descr, p));
            return;
        }
        Ok(Err(e)) => {
            fail(run, "C17:add:rejected", format!("{} rejected: {}", descr, e));
            return;
        }
        Ok(Ok(o)) => o,
    };
    for e in 0..cnt {
        let x = a.xs[bidx(&out_pre, e, &a.pre)];
        let y = b.xs[bidx(&out_pre, e, &b.pre)];
        let (s, c) = if n >= 128 {
            let (s, c) = x.overflowing_add(y);
            (s, c as u128)
        } else {
            ((x + y) & mask(n), (x + y) >> n)
        };
        let nontrivial = x != 0 && y != 0;
        let d = format!("add {} {} {}", ov as u8, bit_str(x, n), bit_str(y, n));
        run.oracle_case(&d, nontrivial);
        let got_s = out.sums[e];
        let got_c = out.ovs.as_ref().map(|v| v[e]);
        if got_s != s {
            fail(run, "C17:add:sum", format!("{} (shapes {:?} {:?} elem {}) sum {} want {}", d, a.shape(), b.shape(), e, got_s, s));
        }
        if let Some(gc) = got_c {
            if gc != c {
                fail(run, "C17:add:overflow-bit", format!("{} (shapes {:?} {:?} elem {}) overflow {} want {}", d, a.shape(), b.shape(), e, gc, c));
            }
        }
        if to_model(e) {
            let ans = match got_c {
                Some(gc) => format!("{} {}", bit_str(got_s, n), gc),
                None => bit_str(got_s, n),
            };
            run.case(d, ans, nontrivial);
        }
    }
}

fn adder_streams(run: &mut Run) {
    // A1: exhaustive operand pairs, widths 1, 2, 4, 8
    let model_stride8 = run.tier.scale(5, 1);
    for &n in &[1u32, 2, 4, 8] {
        for (ci, (a, b)) in pair_chunks(n, n, 16384).iter().enumerate() {
            for ov in [false, true] {
                let stride = if n == 8 { model_stride8 } else { 1 };
                add_batch(run, "exhaustive", ov, a, b, &|e| (e + e / 256 + ci) % stride == 0);
            }
        }
    }
    // A2: boundary and random operands, widths 16..128 (rank-1 and [N, n] arrays)
    let mut rng = run.rng("add-boundary");
    for &n in &[16u32, 32, 64, 128] {
        let bs = boundaries(n);
        let mut xs = vec![];
        let mut ys = vec![];
        for &x in &bs {
            for &y in &bs {
                xs.push(x);
                ys.push(y);
            }
        }
        for _ in 0..run.tier.scale(100, 3000) {
            let x = gen_val(&mut rng, n);
            xs.push(x);
            // complementary operands make the carry run through the whole word
            ys.push(match rng.below(4) {
                0 => (!x).wrapping_add(rng.below(3) as u128) & mask(n),
                1 => x.wrapping_neg() & mask(n),
                _ => gen_val(&mut rng, n),
            });
        }
        let cnt = xs.len() as u64;
        let a = BitArr::new(&[cnt], n, xs.clone());
        let b = BitArr::new(&[cnt], n, ys.clone());
        for ov in [false, true] {
            add_batch(run, "boundary", ov, &a, &b, &|_| true);
        }
        // rank-1 inputs (a single bit string)
        for i in 0..4 {
            let a = BitArr::new(&[], n, vec![xs[xs.len() - 1 - i]]);
            let b = BitArr::new(&[], n, vec![ys[ys.len() - 1 - i]]);
            add_batch(run, "rank1", i % 2 == 0, &a, &b, &|_| true);
        }
    }
    // A3: broadcasting shapes
    let mut rng = run.rng("add-broadcast");
    for _ in 0..run.tier.scale(60, 600) {
        let n = *rng.pick(&[1u32, 2, 4, 8, 16, 32, 64, 128]);
        let out = gen_out_shape(&mut rng);
        let sa = sub_shape(&mut rng, &out);
        let sb = sub_shape(&mut rng, &out);
        let a = BitArr::new(&sa, n, (0..sa.iter().product::<u64>()).map(|_| gen_val(&mut rng, n)).collect());
        let b = BitArr::new(&sb, n, (0..sb.iter().product::<u64>()).map(|_| gen_val(&mut rng, n)).collect());
        add_batch(run, "broadcast", rng.chance(1, 2), &a, &b, &|_| true);
    }
    // A4: malformed widths (not a power of two / different widths): model and implementation must both reject
    for &(na, nb) in &[(3u32, 3u32), (5, 5), (6, 6), (7, 7), (12, 12), (24, 24), (4, 8), (8, 4), (1, 2)] {
        for ov in [false, true] {
            let a = BitArr::new(&[], na, vec![1]);
            let b = BitArr::new(&[], nb, vec![1]);
            let r = run_add(ov, &a, &b, &[]);
            let req = format!("add {} {} {}", ov as u8, bit_str(1, na), bit_str(1, nb));
            run.count("add:malformed");
            match r {
                Err(p) => fail(run, "C17:panic:add", format!("{} panicked: {}", req, p)),
                Ok(Err(_)) => run.case(req, "ERR".into(), false),
                Ok(Ok(o)) => {
                    fail(run, "C17:add:accepted-bad-width", format!("{} accepted (widths {} {})", req, na, nb));
                    run.case(req, bit_str(o.sums[0], na), false);
                }
            }
        }
    }
}

// ---------------------------------------------------------------- mux

fn int_value(st: ScalarType, xs: &[u128]) -> Value {
    Value::from_flattened_array(xs, st).expect("int value")
}

fn mux_streams(run: &mut Run) {
    let mut rng = run.rng("mux");
    let all_st = [BIT, UINT8, INT8, UINT16, INT16, UINT32, INT32, UINT64, INT64, UINT128, INT128];
    let rounds = run.tier.scale(220, 2500);
    for it in 0..rounds {
        let st = if it % 2 == 0 { BIT } else { *rng.pick(&all_st) };
        let w = st.size_in_bits() as u32;
        let out = gen_out_shape(&mut rng);
        let sf = sub_shape(&mut rng, &out);
        let s1 = sub_shape(&mut rng, &out);
        let s0 = sub_shape(&mut rng, &out);
        let gen = |rng: &mut Rng, s: &[u64], st: ScalarType| -> Vec<u128> {
            (0..s.iter().product::<u64>().max(1))
                .map(|_| if st == BIT { rng.below(2) as u128 } else { gen_val(rng, st.size_in_bits() as u32) })
                .collect()
        };
        let f = gen(&mut rng, &sf, BIT);
        let c1 = gen(&mut rng, &s1, st);
        let c0 = gen(&mut rng, &s0, st);
        let ty = |s: &[u64], st: ScalarType| if s.is_empty() { scalar_type(st) } else { array_type(s.to_vec(), st) };
        let types = vec![ty(&sf, BIT), ty(&s1, st), ty(&s0, st)];
        let vals = vec![int_value(BIT, &f), int_value(st, &c1), int_value(st, &c0)];
        let full = bshape(&bshape(&sf, &s1).unwrap(), &s0).unwrap();
        let descr = format!("mux {} shapes {:?} {:?} {:?}", st_name(st), sf, s1, s0);
        run.count(&format!("mux:{}:rank{}", if st == BIT { "bit" } else { "int" }, full.len()));
        let out_ty = ty(&full, st);
        let r = catch(|| -> Result<Vec<u128>> {
            let v = eval_op(CustomOperation::new(Mux {}), types.clone(), vals.clone())?;
            if full.is_empty() {
                Ok(vec![v.to_u128(st)?])
            } else {
                v.to_flattened_array_u128(out_ty.clone())
            }
        });
        let got = match r {
            Err(p) => {
                fail(run, "C17:panic:mux", format!("{} panicked: {}", descr, p));
                continue;
            }
            Ok(Err(e)) => {
                fail(run, "C17:mux:rejected", format!("{} rejected: {}", descr, e));
                continue;
            }
            Ok(Ok(g)) => g,
        };
        let cnt = full.iter().product::<u64>().max(1) as usize;
        for e in 0..cnt {
            let fl = f[bidx(&full, e, &sf)];
            let x1 = c1[bidx(&full, e, &s1)];
            let x0 = c0[bidx(&full, e, &s0)];
            let want = if fl == 1 { x1 } else { x0 };
            let g = got[e] & mask(w);
            let nontrivial = x1 != x0;
            let req = if st == BIT { format!("muxb {} {} {}", fl, x1, x0) } else { format!("muxi {} {} {} {}", w, fl, x1, x0) };
            run.oracle_case(&format!("{} {}", req, descr), nontrivial);
            if g != want {
                let other = if fl == 1 { x0 } else { x1 };
                let sig = if st != BIT && g == other { "C17:mux:nonbit-choices-swapped" } else if st == BIT { "C17:mux:bit" } else { "C17:mux:nonbit" };
                fail(run, sig, format!("{} ({} elem {}) gives {} want {}", req, descr, e, g, want));
            }
            run.case(req, format!("{}", g), nontrivial);
        }
    }
}

// ---------------------------------------------------------------- clip

fn clip_oracle(x: u128, n: u32, k: u32) -> u128 {
    let s = sval(x, n);
    if s < 0 {
        0
    } else if (s as u128) >= (1u128 << k) {
        1u128 << k
    } else {
        x
    }
}

fn clip_batch(run: &mut Run, tag: &str, k: u64, a: &BitArr, to_model: &dyn Fn(usize) -> bool) {
    let n = a.n;
    run.count(&format!("clip:{}:n{}", tag, n));
    let r = catch(|| -> Result<Vec<u128>> {
        let v = eval_op(CustomOperation::new(Clip2K { k }), vec![a.ty()], vec![a.value()])?;
        read_bits(&v, &a.pre, n)
    });
    let descr = format!("clip k={} n={} shape {:?}", k, n, a.shape());
    let valid = (k as u128) + 2 <= n as u128;
    match r {
        Err(p) => fail(run, "C17:panic:clip", format!("{} panicked: {}", descr, p)),
        Ok(Err(e)) => {
            run.count("clip:rejected");
            if valid {
                fail(run, "C17:clip:rejected", format!("{} rejected: {}", descr, e));
            }
            run.case(format!("clip {} {}", k, bit_str(a.xs[0], n)), "ERR".into(), false);
        }
        Ok(Ok(got)) => {
            if !valid {
                fail(run, "C17:clip:accepted-bad-k", format!("{} accepted", descr));
            }
            for e in 0..a.xs.len() {
                let x = a.xs[e];
                let req = format!("clip {} {}", k, bit_str(x, n));
                let nontrivial = x != 0;
                if valid {
                    run.oracle_case(&req, nontrivial);
                    let want = clip_oracle(x, n, k as u32);
                    if got[e] != want {
                        let sig = if sval(x, n) == (1i128 << k) { "C17:clip:at-threshold" } else { "C17:clip:value" };
                        fail(run, sig, format!("{} (shape {:?} elem {}) gives {} want {}", req, a.shape(), e, got[e], want));
                    }
                }
                if to_model(e) {
                    run.case(req, bit_str(got[e], n), nontrivial);
                }
            }
        }
    }
}

fn clip_streams(run: &mut Run) {
    // C1: exhaustive widths 2..=8 (clip does not need a power of two), every k incl. the two rejected ones
    for n in 2u32..=8 {
        let xs: Vec<u128> = (0..(1u128 << n)).collect();
        for k in 0..=(n as u64) {
            let a = BitArr::new(&[xs.len() as u64], n, xs.clone());
            clip_batch(run, "exhaustive", k, &a, &|_| true);
        }
    }
    // width 1: every k is rejected
    clip_batch(run, "exhaustive", 0, &BitArr::new(&[2], 1, vec![0, 1]), &|_| true);
    // C2: boundaries around 0, 2^k, min, max for widths 16..128 and other widths
    let mut rng = run.rng("clip");
    for &n in &[12u32, 16, 32, 64, 100, 128] {
        let mut ks: Vec<u64> = vec![0, 1, 2, (n / 2) as u64, (n - 3) as u64, (n - 2) as u64, (n - 1) as u64, n as u64, u64::MAX];
        ks.push(rng.below(n as u64 - 1));
        for &k in &ks {
            let mut xs = boundaries(n);
            if k + 2 <= n as u64 {
                let t = 1u128 << k;
                for x in [t, t - 1, t + 1, t.wrapping_neg() & mask(n), (t - 1).wrapping_neg() & mask(n), (t + 1).wrapping_neg() & mask(n), t << 1 & mask(n), t | 1, t | (1u128 << (n - 2))] {
                    xs.push(x & mask(n));
                }
            }
            for _ in 0..run.tier.scale(12, 200) {
                xs.push(gen_val(&mut rng, n));
            }
            let a = BitArr::new(&[xs.len() as u64], n, xs);
            clip_batch(run, "boundary", k, &a, &|_| true);
        }
    }
    // C3: other array ranks
    for _ in 0..run.tier.scale(20, 200) {
        let n = *rng.pick(&[4u32, 8, 16, 64, 128]);
        let k = rng.below(n as u64 - 1);
        let pre = gen_out_shape(&mut rng);
        let a = BitArr::new(&pre, n, (0..pre.iter().product::<u64>()).map(|_| gen_val(&mut rng, n)).collect());
        clip_batch(run, "ranks", k, &a, &|_| true);
    }
}

// ---------------------------------------------------------------- long division

/// floored division on residues: quotient mod 2^na, remainder mod 2^nd (divisor non-zero)
fn div_oracle(signed: bool, a: u128, na: u32, d: u128, nd: u32) -> (u128, u128) {
    if !signed {
        return ((a / d) & mask(na), (a % d) & mask(nd));
    }
    let x = sval(a, na);
    let y = sval(d, nd);
    if x == i128::MIN && y == -1 {
        return (a & mask(na), 0); // only for 128 bits: 2^127 wraps
    }
    let mut q = x / y;
    let mut r = x % y;
    if r != 0 && ((r < 0) != (y < 0)) {
        q -= 1;
        r += y;
    }
    ((q as u128) & mask(na), (r as u128) & mask(nd))
}

fn run_div(signed: bool, a: &BitArr, d: &BitArr, out_pre: &[u64]) -> std::result::Result<Result<(Vec<u128>, Vec<u128>)>, String> {
    catch(|| -> Result<(Vec<u128>, Vec<u128>)> {
        let v = eval_op(CustomOperation::new(LongDivision { signed }), vec![a.ty(), d.ty()], vec![a.value(), d.value()])?;
        let parts = v.to_vector()?;
        Ok((read_bits(&parts[0], out_pre, a.n)?, read_bits(&parts[1], out_pre, d.n)?))
    })
}

fn div_batch(run: &mut Run, tag: &str, signed: bool, a: &BitArr, d: &BitArr, expect_ok: bool, to_model: &dyn Fn(usize) -> bool) {
    let (na, nd) = (a.n, d.n);
    let out_pre = match bshape(&a.pre, &d.pre) {
        Some(s) => s,
        None => return,
    };
    run.count(&format!("div:{}:{}:{}/{}", tag, if signed { "signed" } else { "unsigned" }, na, nd));
    let descr = format!("div signed={} widths {}/{} shapes {:?} {:?}", signed as u8, na, nd, a.shape(), d.shape());
    let r = run_div(signed, a, d, &out_pre);
    let (qs, rs) = match r {
        Err(p) => {
            fail(run, "C17:panic:longdiv", format!("{} panicked: {}", descr, p));
            return;
        }
        Ok(Err(e)) => {
            run.count("div:rejected");
            if a.pre.is_empty() && d.pre.is_empty() {
                // both operands are single bit strings: the operation has no element shape left for its
                // iteration state and refuses to instantiate (documented limitation, not a wrong result);
                // the model works per element, so no request is made
                run.count("div:rejected-rank1-pair");
                return;
            }
            if expect_ok {
                fail(run, "C17:longdiv:rejected", format!("{} rejected: {}", descr, e));
            }
            run.case(format!("div {} {} {}", signed as u8, bit_str(a.xs[0], na), bit_str(d.xs[0], nd)), "ERR".into(), false);
            return;
        }
        Ok(Ok(x)) => x,
    };
    let cnt = out_pre.iter().product::<u64>() as usize;
    for e in 0..cnt {
        let x = a.xs[bidx(&out_pre, e, &a.pre)];
        let y = d.xs[bidx(&out_pre, e, &d.pre)];
        let req = format!("div {} {} {}", signed as u8, bit_str(x, na), bit_str(y, nd));
        let nontrivial = y != 0 && x != 0;
        if y != 0 {
            run.oracle_case(&req, nontrivial);
            let (wq, wr) = div_oracle(signed, x, na, y, nd);
            if (qs[e], rs[e]) != (wq, wr) {
                let sig = if !signed && nd >= 1 && y > (1u128 << (nd - 1)) {
                    "C17:longdiv:unsigned-divisor-msb-set".to_owned()
                } else {
                    format!("C17:longdiv:wrong:{}", if signed { "signed" } else { "unsigned" })
                };
                let (sx, sy) = if signed { (sval(x, na).to_string(), sval(y, nd).to_string()) } else { (x.to_string(), y.to_string()) };
                fail(run, 
                    &sig,
                    format!("{} i.e. {} / {} ({} elem {}) gives q={} r={} want q={} r={}", req, sx, sy, descr, e, qs[e], rs[e], wq, wr),
                );
            }
        } else {
            run.count("div:zero-divisor-elements");
        }
        if to_model(e) {
            run.case(req, format!("{} {}", bit_str(qs[e], na), bit_str(rs[e], nd)), nontrivial);
        }
    }
}

fn div_streams(run: &mut Run) {
    // D1: exhaustive (dividend, divisor) pairs for widths <= 8, both modes; unsigned also for dividend
    // widths that are not powers of two (only the divisor width goes through the adder)
    let stride8 = run.tier.scale(8, 1);
    let combos: Vec<(u32, u32)> = vec![(2, 2), (4, 4), (4, 2), (2, 4), (8, 4), (4, 8), (8, 2), (2, 8), (8, 8)];
    for &(na, nd) in &combos {
        if run.tier == Tier::Quick && (na, nd) == (2, 8) {
            continue; // thorough tier only
        }
        for (ci, (a, d)) in pair_chunks(na, nd, 2048).iter().enumerate() {
            for signed in [false, true] {
                let stride = if na + nd >= 16 { stride8 } else { 1 };
                div_batch(run, "exhaustive", signed, a, d, true, &|e| (e + e / 256 + ci) % stride == 0);
            }
        }
    }
    for &(na, nd) in &[(3u32, 4u32), (5, 4), (6, 2), (7, 8), (1, 2)] {
        for (ci, (a, d)) in pair_chunks(na, nd, 2048).iter().enumerate() {
            if na == 7 && ci % run.tier.scale(4, 1) != 0 {
                continue;
            }
            div_batch(run, "exhaustive-odd-dividend-width", false, a, d, true, &|e| e % 4 == 0);
        }
    }
    // D2: boundary operands up to 128 bits
    let mut rng = run.rng("div-boundary");
    let widths = [(16u32, 16u32), (16, 8), (8, 16), (32, 8), (32, 32), (64, 64), (128, 128), (128, 32), (32, 128), (64, 16), (16, 64), (128, 64)];
    // quick tier: the last three width pairs are left to the thorough tier
    let n_widths = run.tier.scale(widths.len() - 3, widths.len());
    for &(na, nd) in &widths[..n_widths.min(widths.len())] {
        for signed in [false, true] {
            let ba = boundaries(na);
            let bd = boundaries(nd);
            let mut xs = vec![];
            let mut ys = vec![];
            let all_pairs = na.max(nd) <= 32 || run.tier != Tier::Quick;
            for &x in &ba {
                for &y in &bd {
                    // quick tier, wide operands: a third of the boundary pairs (different ones per seed)
                    if all_pairs || rng.chance(1, 3) {
                        xs.push(x);
                        ys.push(y);
                    }
                }
            }
            for _ in 0..run.tier.scale(40, 400) {
                let y = gen_val(&mut rng, nd);
                let x = match rng.below(4) {
                    // dividend near a multiple of the divisor
                    0 if y != 0 => {
                        let k = gen_val(&mut rng, na) % (mask(na) / y.max(1)).max(1);
                        k.wrapping_mul(y).wrapping_add(rng.below(3) as u128).wrapping_sub(1) & mask(na)
                    }
                    _ => gen_val(&mut rng, na),
                };
                xs.push(x);
                ys.push(y);
            }
            let cnt = xs.len() as u64;
            let a = BitArr::new(&[cnt], na, xs);
            let d = BitArr::new(&[cnt], nd, ys);
            div_batch(run, "boundary", signed, &a, &d, true, &|_| true);
        }
    }
    // the documented probe inputs of the known finding
    {
        let a = BitArr::new(&[2], 16, vec![799, 399]);
        let d = BitArr::new(&[2], 8, vec![200, 200]);
        div_batch(run, "probe", false, &a, &d, true, &|_| true);
    }
    // D3: broadcasting shapes, rank-1 inputs
    let mut rng = run.rng("div-broadcast");
    for _ in 0..run.tier.scale(40, 400) {
        let na = *rng.pick(&[2u32, 4, 8, 16, 32, 64, 128]);
        let nd = *rng.pick(&[2u32, 4, 8, 16, 32, 64, 128]);
        let out = gen_out_shape(&mut rng);
        let sa = sub_shape(&mut rng, &out);
        let sd = sub_shape(&mut rng, &out);
        let a = BitArr::new(&sa, na, (0..sa.iter().product::<u64>()).map(|_| gen_val(&mut rng, na)).collect());
        let d = BitArr::new(&sd, nd, (0..sd.iter().product::<u64>()).map(|_| gen_val(&mut rng, nd)).collect());
        div_batch(run, "broadcast", rng.chance(1, 2), &a, &d, true, &|_| true);
    }
    // D4: widths the operation cannot handle (model and implementation must both reject)
    for &(signed, na, nd) in &[(false, 8u32, 1u32), (false, 8, 3), (false, 8, 6), (true, 3, 4), (true, 1, 4), (true, 6, 8), (true, 8, 1), (true, 12, 12), (false, 1, 1)] {
        let a = BitArr::new(&[1], na, vec![1]);
        let d = BitArr::new(&[1], nd, vec![1]);
        div_batch(run, "malformed", signed, &a, &d, false, &|_| true);
    }
}

pub fn corr(run: &mut Run) {
    run.rule = "one-op graphs BinaryAdd{overflow_bit}/Mux/Clip2K{k}/LongDivision{signed} on bit arrays, instantiated and run by \
                the simple evaluator; every output element is one model request and one native u128/i128 oracle check. \
                Adder: all operand pairs for widths 1,2,4,8 (both overflow variants), boundary/complementary/random operands for \
                16..128 bits, broadcast shapes, non-power-of-two widths (rejected). Mux: bit and all integer scalar types, \
                broadcast flag/choice shapes incl. scalars. Clip: all inputs and every k for widths 2..8, boundaries around 0 / 2^k / \
                min / max up to 128 bits. Division: all (dividend, divisor) pairs for widths <= 8 (signed and unsigned, mixed \
                widths), boundary operands up to 128 bits (0, +-1, min, max, all-ones, min/-1, near-multiples), broadcast shapes, \
                unsupported widths. Non-trivial: operands non-zero (mux: the two choices differ); distinct by request text."
        .to_owned();
    let t = std::time::Instant::now();
    adder_streams(run);
    run.notes.push(format!("adder streams {:.1}s", t.elapsed().as_secs_f64()));
    let t = std::time::Instant::now();
    mux_streams(run);
    run.notes.push(format!("mux streams {:.1}s", t.elapsed().as_secs_f64()));
    let t = std::time::Instant::now();
    clip_streams(run);
    run.notes.push(format!("clip streams {:.1}s", t.elapsed().as_secs_f64()));
    let t = std::time::Instant::now();
    div_streams(run);
    run.notes.push(format!("division streams {:.1}s", t.elapsed().as_secs_f64()));
}
