//! C09 — type inference is sound for evaluation; well-typed programs never crash.
//! Stream P: type-directed random programs over all primitive operations (mostly valid + malformed
//!   candidates).  Every candidate node goes through the real builder (`Graph::add_node`); the
//!   accept/reject decision and the inferred type are compared with the Lean model (`infer`).
//! Oracle: every accepted program is evaluated node by node through `SimpleEvaluator::evaluate_node`
//!   on random inputs of the declared types; every value is `check_type`d against the node's
//!   inferred type; a panic, a type/value mismatch, or an `Err` other than the documented
//!   data-dependent run-time errors is a failure.
//! Stream F: families with custom operations / Join / Sort / Call / Iterate (instantiated) — oracle only.
//! Stream S: `slice_index` on all result indices of accepted slices (model + in-range oracle).
//! Stream E (`evalop`): every node of the covered operations that the oracle evaluates through
//!   `SimpleEvaluator::evaluate_node` (small dependency values) is also a model request
//!   `evalop <op> <dep types> <dep values>` answered by the evaluator's value (residues) — ties the
//!   one-node evaluator `EvalOps.evalOp` of the Lean model to the real evaluator; a per-operation cap
//!   bounds the stream; `stream_evalop` adds one-node graphs for the operations that the random
//!   programs evaluate rarely.
use crate::util::*;
use crate::vals::*;
use ciphercore_base::custom_ops::run_instantiation_pass;
use ciphercore_base::data_types::*;
use ciphercore_base::data_values::Value;
use ciphercore_base::evaluators::simple_evaluator::SimpleEvaluator;
use ciphercore_base::evaluators::Evaluator;
use ciphercore_base::graphs::*;
use ciphercore_base::slices::slice_index;

const ALL: [ScalarType; 11] = [BIT, UINT8, INT8, UINT16, INT16, UINT32, INT32, UINT64, INT64, UINT128, INT128];
const NAMES: [&str; 8] = ["a", "b", "k", "v", "key", "x1", "Zz", "w"];

// ------------------------------------------------------------------------------------------------
// encodings
// ------------------------------------------------------------------------------------------------

fn enc_type(t: &Type) -> String {
    match t {
        Type::Scalar(st) => format!("s:{}", st_name(*st)),
        Type::Array(sh, st) => format!("a:{}:{}", st_name(*st), show_list(sh)),
        Type::Vector(n, e) => format!("v:{} {}", n, enc_type(e)),
        Type::Tuple(ts) => {
            let mut s = format!("t:{}", ts.len());
            for e in ts {
                s.push(' ');
                s.push_str(&enc_type(e));
            }
            s
        }
        Type::NamedTuple(fs) => {
            let mut s = format!("n:{}", fs.len());
            for (n, e) in fs {
                s.push_str(&format!(" N{} {}", n, enc_type(e)));
            }
            s
        }
    }
}

fn enc_value(v: &Value) -> String {
    match v.to_vector() {
        Err(_) => format!("b:{}", show_list(&bytes_of(v))),
        Ok(ch) => {
            let mut s = format!("l:{}", ch.len());
            for c in &ch {
                s.push(' ');
                s.push_str(&enc_value(c));
            }
            s
        }
    }
}

fn enc_types(ts: &[Type]) -> String {
    let mut s = format!("{}", ts.len());
    for t in ts {
        s.push(' ');
        s.push_str(&enc_type(t));
    }
    s
}

fn enc_opt(x: &Option<i64>) -> String {
    match x {
        Some(v) => format!("{}", v),
        None => "N".to_owned(),
    }
}

fn enc_slice(sl: &Slice) -> String {
    let mut s = format!("{}", sl.len());
    for e in sl {
        s.push(' ');
        match e {
            SliceElement::SingleIndex(i) => s.push_str(&format!("i{}", i)),
            SliceElement::SubArray(b, e, st) => s.push_str(&format!("s{}:{}:{}", enc_opt(b), enc_opt(e), enc_opt(st))),
            SliceElement::Ellipsis => s.push('e'),
        }
    }
    s
}

fn b01(b: bool) -> &'static str {
    if b {
        "1"
    } else {
        "0"
    }
}

fn signature(g: &Graph) -> Option<(Vec<Type>, Type)> {
    let mut ins = vec![];
    for n in g.get_nodes() {
        if let Operation::Input(t) = n.get_operation() {
            ins.push(t);
        }
    }
    let out = g.get_output_node().ok()?.get_type().ok()?;
    Some((ins, out))
}

fn op_name(op: &Operation) -> String {
    let s = format!("{:?}", op);
    s.split(|c: char| !c.is_alphanumeric()).next().unwrap_or("?").to_owned()
}

/// operation encoding of the model request; `None` = family not modelled (oracle only)
fn enc_op(op: &Operation, callee: Option<&Graph>) -> Option<String> {
    Some(match op {
        Operation::Input(t) => format!("Input {}", enc_type(t)),
        Operation::Zeros(t) => format!("Zeros {}", enc_type(t)),
        Operation::Ones(t) => format!("Ones {}", enc_type(t)),
        Operation::Random(t) => format!("Random {}", enc_type(t)),
        Operation::PRF(_, t) => format!("PRF {}", enc_type(t)),
        Operation::Reshape(t) => format!("Reshape {}", enc_type(t)),
        Operation::CreateVector(t) => format!("CreateVector {}", enc_type(t)),
        Operation::Constant(t, v) => format!("Constant {} {}", enc_type(t), enc_value(v)),
        Operation::Add => "Add".into(),
        Operation::Subtract => "Subtract".into(),
        Operation::Multiply => "Multiply".into(),
        Operation::MixedMultiply => "MixedMultiply".into(),
        Operation::Dot => "Dot".into(),
        Operation::Matmul => "Matmul".into(),
        Operation::Gemm(a, b) => format!("Gemm {} {}", b01(*a), b01(*b)),
        Operation::Truncate(d) => format!("Truncate {}", d),
        Operation::Sum(a) => format!("Sum {}", show_list(a)),
        Operation::CumSum(a) => format!("CumSum {}", a),
        Operation::PermuteAxes(a) => format!("PermuteAxes {}", show_list(a)),
        Operation::Get(a) => format!("Get {}", show_list(a)),
        Operation::GetSlice(s) => format!("GetSlice {}", enc_slice(s)),
        Operation::NOP => "NOP".into(),
        Operation::PermutationFromPRF(_, n) => format!("PermutationFromPRF {}", n),
        Operation::Stack(a) => format!("Stack {}", show_list(a)),
        Operation::Concatenate(a) => format!("Concatenate {}", a),
        Operation::A2B => "A2B".into(),
        Operation::B2A(st) => format!("B2A {}", st_name(*st)),
        Operation::CreateTuple => "CreateTuple".into(),
        Operation::CreateNamedTuple(ns) => {
            let mut s = format!("CreateNamedTuple {}", ns.len());
            for n in ns {
                s.push_str(&format!(" N{}", n));
            }
            s
        }
        Operation::TupleGet(i) => format!("TupleGet {}", i),
        Operation::NamedTupleGet(n) => format!("NamedTupleGet N{}", n),
        Operation::VectorGet => "VectorGet".into(),
        Operation::Zip => "Zip".into(),
        Operation::Repeat(n) => format!("Repeat {}", n),
        Operation::Call | Operation::Iterate => {
            let (ins, out) = signature(callee?)?;
            format!("{} {} {}", if *op == Operation::Call { "Call" } else { "Iterate" }, enc_types(&ins), enc_type(&out))
        }
        Operation::ArrayToVector => "ArrayToVector".into(),
        Operation::VectorToArray => "VectorToArray".into(),
        Operation::RandomPermutation(n) => format!("RandomPermutation {}", n),
        Operation::Gather(a) => format!("Gather {}", a),
        Operation::CuckooHash => "CuckooHash".into(),
        Operation::InversePermutation => "InversePermutation".into(),
        Operation::CuckooToPermutation => "CuckooToPermutation".into(),
        Operation::DecomposeSwitchingMap(n) => format!("DecomposeSwitchingMap {}", n),
        Operation::SegmentCumSum => "SegmentCumSum".into(),
        Operation::ApplyPermutation(b) => format!("ApplyPermutation {}", b01(*b)),
        Operation::Sort(k) => format!("Sort N{}", k),
        Operation::Print(_) => "Print".into(),
        Operation::Assert(_) => "Assert".into(),
        _ => return None,
    })
}

// ------------------------------------------------------------------------------------------------
// values
// ------------------------------------------------------------------------------------------------

#[derive(Clone, Debug)]
enum Hint {
    Any,
    /// a permutation of 0..n (n = number of elements)
    Perm,
    /// elements below the bound
    Below(u64),
    /// the bit 1 (a passing assertion)
    One,
}

fn gen_val(rng: &mut Rng, t: &Type, hint: &Hint) -> Value {
    match t {
        Type::Scalar(st) | Type::Array(_, st) => {
            let dims = t.get_dimensions();
            let n: u64 = dims.iter().product();
            let sloppy = rng.chance(1, 8);
            match hint {
                Hint::Perm if !sloppy && *st != BIT => {
                    let mut p: Vec<u64> = (0..n).collect();
                    rng.shuffle(&mut p);
                    Value::from_flattened_array(&p, *st).unwrap_or_else(|_| Value::zero_of_type(t.clone()))
                }
                Hint::Below(b) if !sloppy && *st != BIT && *b > 0 => {
                    let p: Vec<u64> = (0..n).map(|_| rng.below(*b)).collect();
                    Value::from_flattened_array(&p, *st).unwrap_or_else(|_| Value::zero_of_type(t.clone()))
                }
                Hint::One if !rng.chance(1, 6) => Value::one_of_type(t.clone()).unwrap(),
                _ => gen_array_value(rng, &dims, *st).1,
            }
        }
        Type::Vector(n, e) => Value::from_vector((0..*n).map(|_| gen_val(rng, e, hint)).collect()),
        Type::Tuple(ts) => Value::from_vector(ts.iter().map(|e| gen_val(rng, e, hint)).collect()),
        Type::NamedTuple(fs) => Value::from_vector(fs.iter().map(|(_, e)| gen_val(rng, e, hint)).collect()),
    }
}

// ------------------------------------------------------------------------------------------------
// type / shape generators
// ------------------------------------------------------------------------------------------------

fn small_shape(rng: &mut Rng) -> Vec<u64> {
    loop {
        let rank = 1 + rng.below(4) as usize;
        let s: Vec<u64> = (0..rank).map(|_| if rng.chance(1, 4) { 1 } else { 1 + rng.below(4) }).collect();
        if s.iter().product::<u64>() <= 48 {
            return s;
        }
    }
}

fn arr_or_scalar(shape: &[u64], st: ScalarType) -> Type {
    if shape.is_empty() {
        scalar_type(st)
    } else {
        array_type(shape.to_vec(), st)
    }
}

fn gen_type(rng: &mut Rng, depth: u32) -> Type {
    let k = if depth == 0 { rng.below(3) } else { rng.below(8) };
    match k {
        0 => scalar_type(*rng.pick(&ALL)),
        1 | 2 | 5 => array_type(small_shape(rng), *rng.pick(&ALL)),
        3 => vector_type(if rng.chance(1, 8) { 0 } else { 1 + rng.below(3) }, gen_type(rng, depth - 1)),
        4 | 6 => {
            let k = if rng.chance(1, 8) { 0 } else { 1 + rng.below(3) };
            tuple_type((0..k).map(|_| gen_type(rng, depth - 1)).collect())
        }
        _ => {
            let k = if rng.chance(1, 10) { 0 } else { 1 + rng.below(3) } as usize;
            let mut names: Vec<&str> = NAMES.to_vec();
            rng.shuffle(&mut names);
            named_tuple_type((0..k).map(|i| (names[i].to_owned(), gen_type(rng, depth - 1))).collect())
        }
    }
}

/// an invalid or borderline type for the malformed stream
fn gen_bad_type(rng: &mut Rng) -> Type {
    let st = *rng.pick(&ALL);
    match rng.below(6) {
        0 => array_type(vec![], st),
        1 => array_type(vec![2, 0, 3], st),
        2 => named_tuple_type(vec![("a".into(), scalar_type(st)), ("a".into(), scalar_type(BIT))]),
        3 => tuple_type(vec![scalar_type(st), array_type(vec![0], st)]),
        4 => vector_type(2, array_type(vec![], st)),
        _ => array_type(vec![1 << 40, 1 << 30], st),
    }
}

/// a shape that broadcasts with `s` (NumPy rules), possibly of another rank
fn compatible_shape(rng: &mut Rng, s: &[u64]) -> Vec<u64> {
    let mut r: Vec<u64> = s.to_vec();
    for d in r.iter_mut() {
        if rng.chance(1, 3) {
            *d = if *d == 1 { 1 + rng.below(3) } else { 1 };
        }
    }
    let cut = rng.below(r.len() as u64 + 1) as usize;
    if rng.chance(1, 3) {
        r = r[cut..].to_vec();
    } else if rng.chance(1, 5) {
        let mut pre: Vec<u64> = (0..1 + rng.below(2)).map(|_| 1 + rng.below(2)).collect();
        pre.extend(r);
        r = pre;
    }
    r
}

fn gen_slice(rng: &mut Rng, shape: &[u64], valid: bool) -> Slice {
    let rank = shape.len();
    let k = rng.below(rank as u64 + 1) as usize;
    let mut sl: Slice = vec![];
    // elements for the first k dims (or, with an ellipsis, split between front and back)
    let ell = rng.chance(1, 4);
    let ell_pos = rng.below(k as u64 + 1) as usize;
    let mut dims: Vec<u64> = vec![];
    for i in 0..k {
        // with an ellipsis at ell_pos, elements after it address the last dims
        let d = if ell && i >= ell_pos { shape[rank - (k - i)] } else { shape[i] };
        dims.push(d);
    }
    for (i, d) in dims.iter().enumerate() {
        let d = *d as i64;
        if ell && i == ell_pos {
            sl.push(SliceElement::Ellipsis);
        }
        let alias = |rng: &mut Rng, x: i64| if rng.chance(1, 3) { x - d } else { x };
        if rng.chance(1, 4) {
            let mut x = rng.range(0, d - 1);
            if !valid && rng.chance(1, 2) {
                x = d + rng.range(0, 1);
            }
            sl.push(SliceElement::SingleIndex(alias(rng, x)));
        } else {
            let step = if rng.chance(1, 3) { 1 } else { *rng.pick(&[1i64, 2, 3, -1, -2, -3, 4, -5]) };
            let b = rng.range(0, d - 1);
            // number of elements reachable from b with this step
            let maxc = if step > 0 { (d - 1 - b) / step + 1 } else { b / (-step) + 1 };
            let c = rng.range(1, maxc);
            // end: any value in the window that yields exactly c elements
            let last = b + step * (c - 1);
            let e_excl = if step > 0 { rng.range(last + 1, std::cmp::min(last + step, d)) } else { rng.range(std::cmp::max(last + step, -1), last - 1) };
            let mut bo = if rng.chance(1, 4) && ((step > 0 && b == 0) || (step < 0 && b == d - 1)) { None } else { Some(alias(rng, b)) };
            let mut eo = if (step > 0 && e_excl == d && rng.chance(1, 2)) || (step < 0 && e_excl == -1) {
                None
            } else if e_excl >= 0 {
                Some(alias(rng, e_excl))
            } else {
                None
            };
            let mut so = if step == 1 && rng.chance(1, 2) { None } else { Some(step) };
            if !valid {
                match rng.below(5) {
                    0 => so = Some(0),
                    1 => eo = Some(d + 1 + rng.range(0, 2)),
                    2 => bo = Some(d + rng.range(0, 1)),
                    3 => {
                        // empty
                        eo = bo;
                    }
                    _ => bo = Some(-d - 1),
                }
            }
            sl.push(SliceElement::SubArray(bo, eo, so));
        }
    }
    if ell && ell_pos >= dims.len() {
        sl.push(SliceElement::Ellipsis);
    }
    if !valid && rng.chance(1, 4) {
        sl.push(SliceElement::Ellipsis);
        if rng.chance(1, 2) {
            for _ in 0..rank + 1 {
                sl.push(SliceElement::SingleIndex(0));
            }
        }
    }
    sl
}

// ------------------------------------------------------------------------------------------------
// program generator
// ------------------------------------------------------------------------------------------------

#[derive(Clone)]
struct Callee {
    g: Graph,
    ins: Vec<Type>,
    out: Type,
}

struct Gen<'a> {
    run: &'a mut Run,
    rng: Rng,
    g: Graph,
    pool: Vec<(Node, Type)>,
    /// hints of the Input nodes of this graph, in order
    hints: Vec<Hint>,
    allow_inputs: bool,
    callees: Vec<Callee>,
    text: Vec<String>,
    broken: bool,
}

impl<'a> Gen<'a> {
    fn emit(&mut self, op: Operation, deps: &[usize], callee: Option<Graph>, mal: bool) -> Option<usize> {
        if self.broken {
            return None;
        }
        let dep_nodes: Vec<Node> = deps.iter().map(|i| self.pool[*i].0.clone()).collect();
        let dep_tys: Vec<Type> = deps.iter().map(|i| self.pool[*i].1.clone()).collect();
        let name = op_name(&op);
        let req = enc_op(&op, callee.as_ref()).map(|o| format!("infer {} {}", o, enc_types(&dep_tys)));
        let before = self.g.get_num_nodes();
        let g = self.g.clone();
        let gd: Vec<Graph> = callee.iter().cloned().collect();
        let op2 = op.clone();
        let r = catch(move || g.add_node(dep_nodes, gd, op2).and_then(|n| n.get_type().map(|t| (n, t))));
        let descr = format!("{} <- {:?}", req.clone().unwrap_or_else(|| format!("{:?} {}", op, enc_types(&dep_tys))), deps);
        let (answer, res) = match r {
            Err(p) => {
                self.run.oracle_fail(&format!("C09:panic:build:{}", name), format!("{} panic: {}", descr, trunc(&p, 200)));
                self.broken = true;
                ("PANIC".to_owned(), None)
            }
            Ok(Err(_)) => {
                if self.g.get_num_nodes() != before {
                    self.run.oracle_fail(&format!("C09:reject-left-node:{}", name), descr.clone());
                    self.broken = true;
                }
                ("ERR".to_owned(), None)
            }
            Ok(Ok((n, t))) => (format!("ok {}", enc_type(&t)), Some((n, t))),
        };
        self.run.count(&format!("op:{}:{}{}", name, if res.is_some() { "accept" } else { "reject" }, if mal { ":malformed" } else { "" }));
        if let Some(req) = req {
            let nontrivial = !matches!(op, Operation::Input(_));
            self.run.case(req, answer, nontrivial);
        } else {
            self.run.oracle_case(&descr, true);
        }
        match res {
            Some((n, t)) => {
                self.text.push(format!("%{} = {}", self.pool.len(), descr));
                self.pool.push((n, t));
                Some(self.pool.len() - 1)
            }
            None => None,
        }
    }

    /// a node of exactly this type: from the pool, or a fresh Input / Constant
    fn need(&mut self, t: Type, hint: Hint) -> Option<usize> {
        if matches!(hint, Hint::Any) && self.rng.chance(2, 3) {
            let c: Vec<usize> = (0..self.pool.len()).filter(|i| self.pool[*i].1 == t).collect();
            if !c.is_empty() {
                return Some(*self.rng.pick(&c));
            }
        }
        self.fresh(t, hint)
    }

    fn fresh(&mut self, t: Type, hint: Hint) -> Option<usize> {
        if self.allow_inputs && !self.rng.chance(1, 6) {
            let r = self.emit(Operation::Input(t), &[], None, false);
            if r.is_some() {
                self.hints.push(hint);
            }
            r
        } else {
            let v = gen_val(&mut self.rng, &t, &hint);
            self.emit(Operation::Constant(t, v), &[], None, false)
        }
    }

    fn pick_where(&mut self, f: impl Fn(&Type) -> bool) -> Option<usize> {
        let c: Vec<usize> = (0..self.pool.len()).filter(|i| f(&self.pool[*i].1)).collect();
        if c.is_empty() {
            None
        } else {
            Some(*self.rng.pick(&c))
        }
    }

    /// an array node (pool or fresh)
    fn arr(&mut self, f: impl Fn(&[u64], ScalarType) -> bool) -> Option<(usize, Vec<u64>, ScalarType)> {
        let found = if self.rng.chance(3, 4) { self.pick_where(|t| if let Type::Array(s, st) = t { f(s, *st) } else { false }) } else { None };
        let i = match found {
            Some(i) => i,
            None => {
                let mut tries = 0;
                let t = loop {
                    let s = small_shape(&mut self.rng);
                    let st = *self.rng.pick(&ALL);
                    tries += 1;
                    if f(&s, st) || tries > 50 {
                        break array_type(s, st);
                    }
                };
                self.fresh(t, Hint::Any)?
            }
        };
        match self.pool[i].1.clone() {
            Type::Array(s, st) => Some((i, s, st)),
            _ => None,
        }
    }

    fn any_node(&mut self) -> Option<usize> {
        if self.pool.is_empty() {
            let t = gen_type(&mut self.rng, 1);
            return self.fresh(t, Hint::Any);
        }
        Some(self.rng.below(self.pool.len() as u64) as usize)
    }

    /// scalar-or-array node
    fn sa(&mut self) -> Option<(usize, Vec<u64>, ScalarType)> {
        if self.rng.chance(1, 5) {
            let found = self.pick_where(|t| t.is_scalar());
            let i = match found {
                Some(i) => i,
                None => {
                    let st = *self.rng.pick(&ALL);
                    self.fresh(scalar_type(st), Hint::Any)?
                }
            };
            let st = self.pool[i].1.get_scalar_type();
            return Some((i, vec![], st));
        }
        self.arr(|_, _| true)
    }

    fn step_valid(&mut self) {
        let k = self.rng.below(46);
        self.run.count("steps:valid");
        match k {
            0 | 1 | 2 => {
                if let Some((a, s, st)) = self.sa() {
                    let s2 = if s.is_empty() || self.rng.chance(1, 6) { if self.rng.chance(1, 2) { vec![] } else { small_shape(&mut self.rng) } } else { compatible_shape(&mut self.rng, &s) };
                    if let Some(b) = self.need(arr_or_scalar(&s2, st), Hint::Any) {
                        let op = [Operation::Add, Operation::Subtract, Operation::Multiply][k as usize].clone();
                        let (x, y) = if self.rng.chance(1, 2) { (a, b) } else { (b, a) };
                        self.emit(op, &[x, y], None, false);
                    }
                }
            }
            3 => {
                if let Some((a, s, _)) = self.sa() {
                    if self.pool[a].1.get_scalar_type() == BIT {
                        return;
                    }
                    let s2 = if s.is_empty() { if self.rng.chance(1, 2) { vec![] } else { small_shape(&mut self.rng) } } else if self.rng.chance(1, 4) { vec![] } else { compatible_shape(&mut self.rng, &s) };
                    if let Some(b) = self.need(arr_or_scalar(&s2, BIT), Hint::Any) {
                        self.emit(Operation::MixedMultiply, &[a, b], None, false);
                    }
                }
            }
            4 => {
                // Dot
                if let Some((a, s, st)) = self.sa() {
                    let kdim = *s.last().unwrap_or(&1);
                    let s2: Vec<u64> = match self.rng.below(4) {
                        0 => vec![],
                        1 => vec![kdim],
                        2 => vec![kdim, 1 + self.rng.below(3)],
                        _ => vec![1 + self.rng.below(2), kdim, 1 + self.rng.below(3)],
                    };
                    if let Some(b) = self.need(arr_or_scalar(&s2, st), Hint::Any) {
                        self.emit(Operation::Dot, &[a, b], None, false);
                    }
                }
            }
            5 | 6 => {
                // Matmul: rank-1 operands, broadcast batch dims
                if let Some((a, s, st)) = self.arr(|_, _| true) {
                    let kdim = *s.last().unwrap();
                    let s2: Vec<u64> = if self.rng.chance(1, 3) {
                        vec![kdim]
                    } else {
                        let batch: Vec<u64> = if s.len() > 2 { compatible_shape(&mut self.rng, &s[..s.len() - 2]) } else if self.rng.chance(1, 3) { vec![1 + self.rng.below(2)] } else { vec![] };
                        let mut r = batch;
                        r.push(kdim);
                        r.push(1 + self.rng.below(3));
                        r
                    };
                    if let Some(b) = self.need(array_type(s2, st), Hint::Any) {
                        self.emit(Operation::Matmul, &[a, b], None, false);
                    }
                }
            }
            7 | 8 => {
                // Gemm(ta, tb): batch dims of 1, all four flag combinations
                if let Some((a, s, st)) = self.arr(|s, _| s.len() >= 2) {
                    let ta = self.rng.chance(1, 2);
                    let tb = self.rng.chance(1, 2);
                    let kdim = if ta { s[s.len() - 2] } else { s[s.len() - 1] };
                    let m = 1 + self.rng.below(3);
                    let mut r: Vec<u64> = if s.len() > 2 { compatible_shape(&mut self.rng, &s[..s.len() - 2]) } else if self.rng.chance(1, 3) { vec![1] } else if self.rng.chance(1, 3) { vec![2] } else { vec![] };
                    if tb {
                        r.push(m);
                        r.push(kdim);
                    } else {
                        r.push(kdim);
                        r.push(m);
                    }
                    if let Some(b) = self.need(array_type(r, st), Hint::Any) {
                        self.emit(Operation::Gemm(ta, tb), &[a, b], None, false);
                    }
                }
            }
            9 => {
                if let Some((a, _, st)) = self.sa() {
                    let d: u128 = match self.rng.below(6) {
                        0 => 1,
                        1 => 1u128 << self.rng.below(70),
                        2 => self.rng.next() as u128 | 1,
                        3 => i128::MAX as u128,
                        4 => {
                            if st.is_signed() {
                                3
                            } else {
                                u128::MAX - self.rng.below(3) as u128
                            }
                        }
                        _ => 2 + self.rng.below(1000) as u128,
                    };
                    self.emit(Operation::Truncate(d), &[a], None, false);
                }
            }
            10 | 11 => {
                if let Some((a, s, _)) = self.arr(|_, _| true) {
                    let mut axes: Vec<u64> = (0..s.len() as u64).collect();
                    self.rng.shuffle(&mut axes);
                    let keep = match self.rng.below(4) {
                        0 => 0,
                        1 => s.len(),
                        _ => self.rng.below(s.len() as u64 + 1) as usize,
                    };
                    axes.truncate(keep);
                    self.emit(Operation::Sum(axes), &[a], None, false);
                }
            }
            12 => {
                if let Some((a, s, _)) = self.arr(|_, _| true) {
                    let ax = if self.rng.chance(1, 2) { s.len() as u64 - 1 } else { self.rng.below(s.len() as u64) };
                    self.emit(Operation::CumSum(ax), &[a], None, false);
                }
            }
            13 => {
                if let Some((a, s, _)) = self.arr(|_, _| true) {
                    let mut axes: Vec<u64> = (0..s.len() as u64).collect();
                    self.rng.shuffle(&mut axes);
                    self.emit(Operation::PermuteAxes(axes), &[a], None, false);
                }
            }
            14 => {
                if let Some((a, s, _)) = self.arr(|_, _| true) {
                    let k = self.rng.below(s.len() as u64 + 1) as usize;
                    let idx: Vec<u64> = (0..k).map(|i| self.rng.below(s[i])).collect();
                    self.emit(Operation::Get(idx), &[a], None, false);
                }
            }
            15 | 16 | 17 => {
                if let Some((a, s, _)) = self.arr(|_, _| true) {
                    let sl = gen_slice(&mut self.rng, &s, true);
                    self.emit(Operation::GetSlice(sl), &[a], None, false);
                }
            }
            18 => {
                // Reshape
                if let Some(a) = self.any_node() {
                    let t = self.pool[a].1.clone();
                    let nt = self.reshaped(&t);
                    self.emit(Operation::Reshape(nt), &[a], None, false);
                }
            }
            19 => {
                // Stack
                if let Some((a, s, st)) = self.sa() {
                    let outer: Vec<u64> = match self.rng.below(5) {
                        0 => vec![1],
                        1 => vec![2],
                        2 => vec![1, 3],
                        3 => vec![2, 2],
                        _ => vec![3],
                    };
                    let n: u64 = outer.iter().product();
                    let mut deps = vec![a];
                    for _ in 1..n {
                        let s2 = if s.is_empty() { vec![] } else if self.rng.chance(1, 2) { s.clone() } else { compatible_shape(&mut self.rng, &s) };
                        match self.need(arr_or_scalar(&s2, st), Hint::Any) {
                            Some(b) => deps.push(b),
                            None => return,
                        }
                    }
                    self.rng.shuffle(&mut deps);
                    self.emit(Operation::Stack(outer), &deps, None, false);
                }
            }
            20 => {
                if let Some((a, s, st)) = self.arr(|_, _| true) {
                    let ax = self.rng.below(s.len() as u64) as usize;
                    let mut deps = vec![a];
                    for _ in 0..1 + self.rng.below(2) {
                        let mut s2 = s.clone();
                        s2[ax] = 1 + self.rng.below(3);
                        match self.need(array_type(s2, st), Hint::Any) {
                            Some(b) => deps.push(b),
                            None => return,
                        }
                    }
                    self.emit(Operation::Concatenate(ax as u64), &deps, None, false);
                }
            }
            21 => {
                if let Some((a, _, _)) = self.sa() {
                    if self.pool[a].1.get_scalar_type() != BIT {
                        self.emit(Operation::A2B, &[a], None, false);
                    }
                }
            }
            22 => {
                let st = *self.rng.pick(&ALL[1..]);
                let bits = st_bits(st) as u64;
                let mut s: Vec<u64> = if self.rng.chance(1, 2) { vec![] } else { vec![1 + self.rng.below(2)] };
                s.push(bits);
                let found = self.pick_where(|t| matches!(t, Type::Array(sh, BIT) if *sh.last().unwrap() == bits));
                let a = match found {
                    Some(a) => Some(a),
                    None => self.fresh(array_type(s, BIT), Hint::Any),
                };
                if let Some(a) = a {
                    self.emit(Operation::B2A(st), &[a], None, false);
                }
            }
            23 => {
                let n = self.rng.below(4);
                let mut deps = vec![];
                for _ in 0..n {
                    if let Some(a) = self.any_node() {
                        deps.push(a);
                    }
                }
                self.emit(Operation::CreateTuple, &deps, None, false);
            }
            24 => {
                let n = self.rng.below(4) as usize;
                let mut names: Vec<&str> = NAMES.to_vec();
                self.rng.shuffle(&mut names);
                let mut deps = vec![];
                for _ in 0..n {
                    if let Some(a) = self.any_node() {
                        deps.push(a);
                    }
                }
                let ns = (0..deps.len()).map(|i| names[i].to_owned()).collect();
                self.emit(Operation::CreateNamedTuple(ns), &deps, None, false);
            }
            25 => {
                if let Some(a) = self.any_node() {
                    let t = self.pool[a].1.clone();
                    let n = self.rng.below(4);
                    let mut deps = vec![];
                    for i in 0..n {
                        if i == 0 {
                            deps.push(a);
                        } else if let Some(b) = self.need(t.clone(), Hint::Any) {
                            deps.push(b);
                        }
                    }
                    self.emit(Operation::CreateVector(t), &deps, None, false);
                }
            }
            26 => {
                if let Some(a) = self.pick_where(|t| matches!(t, Type::Tuple(v) if !v.is_empty()) || matches!(t, Type::NamedTuple(v) if !v.is_empty())) {
                    let n = match &self.pool[a].1 {
                        Type::Tuple(v) => v.len(),
                        Type::NamedTuple(v) => v.len(),
                        _ => 1,
                    };
                    let i = self.rng.below(n as u64);
                    self.emit(Operation::TupleGet(i), &[a], None, false);
                }
            }
            27 => {
                if let Some(a) = self.pick_where(|t| matches!(t, Type::NamedTuple(v) if !v.is_empty())) {
                    if let Type::NamedTuple(v) = self.pool[a].1.clone() {
                        let name = self.rng.pick(&v).0.clone();
                        self.emit(Operation::NamedTupleGet(name), &[a], None, false);
                    }
                }
            }
            28 => {
                if let Some(a) = self.pick_where(|t| t.is_vector()) {
                    if let Type::Vector(n, _) = self.pool[a].1.clone() {
                        let it = scalar_type(if self.rng.chance(1, 2) { UINT64 } else { UINT32 });
                        if let Some(i) = self.fresh(it, Hint::Below(n)) {
                            self.emit(Operation::VectorGet, &[a, i], None, false);
                        }
                    }
                }
            }
            29 => {
                if let Some(a) = self.pick_where(|t| t.is_vector()) {
                    if let Type::Vector(n, _) = self.pool[a].1.clone() {
                        let mut deps = vec![a];
                        for _ in 0..1 + self.rng.below(2) {
                            let b = self.pick_where(|t| matches!(t, Type::Vector(m, _) if *m == n)).unwrap_or(a);
                            deps.push(b);
                        }
                        self.emit(Operation::Zip, &deps, None, false);
                    }
                }
            }
            30 => {
                if let Some(a) = self.any_node() {
                    let n = self.rng.below(4);
                    self.emit(Operation::Repeat(n), &[a], None, false);
                }
            }
            31 => {
                if let Some((a, _, _)) = self.arr(|_, _| true) {
                    self.emit(Operation::ArrayToVector, &[a], None, false);
                }
            }
            32 => {
                if let Some(a) = self.pick_where(|t| matches!(t, Type::Vector(n, e) if *n > 0 && (e.is_scalar() || e.is_array()))) {
                    self.emit(Operation::VectorToArray, &[a], None, false);
                }
            }
            33 => {
                if let Some((a, s, _)) = self.arr(|_, _| true) {
                    let ax = self.rng.below(s.len() as u64) as usize;
                    let d = s[ax];
                    let ist = *self.rng.pick(&[UINT8, UINT16, UINT32, UINT64]);
                    let ishape: Vec<u64> = match self.rng.below(3) {
                        0 => vec![d],
                        1 => vec![1 + self.rng.below(d)],
                        _ => {
                            if d >= 2 {
                                vec![1, d / 2, 1]
                            } else {
                                vec![1, 1]
                            }
                        }
                    };
                    if let Some(i) = self.fresh(array_type(ishape, ist), Hint::Below(d)) {
                        self.emit(Operation::Gather(ax as u64), &[a, i], None, false);
                    }
                }
            }
            34 => {
                let st = *self.rng.pick(&[UINT8, UINT16, UINT32, UINT64]);
                let n = 1 + self.rng.below(6);
                if let Some(p) = self.fresh(array_type(vec![n], st), Hint::Perm) {
                    self.emit(Operation::InversePermutation, &[p], None, false);
                }
            }
            35 => {
                if let Some((a, s, _)) = self.arr(|_, _| true) {
                    let st = *self.rng.pick(&[UINT8, UINT16, UINT32, UINT64]);
                    if let Some(p) = self.fresh(array_type(vec![s[0]], st), Hint::Perm) {
                        let inv = self.rng.chance(1, 2);
                        self.emit(Operation::ApplyPermutation(inv), &[a, p], None, false);
                    }
                }
            }
            36 => {
                // Sort: named tuple of columns with a common first dimension, 2-d BIT key
                let n = 1 + self.rng.below(5);
                let kb = 1 + self.rng.below(4);
                let key = self.fresh(array_type(vec![n, kb], BIT), Hint::Any);
                let pst = *self.rng.pick(&ALL);
                let ps = if self.rng.chance(1, 2) { vec![n] } else { vec![n, 1 + self.rng.below(2)] };
                let pay = self.fresh(array_type(ps, pst), Hint::Any);
                if let (Some(k), Some(p)) = (key, pay) {
                    let (d, names) = if self.rng.chance(1, 2) { (vec![k, p], vec!["key".to_owned(), "v".to_owned()]) } else { (vec![p, k], vec!["v".to_owned(), "key".to_owned()]) };
                    if let Some(t) = self.emit(Operation::CreateNamedTuple(names), &d, None, false) {
                        self.emit(Operation::Sort("key".to_owned()), &[t], None, false);
                    }
                }
            }
            37 => {
                let t = gen_type(&mut self.rng, 2);
                match self.rng.below(4) {
                    0 => {
                        self.emit(Operation::Zeros(t), &[], None, false);
                    }
                    1 => {
                        self.emit(Operation::Ones(t), &[], None, false);
                    }
                    2 => {
                        self.emit(Operation::Random(t), &[], None, false);
                    }
                    _ => {
                        let v = gen_val(&mut self.rng, &t, &Hint::Any);
                        self.emit(Operation::Constant(t, v), &[], None, false);
                    }
                }
            }
            38 => {
                let key = if self.rng.chance(1, 2) { self.emit(Operation::Random(array_type(vec![128], BIT)), &[], None, false) } else { self.need(array_type(vec![128], BIT), Hint::Any) };
                if let Some(k) = key {
                    if self.rng.chance(2, 3) {
                        let t = gen_type(&mut self.rng, 2);
                        self.emit(Operation::PRF(self.rng.clone().below(5), t), &[k], None, false);
                    } else {
                        let n = 1 + self.rng.below(6);
                        self.emit(Operation::PermutationFromPRF(self.rng.clone().below(5), n), &[k], None, false);
                    }
                }
            }
            39 => {
                if let Some(a) = self.any_node() {
                    match self.rng.below(3) {
                        0 => {
                            self.emit(Operation::NOP, &[a], None, false);
                        }
                        1 => {
                            let t = self.pool[a].1.clone();
                            // printing goes to stderr: keep it to small values
                            if get_size_in_bits(t).map(|b| b <= 64).unwrap_or(false) {
                                self.emit(Operation::Print("p".to_owned()), &[a], None, false);
                            }
                        }
                        _ => {
                            if let Some(c) = self.fresh(scalar_type(BIT), Hint::One) {
                                self.emit(Operation::Assert("m".to_owned()), &[c, a], None, false);
                            }
                        }
                    }
                }
            }
            40 => {
                let n = 1 + self.rng.below(6);
                self.emit(Operation::RandomPermutation(n), &[], None, false);
            }
            41 => {
                // SegmentCumSum
                if let Some((a, s, st)) = self.arr(|_, _| true) {
                    let b = self.need(array_type(vec![s[0]], BIT), Hint::Any);
                    let f = self.need(arr_or_scalar(&s[1..], st), Hint::Any);
                    if let (Some(b), Some(f)) = (b, f) {
                        self.emit(Operation::SegmentCumSum, &[a, b, f], None, false);
                    }
                }
            }
            42 => {
                // CuckooHash (+ CuckooToPermutation on its result)
                let bits = 2 + self.rng.below(5);
                let rows = 2 + self.rng.below(3);
                let n = 1 + self.rng.below(1 << (rows - 1));
                let mut s: Vec<u64> = if self.rng.chance(1, 3) { vec![2] } else { vec![] };
                s.push(n);
                s.push(bits);
                let inp = self.fresh(array_type(s, BIT), Hint::Any);
                let nh = 3 + self.rng.below(2);
                let h = self.fresh(array_type(vec![nh, rows, bits], BIT), Hint::Any);
                if let (Some(i), Some(h)) = (inp, h) {
                    if let Some(c) = self.emit(Operation::CuckooHash, &[i, h], None, false) {
                        if self.rng.chance(1, 2) {
                            self.emit(Operation::CuckooToPermutation, &[c], None, false);
                        }
                    }
                }
            }
            43 => {
                // DecomposeSwitchingMap / CuckooToPermutation on inputs
                if self.rng.chance(2, 3) {
                    let n = 1 + self.rng.below(6);
                    // rank-2 maps: the builder compares the FIRST dimension with n, the evaluator works
                    // per row of the LAST dimension
                    let rank2 = self.rng.chance(1, 3);
                    let len = if rank2 && self.rng.chance(1, 2) { 1 + self.rng.below(n + 2) } else { 1 + self.rng.below(n) };
                    let s = if rank2 { vec![1 + self.rng.below(2), len] } else { vec![len] };
                    if let Some(m) = self.fresh(array_type(s, UINT64), Hint::Below(n)) {
                        self.emit(Operation::DecomposeSwitchingMap(n), &[m], None, false);
                    }
                } else {
                    let n = 1 + self.rng.below(5);
                    if let Some(m) = self.fresh(array_type(vec![n], UINT64), Hint::Perm) {
                        self.emit(Operation::CuckooToPermutation, &[m], None, false);
                    }
                }
            }
            _ => {
                // Call / Iterate
                if self.callees.is_empty() {
                    return;
                }
                let c = self.rng.pick(&self.callees).clone();
                let as_iter = c.ins.len() == 2 && matches!(&c.out, Type::Tuple(v) if v.len() == 2 && *v[0] == c.ins[0]);
                if as_iter && self.rng.chance(2, 3) {
                    let s = self.need(c.ins[0].clone(), Hint::Any);
                    let n = self.rng.below(4);
                    let mut els = vec![];
                    for _ in 0..n {
                        if let Some(e) = self.need(c.ins[1].clone(), Hint::Any) {
                            els.push(e);
                        }
                    }
                    let v = self.emit(Operation::CreateVector(c.ins[1].clone()), &els, None, false);
                    if let (Some(s), Some(v)) = (s, v) {
                        self.emit(Operation::Iterate, &[s, v], Some(c.g.clone()), false);
                    }
                } else {
                    let mut deps = vec![];
                    for t in &c.ins {
                        match self.need(t.clone(), Hint::Any) {
                            Some(a) => deps.push(a),
                            None => return,
                        }
                    }
                    self.emit(Operation::Call, &deps, Some(c.g.clone()), false);
                }
            }
        }
    }

    /// a type that `t` can be reshaped into
    fn reshaped(&mut self, t: &Type) -> Type {
        match t {
            Type::Scalar(st) => {
                if self.rng.chance(1, 2) {
                    array_type(vec![1; 1 + self.rng.below(3) as usize], *st)
                } else {
                    t.clone()
                }
            }
            Type::Array(s, st) => {
                let n: u64 = s.iter().product();
                if n == 1 && self.rng.chance(1, 3) {
                    return scalar_type(*st);
                }
                // random factorisation of n
                let mut dims = vec![];
                let mut rest = n;
                while rest > 1 && dims.len() < 3 {
                    let divs: Vec<u64> = (1..=rest).filter(|d| rest % d == 0).collect();
                    let d = *self.rng.pick(&divs);
                    dims.push(d);
                    rest /= d;
                }
                dims.push(rest);
                self.rng.shuffle(&mut dims);
                array_type(dims, *st)
            }
            Type::Vector(n, e) => {
                if self.rng.chance(1, 2) {
                    tuple_type((0..*n).map(|_| self.reshaped(e)).collect())
                } else {
                    vector_type(*n, self.reshaped(e))
                }
            }
            Type::Tuple(ts) => {
                let r: Vec<Type> = ts.iter().map(|e| self.reshaped(e)).collect();
                if self.rng.chance(1, 2) && r.len() <= NAMES.len() {
                    named_tuple_type(r.into_iter().enumerate().map(|(i, e)| (NAMES[i].to_owned(), e)).collect())
                } else if r.len() >= 2 && r.iter().all(|x| *x == r[0]) && self.rng.chance(1, 2) {
                    vector_type(r.len() as u64, r[0].clone())
                } else {
                    tuple_type(r)
                }
            }
            Type::NamedTuple(fs) => tuple_type(fs.iter().map(|(_, e)| self.reshaped(e)).collect()),
        }
    }

    /// malformed candidate: wrong ranks, out-of-range axes, mismatched scalar types, zero dims,
    /// arbitrary argument nodes
    fn step_malformed(&mut self) {
        self.run.count("steps:malformed");
        if self.pool.is_empty() {
            let t = gen_bad_type(&mut self.rng);
            self.emit(Operation::Input(t), &[], None, true);
            return;
        }
        let n = self.pool.len() as u64;
        let a = self.rng.below(n) as usize;
        let b = self.rng.below(n) as usize;
        let c = self.rng.below(n) as usize;
        let rank = match &self.pool[a].1 {
            Type::Array(s, _) => s.len() as u64,
            _ => 1,
        };
        let shape = match &self.pool[a].1 {
            Type::Array(s, _) => s.clone(),
            _ => vec![2],
        };
        let ax = self.rng.below(rank + 2);
        let st = *self.rng.pick(&ALL);
        let k = self.rng.below(40);
        let op: (Operation, Vec<usize>) = match k {
            0 => (Operation::Add, vec![a, b]),
            1 => (Operation::Subtract, vec![a, b]),
            2 => (Operation::Multiply, vec![a, b]),
            3 => (Operation::MixedMultiply, vec![a, b]),
            4 => (Operation::Dot, vec![a, b]),
            5 => (Operation::Matmul, vec![a, b]),
            6 => (Operation::Gemm(self.rng.chance(1, 2), self.rng.chance(1, 2)), vec![a, b]),
            7 => (Operation::Truncate(*self.rng.pick(&[0u128, 1, (i128::MAX as u128) + 1, u128::MAX, 7])), vec![a]),
            8 => (Operation::Sum(vec![ax, self.rng.below(rank + 1)]), vec![a]),
            9 => (Operation::CumSum(ax), vec![a]),
            10 => {
                let mut axes: Vec<u64> = (0..rank).collect();
                self.rng.shuffle(&mut axes);
                match self.rng.below(3) {
                    0 => {
                        axes.pop();
                    }
                    1 => axes.push(ax),
                    _ => {
                        if !axes.is_empty() {
                            axes[0] = ax;
                        }
                    }
                }
                (Operation::PermuteAxes(axes), vec![a])
            }
            11 => {
                let mut idx: Vec<u64> = shape.iter().map(|d| self.rng.below(*d + 1)).collect();
                if self.rng.chance(1, 3) {
                    idx.push(0);
                }
                (Operation::Get(idx), vec![a])
            }
            12 | 13 | 14 => (Operation::GetSlice(gen_slice(&mut self.rng, &shape, false)), vec![a]),
            15 => {
                let mut s2 = shape.clone();
                let i = self.rng.below(s2.len() as u64) as usize;
                s2[i] += 1;
                let t = if self.rng.chance(1, 3) { gen_bad_type(&mut self.rng) } else { array_type(s2, st) };
                (Operation::Reshape(t), vec![a])
            }
            16 => (Operation::Stack(self.rng.pick(&[vec![2], vec![0], vec![], vec![1, 2], vec![3]]).clone()), vec![a, b]),
            17 => (Operation::Concatenate(ax), if self.rng.chance(1, 4) { vec![a] } else { vec![a, b] }),
            18 => (Operation::A2B, vec![a]),
            19 => (Operation::B2A(st), vec![a]),
            20 => (Operation::CreateNamedTuple(vec!["a".into(), if self.rng.chance(1, 2) { "a".into() } else { "b".into() }]), if self.rng.chance(1, 3) { vec![a] } else { vec![a, b] }),
            21 => (Operation::CreateVector(self.pool[b].1.clone()), vec![a, b]),
            22 => (Operation::TupleGet(self.rng.below(4)), vec![a]),
            23 => (Operation::NamedTupleGet(self.rng.pick(&NAMES).to_string()), vec![a]),
            24 => (Operation::VectorGet, vec![a, b]),
            25 => (Operation::Zip, if self.rng.chance(1, 3) { vec![a] } else { vec![a, b] }),
            26 => (Operation::ArrayToVector, vec![a]),
            27 => (Operation::VectorToArray, vec![a]),
            28 => (Operation::Gather(ax), vec![a, b]),
            29 => (Operation::InversePermutation, vec![a]),
            30 => (Operation::ApplyPermutation(self.rng.chance(1, 2)), vec![a, b]),
            31 => (Operation::Sort(self.rng.pick(&NAMES).to_string()), vec![a]),
            32 => {
                let t = gen_bad_type(&mut self.rng);
                match self.rng.below(5) {
                    0 => (Operation::Zeros(t), vec![]),
                    1 => (Operation::Ones(t), vec![]),
                    2 => (Operation::Random(t), vec![]),
                    3 => (Operation::Input(t), vec![]),
                    _ => (Operation::PRF(0, t), vec![a]),
                }
            }
            33 => {
                // constant whose value does not fit
                let t = gen_type(&mut self.rng, 1);
                let t2 = gen_type(&mut self.rng, 1);
                let v = gen_val(&mut self.rng, &t2, &Hint::Any);
                (Operation::Constant(t, v), vec![])
            }
            34 => (Operation::PermutationFromPRF(0, *self.rng.pick(&[0u64, 5, (1 << 30) + 1])), vec![a]),
            35 => (Operation::Assert("m".into()), vec![a, b]),
            36 => (Operation::SegmentCumSum, vec![a, b, c]),
            37 => (Operation::CuckooHash, vec![a, b]),
            38 => (Operation::DecomposeSwitchingMap(self.rng.below(4)), vec![a]),
            _ => {
                // wrong number of dependencies
                let op = self.rng.pick(&[Operation::Add, Operation::A2B, Operation::NOP, Operation::Matmul, Operation::VectorGet, Operation::RandomPermutation(0), Operation::RandomPermutation(3), Operation::CuckooToPermutation, Operation::Repeat(2)]).clone();
                let deps = match self.rng.below(3) {
                    0 => vec![],
                    1 => vec![a],
                    _ => vec![a, b, c],
                };
                (op, deps)
            }
        };
        if let Operation::Input(_) = op.0 {
            if let Some(_) = self.emit(op.0, &op.1, None, true) {
                self.hints.push(Hint::Any);
            }
            return;
        }
        self.emit(op.0, &op.1, None, true);
        // malformed Call / Iterate
        if !self.callees.is_empty() && self.rng.chance(1, 10) {
            let c = self.rng.pick(&self.callees).clone();
            let deps: Vec<usize> = (0..self.rng.below(4)).map(|_| self.rng.below(n) as usize).collect();
            let op = if deps.len() == 2 && self.rng.chance(1, 2) { Operation::Iterate } else { Operation::Call };
            self.emit(op, &deps, Some(c.g), true);
        }
    }
}

// ------------------------------------------------------------------------------------------------
// oracle: wrapping evaluator
// ------------------------------------------------------------------------------------------------

/// documented data-dependent run-time errors
fn allowed_runtime_error(op: &Operation, msg: &str) -> bool {
    match op {
        Operation::InversePermutation => msg.contains("valid permutation"),
        Operation::ApplyPermutation(_) => msg.contains("valid permutation") || msg.contains("Incorrect index"),
        Operation::Gather(_) => msg.contains("Incorrect index"),
        Operation::VectorGet => msg.contains("Index out of range"),
        Operation::Assert(_) => msg.contains("Assertion failed"),
        Operation::CuckooHash => msg.contains("Cuckoo hashing failed"),
        Operation::CuckooToPermutation => msg.contains("duplicate indices") || msg.contains("Indices are incorrect"),
        Operation::DecomposeSwitchingMap(_) => msg.contains("incorrect indices"),
        Operation::Join(_, _) | Operation::JoinWithColumnMasks(_, _) => msg.contains("duplicate") || msg.contains("unique"),
        _ => false,
    }
}

// ---- `evalop` correspondence cases (model `EvalOps.evalOp` vs `evaluate_node`) ------------------

thread_local! {
    /// (cap per operation name, cases recorded so far per operation name); reset by `corr`
    static EVALOP_BUDGET: std::cell::RefCell<(u64, std::collections::HashMap<String, u64>)> = std::cell::RefCell::new((0, std::collections::HashMap::new()));
}

fn evalop_reset(cap: u64) {
    EVALOP_BUDGET.with(|b| *b.borrow_mut() = (cap, std::collections::HashMap::new()));
}

fn evalop_has_budget(name: &str) -> bool {
    EVALOP_BUDGET.with(|b| {
        let b = b.borrow();
        b.1.get(name).copied().unwrap_or(0) < b.0
    })
}

fn evalop_spend(name: &str) {
    EVALOP_BUDGET.with(|b| *b.borrow_mut().1.entry(name.to_owned()).or_insert(0) += 1);
}

fn mask(x: u128, w: u32) -> u128 {
    if w >= 128 {
        x
    } else {
        x & ((1u128 << w) - 1)
    }
}

/// number of scalar entries of a value of this type
fn n_elems(t: &Type) -> u64 {
    match t {
        Type::Scalar(_) => 1,
        Type::Array(s, _) => s.iter().product(),
        Type::Vector(n, e) => n.saturating_mul(n_elems(e)),
        Type::Tuple(ts) => ts.iter().map(|e| n_elems(e)).sum(),
        Type::NamedTuple(fs) => fs.iter().map(|(_, e)| n_elems(e)).sum(),
    }
}

/// value in the `evalop` encoding: `r:<residues>` for a scalar / array, `l:<n>` + children otherwise
fn enc_ev(v: &Value, t: &Type) -> Option<String> {
    match t {
        Type::Scalar(st) => Some(format!("r:{}", mask(v.to_u128(*st).ok()?, st_bits(*st)))),
        Type::Array(_, st) => {
            let xs: Vec<u128> = v.to_flattened_array_u128(t.clone()).ok()?.into_iter().map(|x| mask(x, st_bits(*st))).collect();
            Some(format!("r:{}", show_list(&xs)))
        }
        Type::Vector(_, _) | Type::Tuple(_) | Type::NamedTuple(_) => {
            let ch = v.to_vector().ok()?;
            let tys: Vec<Type> = match t {
                Type::Vector(n, e) => (0..*n).map(|_| (**e).clone()).collect(),
                Type::Tuple(ts) => ts.iter().map(|e| (**e).clone()).collect(),
                Type::NamedTuple(fs) => fs.iter().map(|(_, e)| (**e).clone()).collect(),
                _ => return None,
            };
            if ch.len() != tys.len() {
                return None;
            }
            let mut s = format!("l:{}", ch.len());
            for (c, ct) in ch.iter().zip(tys.iter()) {
                s.push(' ');
                s.push_str(&enc_ev(c, ct)?);
            }
            Some(s)
        }
    }
}

fn is_flat(t: &Type) -> bool {
    t.is_scalar() || t.is_array()
}

/// operations evaluated by the model's `EvalOps.evalOp`
fn evalop_covered(op: &Operation, dep_types: &[Type]) -> bool {
    match op {
        Operation::Add
        | Operation::Subtract
        | Operation::Multiply
        | Operation::MixedMultiply
        | Operation::Dot
        | Operation::Matmul
        | Operation::Gemm(_, _)
        | Operation::Truncate(_)
        | Operation::Sum(_)
        | Operation::CumSum(_)
        | Operation::PermuteAxes(_)
        | Operation::Get(_)
        | Operation::GetSlice(_)
        | Operation::NOP
        | Operation::Stack(_)
        | Operation::Concatenate(_)
        | Operation::A2B
        | Operation::B2A(_)
        | Operation::ArrayToVector
        | Operation::VectorToArray
        | Operation::Gather(_)
        | Operation::InversePermutation
        | Operation::ApplyPermutation(_)
        | Operation::CreateTuple
        | Operation::CreateNamedTuple(_)
        | Operation::CreateVector(_)
        | Operation::TupleGet(_)
        | Operation::NamedTupleGet(_)
        | Operation::VectorGet
        | Operation::Zip
        | Operation::Repeat(_) => true,
        Operation::Reshape(_) => dep_types.len() == 1,
        _ => false,
    }
}

struct Ev {
    ev: SimpleEvaluator,
    rng: Rng,
    fails: Vec<(String, String)>,
    counts: Vec<String>,
    checked: u64,
    depth: u32,
    /// `evalop` model cases: (request, implementation's answer, nontrivial)
    cases: Vec<(String, String, bool)>,
}

impl Ev {
    /// record `evaluate_node`'s result on this node as a model case, when the operation is covered by
    /// the model's one-node evaluator, the values are small and the operation's budget is not exhausted
    fn record_evalop(&mut self, node: &Node, op: &Operation, name: &str, t: &Type, deps: &[Value], res: &ciphercore_base::errors::Result<Value>) {
        let dep_types: Vec<Type> = match node.get_node_dependencies().iter().map(|d| d.get_type()).collect::<ciphercore_base::errors::Result<Vec<Type>>>() {
            Ok(ts) => ts,
            Err(_) => return,
        };
        // Reshape between compound types has its own budget (flat reshapes would exhaust it first)
        let compound = matches!(op, Operation::Reshape(nt) if !is_flat(nt) || dep_types.iter().any(|dt| !is_flat(dt)));
        let budget_name = if compound { format!("{}(compound)", name) } else { name.to_owned() };
        let name = budget_name.as_str();
        if dep_types.len() != deps.len() || !evalop_covered(op, &dep_types) || !evalop_has_budget(name) {
            return;
        }
        if dep_types.iter().any(|dt| n_elems(dt) > 64) || n_elems(t) > 256 {
            return;
        }
        let enc = catch(|| -> Option<(String, String)> {
            let mut req = format!("evalop {} {}", enc_op(op, None)?, enc_types(&dep_types));
            for (d, dt) in deps.iter().zip(dep_types.iter()) {
                req.push(' ');
                req.push_str(&enc_ev(d, dt)?);
            }
            let ans = match res {
                Ok(v) => format!("ok {}", enc_ev(v, t)?),
                Err(_) => "ERR".to_owned(),
            };
            Some((req, ans))
        });
        if let Ok(Some((req, ans))) = enc {
            evalop_spend(name);
            let nontrivial = dep_types.iter().any(|dt| n_elems(dt) > 1);
            self.cases.push((req, ans, nontrivial));
        }
    }
}

impl Ev {
    fn graph(&mut self, g: &Graph, inputs: Vec<Value>, prog: &str) -> Option<Value> {
        let nodes = g.get_nodes();
        let mut vals: Vec<Value> = vec![];
        let mut input_id = 0;
        for node in nodes.iter() {
            let op = node.get_operation();
            let name = op_name(&op);
            let t = match node.get_type() {
                Ok(t) => t,
                Err(e) => {
                    self.fails.push((format!("C09:no-type:{}", name), format!("{} node {}: {}", prog, node.get_id(), e)));
                    return None;
                }
            };
            let deps: Vec<Value> = node.get_node_dependencies().iter().map(|d| vals[d.get_id() as usize].clone()).collect();
            let v: Option<Value> = match op.clone() {
                Operation::Input(_) => {
                    let v = inputs.get(input_id).cloned();
                    input_id += 1;
                    v
                }
                Operation::Call => {
                    let callee = node.get_graph_dependencies()[0].clone();
                    self.depth += 1;
                    let r = self.graph(&callee, deps.clone(), prog);
                    self.depth -= 1;
                    r
                }
                Operation::Iterate => {
                    let callee = node.get_graph_dependencies()[0].clone();
                    let mut state = deps[0].clone();
                    let mut outs = vec![];
                    let mut ok = true;
                    let seq = match catch(|| deps[1].to_vector()) {
                        Ok(Ok(s)) => s,
                        _ => {
                            self.fails.push((format!("C09:type-mismatch:{}", name), format!("{} node {}: sequence is not a vector", prog, node.get_id())));
                            return None;
                        }
                    };
                    for x in seq {
                        self.depth += 1;
                        let r = self.graph(&callee, vec![state.clone(), x], prog);
                        self.depth -= 1;
                        match r.and_then(|r| r.to_vector().ok()) {
                            Some(r) if r.len() == 2 => {
                                state = r[0].clone();
                                outs.push(r[1].clone());
                            }
                            _ => {
                                ok = false;
                                break;
                            }
                        }
                    }
                    if ok {
                        Some(Value::from_vector(vec![state, Value::from_vector(outs)]))
                    } else {
                        None
                    }
                }
                _ => {
                    let n2 = node.clone();
                    let d2 = deps.clone();
                    let ev = &mut self.ev;
                    let r = catch(move || ev.evaluate_node(n2, d2));
                    if let Ok(res) = &r {
                        self.record_evalop(node, &op, &name, &t, &deps, res);
                    }
                    match r {
                        Err(p) => {
                            self.fails.push((format!("C09:panic:{}", name), format!("{} node {} op {:?} deps [{}]: panic {}", prog, node.get_id(), op, deps.iter().map(|d| trunc(&enc_value(d), 200)).collect::<Vec<_>>().join(" | "), trunc(&p, 200))));
                            None
                        }
                        Ok(Err(e)) => {
                            let msg = format!("{}", e);
                            if allowed_runtime_error(&op, &msg) {
                                self.counts.push(format!("runtime_err:{}", name));
                                // continue the program with an arbitrary value of the node's type
                                Some(gen_val(&mut self.rng, &t, &Hint::Any))
                            } else {
                                self.fails.push((format!("C09:late-rejection:{}", name), format!("{} node {} op {:?} deps [{}]: {}", prog, node.get_id(), op, deps.iter().map(|d| trunc(&enc_value(d), 200)).collect::<Vec<_>>().join(" | "), trunc(&msg, 300))));
                                None
                            }
                        }
                        Ok(Ok(v)) => Some(v),
                    }
                }
            };
            let v = v?;
            let (v2, t2) = (v.clone(), t.clone());
            match catch(move || v2.check_type(t2)) {
                Ok(Ok(true)) => {}
                other => {
                    self.fails.push((
                        format!("C09:type-mismatch:{}", name),
                        format!("{} node {} op {:?}: value {} does not check against {} ({:?})", prog, node.get_id(), op, trunc(&enc_value(&v), 300), enc_type(&t), other.map(|r| r.map_err(|e| format!("{}", e)))),
                    ));
                    return None;
                }
            }
            self.checked += 1;
            self.counts.push(format!("eval:{}", name));
            vals.push(v);
        }
        g.get_output_node().ok().map(|o| vals[o.get_id() as usize].clone())
    }
}

fn evaluate_program(run: &mut Run, rng: &mut Rng, main: &Graph, inputs: Vec<Value>, prog: &str) {
    let ev = match SimpleEvaluator::new(Some(rng.seed16())) {
        Ok(e) => e,
        Err(_) => return,
    };
    let mut e = Ev { ev, rng: rng.clone(), fails: vec![], counts: vec![], checked: 0, depth: 0, cases: vec![] };
    let out = e.graph(main, inputs, prog);
    for (req, ans, nontrivial) in std::mem::take(&mut e.cases) {
        let name = req.split(' ').nth(1).unwrap_or("?").to_owned();
        run.case(req, ans, nontrivial);
        run.count(&format!("evalop:{}", name));
    }
    run.oracle_case(prog, true);
    run.count(if out.is_some() { "programs:evaluated" } else { "programs:stopped" });
    run.count_n("oracle:node-values-checked", e.checked);
    for c in e.counts {
        run.count(&c);
    }
    for (sig, detail) in e.fails {
        run.oracle_fail(&sig, detail);
    }
}

// ------------------------------------------------------------------------------------------------
// streams
// ------------------------------------------------------------------------------------------------

fn gen_graph(run: &mut Run, rng: &mut Rng, g: &Graph, callees: &[Callee], fixed_inputs: Option<Vec<Type>>, steps: usize, p_mal: u64) -> (Vec<(Node, Type)>, Vec<Hint>, Vec<String>, bool) {
    let mut gen = Gen { run, rng: rng.clone(), g: g.clone(), pool: vec![], hints: vec![], allow_inputs: fixed_inputs.is_none(), callees: callees.to_vec(), text: vec![], broken: false };
    match &fixed_inputs {
        Some(ts) => {
            for t in ts {
                if gen.emit(Operation::Input(t.clone()), &[], None, false).is_some() {
                    gen.hints.push(Hint::Any);
                }
            }
        }
        None => {
            for _ in 0..1 + gen.rng.below(3) {
                let t = if gen.rng.chance(3, 4) { array_type(small_shape(&mut gen.rng), *gen.rng.clone().pick(&ALL)) } else { gen_type(&mut gen.rng, 2) };
                if gen.emit(Operation::Input(t), &[], None, false).is_some() {
                    gen.hints.push(Hint::Any);
                }
            }
        }
    }
    for _ in 0..steps {
        if gen.broken {
            break;
        }
        if gen.rng.below(100) < p_mal {
            gen.step_malformed();
        } else {
            gen.step_valid();
        }
    }
    *rng = gen.rng.clone();
    (gen.pool, gen.hints, gen.text, gen.broken)
}

fn stream_programs(run: &mut Run) {
    let mut rng = run.rng("programs");
    let n_prog = run.tier.scale(4000, 40000);
    for pi in 0..n_prog {
        let c = match create_context() {
            Ok(c) => c,
            Err(_) => return,
        };
        let mut callees: Vec<Callee> = vec![];
        let mut text: Vec<String> = vec![];
        let mut broken = false;
        let n_callees = if rng.chance(1, 2) { 0 } else { 1 + rng.below(3) };
        for ci in 0..n_callees {
            let g = c.create_graph().unwrap();
            let iterate_body = rng.chance(1, 2);
            let st = *rng.pick(&ALL);
            let ins: Vec<Type> = if iterate_body {
                let s = if rng.chance(1, 2) { vec![] } else { small_shape(&mut rng) };
                vec![arr_or_scalar(&s, st), if rng.chance(1, 2) { arr_or_scalar(&s, st) } else { gen_type(&mut rng, 1) }]
            } else {
                (0..rng.below(3)).map(|_| if rng.chance(2, 3) { array_type(small_shape(&mut rng), st) } else { gen_type(&mut rng, 1) }).collect()
            };
            let csteps = 2 + rng.below(4) as usize;
            let (pool, _, t, b) = gen_graph(run, &mut rng, &g, &callees, Some(ins.clone()), csteps, 10);
            broken |= b;
            text.push(format!("graph {} [{}] {{ {} }}", ci, if iterate_body { "iterate body" } else { "callee" }, t.join("; ")));
            if b {
                continue;
            }
            let pool = if pool.is_empty() {
                match g.zeros(scalar_type(BIT)) {
                    Ok(z) => vec![(z, scalar_type(BIT))],
                    Err(_) => {
                        broken = true;
                        continue;
                    }
                }
            } else {
                pool
            };
            let out = if iterate_body && pool.len() >= 2 {
                // (new state, output): new state = any node of the state's type
                let cands: Vec<usize> = (0..pool.len()).filter(|i| pool[*i].1 == ins[0]).collect();
                let s = pool[*rng.pick(&cands)].0.clone();
                let o = pool[rng.below(pool.len() as u64) as usize].0.clone();
                match g.create_tuple(vec![s, o]) {
                    Ok(n) => n,
                    Err(_) => {
                        broken = true;
                        continue;
                    }
                }
            } else {
                pool[rng.below(pool.len() as u64) as usize].0.clone()
            };
            if g.set_output_node(out.clone()).is_err() || g.finalize().is_err() {
                broken = true;
                continue;
            }
            // an Input added on demand changes the signature: read it back from the graph
            if let Some((ins, out)) = signature(&g) {
                callees.push(Callee { g: g.clone(), ins, out });
            }
        }
        let g = c.create_graph().unwrap();
        let steps = 6 + rng.below(14) as usize;
        let (pool, hints, t, b) = gen_graph(run, &mut rng, &g, &callees, None, steps, 22);
        broken |= b;
        text.push(format!("main {{ {} }}", t.join("; ")));
        let prog = format!("program#{} seed={} :: {}", pi, run.seed, text.join(" "));
        if broken || pool.is_empty() {
            continue;
        }
        let out = pool[pool.len() - 1].0.clone();
        if g.set_output_node(out).is_err() || g.finalize().is_err() || c.set_main_graph(g.clone()).is_err() || c.finalize().is_err() {
            run.oracle_fail("C09:finalize", trunc(&prog, 2000));
            continue;
        }
        // inputs of the declared types
        let mut in_types = vec![];
        for n in g.get_nodes() {
            if let Operation::Input(t) = n.get_operation() {
                in_types.push(t);
            }
        }
        for rep in 0..2 {
            let inputs: Vec<Value> = in_types.iter().enumerate().map(|(i, t)| gen_val(&mut rng, t, hints.get(i).unwrap_or(&Hint::Any))).collect();
            let p = trunc(&format!("{} rep{}", prog, rep), 6000);
            evaluate_program(run, &mut rng, &g, inputs, &p);
        }
    }
}

/// families with custom operations, Sort, Join, Call / Iterate: instantiate, evaluate every node
fn stream_families(run: &mut Run) {
    use crate::families::*;
    let mut rng = run.rng("families");
    let n = run.tier.scale(300, 3000);
    for i in 0..n {
        let fam = match i % 6 {
            0 | 1 => compare_family(&mut rng),
            2 => join_family(&mut rng, &[JoinType::Inner, JoinType::Left, JoinType::Union, JoinType::Full]),
            3 => sort_family(&mut rng),
            4 => call_iterate_family(&mut rng),
            _ => conversion_family(&mut rng),
        };
        let fam = match fam {
            Ok(f) => f,
            Err(e) => {
                run.oracle_fail("C09:family-build", format!("{}", e));
                continue;
            }
        };
        run.count(&format!("family:{}", fam.name));
        let ctx = fam.ctx.clone();
        let inst = match catch(move || run_instantiation_pass(ctx)) {
            Ok(Ok(m)) => m.get_context(),
            Ok(Err(e)) => {
                run.oracle_fail(&format!("C09:late-rejection:instantiate:{}", fam.name), format!("{}: {}", fam.descr, e));
                continue;
            }
            Err(p) => {
                run.oracle_fail(&format!("C09:panic:instantiate:{}", fam.name), format!("{}: {}", fam.descr, p));
                continue;
            }
        };
        // the type inferred for the source program (custom node typed through instantiation) must be
        // the type of the instantiated program
        let g = inst.get_main_graph().unwrap();
        let t_inst = g.get_output_node().and_then(|n| n.get_type());
        if t_inst.as_ref().ok() != Some(&fam.out_type) {
            run.oracle_fail(&format!("C09:type-mismatch:instantiate:{}", fam.name), format!("{}: {:?} vs {:?}", fam.descr, t_inst, fam.out_type));
        }
        let prog = format!("family {} {} inputs [{}]", fam.name, fam.descr, fam.inputs.iter().map(|v| trunc(&enc_value(v), 120)).collect::<Vec<_>>().join(" | "));
        evaluate_program(run, &mut rng, &g, fam.inputs.clone(), &prog);
    }
}

/// `slice_index` on every result index of accepted slices
fn stream_slices(run: &mut Run) {
    let mut rng = run.rng("slices");
    let n = run.tier.scale(1500, 15000);
    for _ in 0..n {
        let shape = small_shape(&mut rng);
        let valid = !rng.chance(1, 6);
        let sl = gen_slice(&mut rng, &shape, valid);
        // result shape through the builder
        let res = catch(|| -> ciphercore_base::errors::Result<Type> {
            let c = create_context()?;
            let g = c.create_graph()?;
            let i = g.input(array_type(shape.clone(), UINT8))?;
            g.get_slice(i, sl.clone())?.get_type()
        });
        let ans = match &res {
            Ok(Ok(t)) => show_list(&match t {
                Type::Array(s, _) => s.clone(),
                _ => vec![],
            }),
            Ok(Err(_)) => "ERR".to_owned(),
            Err(_) => "PANIC".to_owned(),
        };
        run.case(format!("slice {} {}", show_list(&shape), enc_slice(&sl)), ans, true);
        run.count(if matches!(res, Ok(Ok(_))) { "slice:accept" } else { "slice:reject" });
        if let Ok(Ok(t)) = res {
            let rs = t.get_dimensions();
            let total: u64 = rs.iter().product();
            for i in 0..total {
                let idx = ciphercore_base::broadcast::number_to_index(i, &rs);
                let (sh2, sl2, idx2) = (shape.clone(), sl.clone(), idx.clone());
                let r = catch(move || slice_index(sh2, sl2, idx2));
                let ans = match &r {
                    Ok(Ok(v)) => show_list(v),
                    Ok(Err(_)) => "ERR".to_owned(),
                    Err(_) => "PANIC".to_owned(),
                };
                run.case(format!("sidx {} {} {}", show_list(&shape), show_list(&idx), enc_slice(&sl)), ans, true);
                // oracle: in range, and distinct result indices hit distinct source indices
                match r {
                    Ok(Ok(v)) => {
                        if v.len() != shape.len() || v.iter().zip(shape.iter()).any(|(x, d)| x >= d) {
                            run.oracle_fail("C09:slice-index:out-of-range", format!("shape {:?} slice {} index {:?} -> {:?}", shape, enc_slice(&sl), idx, v));
                        }
                    }
                    Ok(Err(e)) => run.oracle_fail("C09:late-rejection:slice_index", format!("shape {:?} slice {} index {:?}: {}", shape, enc_slice(&sl), idx, e)),
                    Err(p) => run.oracle_fail("C09:panic:slice_index", format!("shape {:?} slice {} index {:?}: {}", shape, enc_slice(&sl), idx, p)),
                }
                run.oracle_case("sidx", false);
            }
        }
    }
}

pub fn corr(run: &mut Run) {
    run.rule = "P: type-directed random programs (contexts with 0-3 finalized callee graphs + main graph, 6-19 steps; ~78% candidates built to fit the pool's types, ~22% malformed: arbitrary argument nodes, out-of-range axes, wrong ranks, mismatched scalar types, zero / empty / oversized dims, wrong dependency counts); each candidate is a model request `infer <op> <arg types>` answered by Graph::add_node + get_type; non-trivial = any candidate other than Input. Oracle: each finished program is evaluated twice node by node (SimpleEvaluator::evaluate_node, nested Call/Iterate) with check_type of every value. F: custom-op / join / sort / call families instantiated and evaluated the same way. S: slice_index on every result index of random slices. E: every evaluated node of the 32 operations covered by the model's one-node evaluator (arithmetic, matrix products, structural ops, Stack/Concatenate/B2A, GetSlice, Reshape incl. compound types with a budget of their own, tuple / named-tuple / vector constructors and accessors, VectorGet with its run-time error, Zip, Repeat, ApplyPermutation) is replayed as `evalop <op> <dep types> <dep values>` and must give exactly the evaluator's value or error (per-operation cap).".to_owned();
    evalop_reset(run.tier.scale(320, 3200) as u64);
    stream_programs(run);
    stream_families(run);
    stream_slices(run);
    stream_graph_api(run);
    run.rule.push_str(" R: programs that continue after a REFUSED node (size budgets): the following nodes must get the type a fresh context infers, ill-fitting operations must be rejected, the value must have the inferred type.");
    stream_after_refusal(run);
}

/// R: soundness must survive a REFUSED node. Nodes are refused after their type was inferred when a size
/// budget is exceeded (per node, or the context-wide budget for inputs and constants — here used up by
/// another, never evaluated graph of the same context). The program carries on; the next nodes must get
/// exactly the type a fresh context infers for them, ill-fitting operations must still be rejected, and
/// the value of the graph must have the inferred type.
fn stream_after_refusal(run: &mut Run) {
    let mut rng = run.rng("after-refusal");
    let n = run.tier.scale(24, 200);
    for it in 0..n {
        let named = it % 4 == 3;
        let budget_hog_first = it % 2 == 0;
        let refused_kind = (it / 2) % 3;
        let r = catch(|| -> ciphercore_base::errors::Result<Option<String>> {
            let big = array_type(vec![1 << 63], BIT);
            let c = create_context()?;
            let g = c.create_graph()?;
            let x = g.input(array_type(vec![2, 3], INT32))?;
            if named {
                x.set_name("x")?;
            }
            let hog = |c: &Context| -> ciphercore_base::errors::Result<()> {
                let side = c.create_graph()?;
                side.input(array_type(vec![1 << 63], BIT))?.set_as_output()?;
                side.finalize()?;
                Ok(())
            };
            if budget_hog_first {
                hog(&c)?;
            }
            // refused nodes (each may also be accepted, depending on the budget: both are fine)
            let refused = match refused_kind {
                0 => g.input(big.clone()).is_err(),
                1 => g.input(array_type(vec![1 << 62, 4], UINT64)).is_err(),
                _ => g.constant(big.clone(), Value::from_bytes(vec![])).is_err(),
            };
            if !budget_hog_first {
                let _ = hog(&c);
            }
            // carry on: the same three nodes in this context and in a fresh one
            let fresh = create_context()?;
            let fg = fresh.create_graph()?;
            let fx = fg.input(array_type(vec![2, 3], INT32))?;
            let a = x.get(vec![0]);
            let fa = fx.get(vec![0]);
            match (&a, &fa) {
                (Ok(a), Ok(fa)) => {
                    if a.get_type()? != fa.get_type()? {
                        return Ok(Some(format!("x.get([0]) of an i32[2,3] input gets type {:?} after a refused node (refused: {}), a fresh context infers {:?}", a.get_type()?, refused, fa.get_type()?)));
                    }
                }
                (Err(_), Ok(_)) | (Ok(_), Err(_)) => return Ok(Some(format!("x.get([0]) accepted: {} after a refused node, {} in a fresh context", a.is_ok(), fa.is_ok()))),
                _ => {}
            }
            let m = x.matmul(x.clone());
            if m.is_ok() {
                return Ok(Some(format!("matmul of i32[2,3] by i32[2,3] is accepted after a refused node (refused: {})", refused)));
            }
            let s1 = x.add(x.clone())?;
            let s2 = rng_free_sum(&s1)?;
            let fs = fx.add(fx.clone())?.sum(vec![0])?;
            if s2.get_type()? != fs.get_type()? {
                return Ok(Some(format!("(x+x).sum([0]) gets type {:?} after a refused node, a fresh context infers {:?}", s2.get_type()?, fs.get_type()?)));
            }
            // value of the graph has the inferred type
            s2.set_as_output()?;
            g.finalize()?;
            g.set_as_main()?;
            c.finalize()?;
            let mut ev = SimpleEvaluator::new(None)?;
            ev.preprocess(&c)?;
            let v = ev.evaluate_graph(g.clone(), vec![Value::from_flattened_array(&[1, 2, 3, 4, 5, 6], INT32)?])?;
            if !v.check_type(s2.get_type()?)? {
                return Ok(Some("the value of (x+x).sum([0]) does not have the node's inferred type after a refused node".to_owned()));
            }
            Ok(None)
        });
        let descr = format!("after-refusal variant named={} hog-first={} refused-kind={}", named, budget_hog_first, refused_kind);
        run.oracle_case(&descr, true);
        run.count("after-refusal:cases");
        match r {
            Ok(Ok(None)) => {}
            Ok(Ok(Some(why))) => run.oracle_fail("C09:unsound-after-refused-node", format!("{} : {}", descr, why)),
            Ok(Err(e)) => run.count(&format!("after-refusal:err:{}", trunc(&format!("{}", e), 40))),
            Err(p) => run.oracle_fail("C09:panic:after-refusal", format!("{} : {}", descr, p)),
        }
        let _ = &mut rng;
    }
}

fn rng_free_sum(n: &Node) -> ciphercore_base::errors::Result<Node> {
    n.sum(vec![0])
}

/// G: the graph-level entry point (`Evaluator::evaluate_graph`, which `random_evaluate` and every
/// application use) on straight-line programs whose OUTPUT node is an arbitrary node of the graph —
/// in particular one that later nodes also consume — in the main graph and inside Call / Iterate
/// bodies. Oracle: no panic, no error, and the value equals the node-by-node evaluation.
fn stream_graph_api(run: &mut Run) {
    let mut rng = run.rng("G");
    for _ in 0..run.tier.scale(300, 3000) {
        let st = *rng.pick(&[INT32, UINT64, INT64, UINT8, BIT]);
        let t = if rng.chance(1, 2) { scalar_type(st) } else { array_type(vec![2, 2], st) };
        let n_in = 1 + rng.below(2) as usize;
        let n_ops = 2 + rng.below(5) as usize;
        // op list: (kind, a, b)
        let mut ops: Vec<(u8, usize, usize)> = vec![];
        for k in 0..n_ops {
            let n = n_in + k;
            ops.push((rng.below(3) as u8, if rng.chance(1, 2) { n - 1 } else { rng.below(n as u64) as usize }, rng.below(n as u64) as usize));
        }
        let out_ix = rng.below((n_in + n_ops) as u64) as usize;
        let wrap = rng.below(3); // 0: main graph, 1: Call, 2: Iterate body
        let build = |g: &Graph| -> ciphercore_base::errors::Result<Vec<Node>> {
            let mut nodes = vec![];
            for _ in 0..n_in {
                nodes.push(g.input(t.clone())?);
            }
            for (k, a, b) in &ops {
                let (x, y) = (nodes[*a].clone(), nodes[*b].clone());
                nodes.push(match k {
                    0 => x.add(y)?,
                    1 => x.subtract(y)?,
                    _ => x.multiply(y)?,
                });
            }
            Ok(nodes)
        };
        let descr = format!("G: {} inputs, ops {:?}, output = node {} of {}, {}", n_in, ops, out_ix, n_in + n_ops, ["main graph", "called graph", "iterate body"][wrap as usize]);
        let r = catch(|| -> ciphercore_base::errors::Result<(Value, Value)> {
            let c = create_context()?;
            let inner = c.create_graph()?;
            let nodes = build(&inner)?;
            let main = if wrap == 0 {
                nodes[out_ix].set_as_output()?;
                inner.finalize()?;
                inner.clone()
            } else if wrap == 1 {
                nodes[out_ix].set_as_output()?;
                inner.finalize()?;
                let g = c.create_graph()?;
                let args: Vec<Node> = (0..n_in).map(|_| g.input(t.clone())).collect::<ciphercore_base::errors::Result<_>>()?;
                g.call(inner.clone(), args)?.set_as_output()?;
                g.finalize()?;
                g
            } else {
                // body needs exactly (state, input) -> (state, output): use a 2-input variant
                if n_in != 2 {
                    return Err(ciphercore_base::runtime_error!("skip"));
                }
                inner.create_tuple(vec![nodes[out_ix].clone(), nodes[nodes.len() - 1].clone()])?.set_as_output()?;
                inner.finalize()?;
                let g = c.create_graph()?;
                let s0 = g.input(t.clone())?;
                let x0 = g.input(t.clone())?;
                let v = g.create_vector(t.clone(), vec![x0.clone(), x0])?;
                g.iterate(inner.clone(), s0, v)?.tuple_get(0)?.set_as_output()?;
                g.finalize()?;
                g
            };
            c.set_main_graph(main.clone())?;
            c.finalize()?;
            let inputs: Vec<Value> = (0..n_in).map(|_| match &t { Type::Scalar(_) => gen_array_value(&mut rng.clone(), &[1], st).1, Type::Array(sh, _) => gen_array_value(&mut rng.clone(), sh, st).1, _ => unreachable!() }).collect();
            // the graph-level API
            let mut ev = SimpleEvaluator::new(Some([3; 16]))?;
            ev.preprocess(&c)?;
            let got = ev.evaluate_graph(main.clone(), inputs.clone())?;
            // reference: node by node on the inner graph (iterate: two rounds by hand)
            let mut ev2 = SimpleEvaluator::new(Some([3; 16]))?;
            ev2.preprocess(&c)?;
            let mut run_inner = |ins: Vec<Value>| -> ciphercore_base::errors::Result<Vec<Value>> {
                let mut vals: Vec<Value> = vec![];
                let mut k = 0;
                for n in inner.get_nodes() {
                    if n.get_operation().is_input() {
                        vals.push(ins[k].clone());
                        k += 1;
                    } else {
                        let d = n.get_node_dependencies().iter().map(|x| vals[x.get_id() as usize].clone()).collect();
                        vals.push(ev2.evaluate_node(n.clone(), d)?);
                    }
                }
                Ok(vals)
            };
            let want = if wrap == 2 {
                let v1 = run_inner(vec![inputs[0].clone(), inputs[1].clone()])?;
                let v2 = run_inner(vec![v1[out_ix].clone(), inputs[1].clone()])?;
                v2[out_ix].clone()
            } else {
                run_inner(inputs.clone())?[out_ix].clone()
            };
            Ok((got, want))
        });
        match r {
            Err(p) => run.oracle_fail("C09:panic:evaluate_graph", format!("{} : panic {}", descr, trunc(&p, 200))),
            Ok(Err(e)) => {
                if format!("{}", e).contains("skip") {
                    continue;
                }
                run.oracle_fail("C09:late-rejection:evaluate_graph", format!("{} : {}", descr, trunc(&format!("{}", e), 200)))
            }
            Ok(Ok((got, want))) => {
                run.oracle_case(&descr, true);
                run.count(&format!("G:{}", ["main", "call", "iterate"][wrap as usize]));
                if got != want {
                    run.oracle_fail("C09:evaluate_graph:differs-from-nodewise", format!("{} : evaluate_graph and node-by-node evaluation differ", descr));
                }
            }
        }
    }
}
