//! Type-directed generator of MPC-compilable source programs ("families") with input generators.
use crate::util::*;
use crate::vals::*;
use ciphercore_base::custom_ops::CustomOperation;
use ciphercore_base::data_types::*;
use ciphercore_base::data_values::Value;
use ciphercore_base::errors::Result;
use ciphercore_base::graphs::util::simple_context;
use ciphercore_base::graphs::*;
use ciphercore_base::ops::comparisons::*;
use ciphercore_base::ops::min_max::{Max, Min};
use ciphercore_base::ops::multiplexer::Mux;
use ciphercore_base::type_inference::NULL_HEADER;
use std::collections::HashMap;

pub struct Fam {
    pub name: String,
    pub descr: String,
    pub ctx: Context,
    pub in_types: Vec<Type>,
    pub out_type: Type,
    /// compiled result must equal the plaintext result exactly (false for Truncate)
    pub exact: bool,
    /// if not exact: admissible element-wise distance (mod 2^bits) between compiled and plaintext result
    pub tol: u64,
    pub inputs: Vec<Value>,
    /// distribution keys of operations used
    pub ops: Vec<String>,
}

fn arr(shape: &[u64], st: ScalarType) -> Type {
    if shape.is_empty() {
        scalar_type(st)
    } else {
        array_type(shape.to_vec(), st)
    }
}

fn shape_of(t: &Type) -> Vec<u64> {
    match t {
        Type::Array(s, _) => s.clone(),
        _ => vec![],
    }
}

fn finish(name: &str, descr: String, ctx: Context, rng: &mut Rng, ops: Vec<String>, exact: bool) -> Result<Fam> {
    let g = ctx.get_main_graph()?;
    let mut in_types = vec![];
    for n in g.get_nodes() {
        if let Operation::Input(t) = n.get_operation() {
            in_types.push(t);
        }
    }
    let out_type = g.get_output_node()?.get_type()?;
    let inputs = crate::mpc_common::gen_inputs_for(rng, &in_types);
    Ok(Fam { name: name.to_owned(), descr, ctx, in_types, out_type, exact, tol: 0, inputs, ops })
}

/// random walk over array-typed nodes of one integer scalar type (plus bit nodes)
pub fn tensor_family(rng: &mut Rng, max_steps: usize) -> Result<Fam> {
    let st = *rng.pick(&[UINT8, INT16, INT32, UINT32, UINT64, INT64, INT128, UINT128, INT32, INT64]);
    let mut ops_used: Vec<String> = vec![];
    let mut descr = format!("{}:", st_name(st));
    let n_in = 1 + rng.below(3) as usize;
    let steps = 1 + rng.below(max_steps as u64) as usize;
    let mut rr = rng.clone();
    let ctx = simple_context(|g| {
        let rng = &mut rr;
        let mut nodes: Vec<Node> = vec![];
        for _ in 0..n_in {
            let s = if rng.chance(1, 5) { vec![] } else { gen_shape(rng, 3, 3, 12) };
            nodes.push(g.input(arr(&s, st))?);
            descr += &format!(" in{:?}", s);
        }
        let mut k = 0;
        let mut attempts = 0;
        while k < steps && attempts < 60 {
            attempts += 1;
            let a = if rng.chance(2, 3) { nodes[nodes.len() - 1].clone() } else { rng.pick(&nodes).clone() };
            let ta = a.get_type()?;
            let sa = shape_of(&ta);
            let choice = rng.below(16);
            let r: Result<(Node, String)> = (|| match choice {
                0 | 1 | 2 => {
                    // elementwise with a node of broadcastable shape (same shape, scalar, or fresh input)
                    let cands: Vec<Node> = nodes.iter().filter(|n| {
                        let s = shape_of(&n.get_type().unwrap());
                        n.get_type().unwrap().get_scalar_type() == st && (s == sa || s.is_empty() || (s.len() <= sa.len() && s.iter().rev().zip(sa.iter().rev()).all(|(x, y)| x == y || *x == 1)))
                    }).cloned().collect();
                    let b = rng.pick(&cands).clone();
                    let (x, y) = if rng.chance(1, 2) { (a.clone(), b) } else { (b, a.clone()) };
                    Ok(match choice {
                        0 => (x.add(y)?, "Add".to_owned()),
                        1 => (x.subtract(y)?, "Subtract".to_owned()),
                        _ => (x.multiply(y)?, "Multiply".to_owned()),
                    })
                }
                3 if !sa.is_empty() => {
                    let mut axes: Vec<u64> = (0..sa.len() as u64).filter(|_| rng.chance(1, 2)).collect();
                    if axes.is_empty() {
                        axes.push(rng.below(sa.len() as u64));
                    }
                    Ok((a.sum(axes)?, "Sum".to_owned()))
                }
                4 if !sa.is_empty() => Ok((a.cum_sum(rng.below(sa.len() as u64))?, "CumSum".to_owned())),
                5 if sa.len() >= 2 => {
                    let mut p: Vec<u64> = (0..sa.len() as u64).collect();
                    rng.shuffle(&mut p);
                    Ok((a.permute_axes(p)?, "PermuteAxes".to_owned()))
                }
                6 if !sa.is_empty() => {
                    let n: u64 = sa.iter().product();
                    let ns = if n % 2 == 0 && rng.chance(1, 2) { vec![2, n / 2] } else { vec![n] };
                    Ok((a.reshape(arr(&ns, st))?, "Reshape".to_owned()))
                }
                7 if !sa.is_empty() => {
                    let d = 1 + rng.below(sa.len() as u64) as usize;
                    let idx: Vec<u64> = (0..d).map(|i| rng.below(sa[i])).collect();
                    Ok((a.get(idx)?, "Get".to_owned()))
                }
                8 if !sa.is_empty() && sa[0] >= 2 => {
                    let lo = rng.below(sa[0] - 1) as i64;
                    let hi = lo + 1 + rng.below(sa[0] - lo as u64) as i64;
                    Ok((a.get_slice(vec![SliceElement::SubArray(Some(lo), Some(hi), None)])?, "GetSlice".to_owned()))
                }
                9 if sa.len() == 2 => {
                    let b = g.input(arr(&[sa[1], 1 + rng.below(3)], st))?;
                    Ok((a.matmul(b)?, "Matmul".to_owned()))
                }
                10 if sa.len() == 1 => {
                    let b = g.input(arr(&[sa[0]], st))?;
                    Ok((a.dot(b)?, "Dot".to_owned()))
                }
                10 if sa.len() == 2 => {
                    // Dot on matrices is a matrix product: operand order matters
                    if rng.chance(1, 2) {
                        let b = g.input(arr(&[sa[1], 1 + rng.below(3)], st))?;
                        Ok((a.dot(b)?, "Dot".to_owned()))
                    } else {
                        let b = g.input(arr(&[1 + rng.below(3), sa[0]], st))?;
                        Ok((b.dot(a.clone())?, "Dot".to_owned()))
                    }
                }
                10 if sa.len() == 3 => {
                    let b = g.input(arr(&[sa[2]], st))?;
                    Ok((a.dot(b)?, "Dot".to_owned()))
                }
                11 if sa.len() == 2 => {
                    let b = g.input(arr(&[1 + rng.below(3), sa[1]], st))?;
                    Ok((a.gemm(b, false, true)?, "Gemm".to_owned()))
                }
                12 => {
                    let same: Vec<Node> = nodes.iter().filter(|n| n.get_type().unwrap() == ta).cloned().collect();
                    let b = rng.pick(&same).clone();
                    Ok((g.stack(vec![a.clone(), b], vec![2])?, "Stack".to_owned()))
                }
                13 if !sa.is_empty() => {
                    let same: Vec<Node> = nodes.iter().filter(|n| n.get_type().unwrap() == ta).cloned().collect();
                    let b = rng.pick(&same).clone();
                    Ok((g.concatenate(vec![a.clone(), b], rng.below(sa.len() as u64))?, "Concatenate".to_owned()))
                }
                14 => {
                    // tuple round trip with another node
                    let b = rng.pick(&nodes).clone();
                    let t = g.create_tuple(vec![b, a.clone()])?;
                    Ok((t.tuple_get(1)?, "CreateTuple/TupleGet".to_owned()))
                }
                15 => {
                    let b = g.input(arr(&sa, BIT))?;
                    Ok((a.mixed_multiply(b)?, "MixedMultiply".to_owned()))
                }
                _ => Err(ciphercore_base::runtime_error!("not applicable")),
            })();
            if let Ok((n, name)) = r {
                if get_size_in_bits(n.get_type()?)? <= 4096 {
                    descr += &format!(" {}", name);
                    ops_used.push(name);
                    nodes.push(n);
                    k += 1;
                }
            }
        }
        Ok(nodes[nodes.len() - 1].clone())
    })?;
    *rng = rr;
    finish("tensor", descr, ctx, rng, ops_used, true)
}

/// integer → bits → comparison / min / max / mux → back to integers
pub fn compare_family(rng: &mut Rng) -> Result<Fam> {
    let st = *rng.pick(&[UINT8, INT8, INT16, UINT16, INT32, UINT32, INT64, UINT64]);
    let signed = st.is_signed();
    let shape = if rng.chance(1, 3) { vec![] } else { gen_shape(rng, 2, 3, 6) };
    let which = rng.below(9);
    let name = ["GreaterThan", "LessThan", "GreaterThanEqualTo", "LessThanEqualTo", "Equal", "NotEqual", "Min", "Max", "Mux"][which as usize];
    let ctx = simple_context(|g| {
        let a = g.input(arr(&shape, st))?;
        let b = g.input(arr(&shape, st))?;
        let ab = a.a2b()?;
        let bb = b.a2b()?;
        let c = match which {
            0 => g.custom_op(CustomOperation::new(GreaterThan { signed_comparison: signed }), vec![ab.clone(), bb.clone()])?,
            1 => g.custom_op(CustomOperation::new(LessThan { signed_comparison: signed }), vec![ab.clone(), bb.clone()])?,
            2 => g.custom_op(CustomOperation::new(GreaterThanEqualTo { signed_comparison: signed }), vec![ab.clone(), bb.clone()])?,
            3 => g.custom_op(CustomOperation::new(LessThanEqualTo { signed_comparison: signed }), vec![ab.clone(), bb.clone()])?,
            4 => g.custom_op(CustomOperation::new(Equal {}), vec![ab.clone(), bb.clone()])?,
            5 => g.custom_op(CustomOperation::new(NotEqual {}), vec![ab.clone(), bb.clone()])?,
            6 => return g.custom_op(CustomOperation::new(Min { signed_comparison: signed }), vec![ab, bb])?.b2a(st),
            7 => return g.custom_op(CustomOperation::new(Max { signed_comparison: signed }), vec![ab, bb])?.b2a(st),
            _ => {
                let s = g.custom_op(CustomOperation::new(GreaterThan { signed_comparison: signed }), vec![ab.clone(), bb.clone()])?;
                return g.custom_op(CustomOperation::new(Mux {}), vec![s, a, b]);
            }
        };
        // use the comparison bit to select: a * [a ? b]
        a.mixed_multiply(c)
    })?;
    finish("compare", format!("{} {} {:?}", name, st_name(st), shape), ctx, rng, vec![format!("Custom:{}", name), "A2B".into()], true)
}

pub fn conversion_family(rng: &mut Rng) -> Result<Fam> {
    let st = *rng.pick(&[UINT8, INT8, INT16, INT32, UINT32, INT64, UINT64]);
    let shape = if rng.chance(1, 3) { vec![] } else { gen_shape(rng, 2, 3, 6) };
    let which = rng.below(3);
    let ctx = simple_context(|g| {
        let a = g.input(arr(&shape, st))?;
        match which {
            0 => a.a2b(),
            1 => {
                let b = g.input(arr(&shape, st))?;
                // xor in the binary domain, then back
                a.a2b()?.add(b.a2b()?)?.b2a(st)
            }
            _ => {
                let b = g.input(arr(&shape, st))?;
                a.a2b()?.multiply(b.a2b()?)?.b2a(st)?.add(a)
            }
        }
    })?;
    finish("conversion", format!("a2b/b2a variant {} {} {:?}", which, st_name(st), shape), ctx, rng, vec!["A2B".into(), "B2A".into()], true)
}

pub fn sort_family(rng: &mut Rng) -> Result<Fam> {
    let rows = 1 + rng.below(6);
    let kb = 1 + rng.below(5);
    let pst = *rng.pick(&[INT32, UINT8, INT64, UINT64]);
    let pshape = if rng.chance(1, 2) { vec![rows] } else { vec![rows, 2] };
    let ctx = simple_context(|g| {
        let k = g.input(array_type(vec![rows, kb], BIT))?;
        let v = g.input(array_type(pshape.clone(), pst))?;
        g.create_named_tuple(vec![("k".to_owned(), k), ("v".to_owned(), v)])?.sort("k".to_owned())
    })?;
    finish("sort", format!("rows {} keybits {} payload {}{:?}", rows, kb, st_name(pst), pshape), ctx, rng, vec!["Sort".into()], true)
}

/// more than 20 rows with few distinct keys and a payload that tells the rows apart: stability of the
/// sort is visible (Rust's unstable sort is stable up to 20 elements)
pub fn sort_wide_family(rng: &mut Rng) -> Result<Fam> {
    let rows = 40 + rng.below(25);
    let kb = 1 + rng.below(2);
    let ctx = simple_context(|g| {
        let k = g.input(array_type(vec![rows, kb], BIT))?;
        let v = g.input(array_type(vec![rows], UINT32))?;
        g.create_named_tuple(vec![("k".to_owned(), k), ("v".to_owned(), v)])?.sort("k".to_owned())
    })?;
    let mut fam = finish("sort", format!("rows {} keybits {} payload = row number", rows, kb), ctx, rng, vec!["Sort".into()], true)?;
    fam.inputs[1] = Value::from_flattened_array(&(0..rows).collect::<Vec<u64>>(), UINT32)?;
    Ok(fam)
}

/// tables with a null column, unique live keys
pub fn join_family(rng: &mut Rng, types: &[JoinType]) -> Result<Fam> {
    let jt = *rng.pick(types);
    let n0 = 1 + rng.below(4);
    let n1 = 1 + rng.below(4);
    let kst = *rng.pick(&[INT32, UINT64, UINT8]);
    let ctx = simple_context(|g| {
        let m0 = g.input(array_type(vec![n0], BIT))?;
        let k0 = g.input(array_type(vec![n0], kst))?;
        let v0 = g.input(array_type(vec![n0], INT32))?;
        let m1 = g.input(array_type(vec![n1], BIT))?;
        let k1 = g.input(array_type(vec![n1], kst))?;
        let w1 = g.input(array_type(vec![n1], INT64))?;
        let t0 = g.create_named_tuple(vec![(NULL_HEADER.to_owned(), m0), ("k".to_owned(), k0), ("v".to_owned(), v0)])?;
        let t1 = g.create_named_tuple(vec![(NULL_HEADER.to_owned(), m1), ("k".to_owned(), k1), ("w".to_owned(), w1)])?;
        let mut h = HashMap::new();
        h.insert("k".to_owned(), "k".to_owned());
        t0.join(t1, jt, h)
    })?;
    let mut fam = finish("join", format!("{:?} rows {}x{} key {}", jt, n0, n1, st_name(kst)), ctx, rng, vec![format!("Join:{:?}", jt)], true)?;
    // inputs: null masks random, keys unique among live rows with overlap
    let pool: Vec<i128> = {
        let mut p: Vec<i128> = (1..=10).collect();
        rng.shuffle(&mut p);
        p
    };
    let mk_keys = |rng: &mut Rng, n: u64, offset: usize| -> Vec<i128> { (0..n as usize).map(|i| pool[(offset + i) % pool.len()]).map(|x| if rng.chance(1, 10) { x } else { x }).collect() };
    let keys0 = mk_keys(rng, n0, 0);
    let off = rng.below(5) as usize;
    let keys1 = mk_keys(rng, n1, off);
    let bits = |rng: &mut Rng, n: u64| -> Vec<u8> { (0..n).map(|_| if rng.chance(4, 5) { 1 } else { 0 }).collect() };
    fam.inputs = vec![
        Value::from_flattened_array(&bits(rng, n0), BIT)?,
        Value::from_flattened_array(&keys0, kst)?,
        gen_array_value(rng, &[n0], INT32).1,
        Value::from_flattened_array(&bits(rng, n1), BIT)?,
        Value::from_flattened_array(&keys1, kst)?,
        gen_array_value(rng, &[n1], INT64).1,
    ];
    Ok(fam)
}

/// Call / Iterate with arithmetic bodies
pub fn call_iterate_family(rng: &mut Rng) -> Result<Fam> {
    let st = *rng.pick(&[INT32, UINT64, INT64, UINT8]);
    let n = rng.below(5);
    let which = rng.below(2);
    let c = create_context()?;
    let t = scalar_type(st);
    // body: (state, x) -> (state * x + x, state)   [general state]
    let body = c.create_graph()?;
    {
        let s = body.input(t.clone())?;
        let x = body.input(t.clone())?;
        let ns = s.multiply(x.clone())?.add(x)?;
        body.create_tuple(vec![ns, s])?.set_as_output()?;
        body.finalize()?;
    }
    let callee = c.create_graph()?;
    {
        let a = callee.input(t.clone())?;
        let b = callee.input(t.clone())?;
        a.multiply(b.clone())?.subtract(b)?.set_as_output()?;
        callee.finalize()?;
    }
    let g = c.create_graph()?;
    let s0 = g.input(t.clone())?;
    let out = if which == 0 {
        let mut xs = vec![];
        for _ in 0..n {
            xs.push(g.input(t.clone())?);
        }
        let v = g.create_vector(t.clone(), xs)?;
        let r = g.iterate(body, s0, v)?;
        let fin = r.tuple_get(0)?;
        if n > 0 {
            let outs = r.tuple_get(1)?.vector_to_array()?;
            fin.add(outs.sum(vec![0])?)?
        } else {
            fin
        }
    } else {
        let b = g.input(t.clone())?;
        let r1 = g.call(callee.clone(), vec![s0.clone(), b.clone()])?;
        g.call(callee, vec![r1, s0])?.add(b)?
    };
    out.set_as_output()?;
    g.finalize()?;
    c.set_main_graph(g)?;
    c.finalize()?;
    finish("call_iterate", format!("{} {} n={}", if which == 0 { "iterate" } else { "call" }, st_name(st), n), c, rng, vec![if which == 0 { "Iterate".into() } else { "Call".into() }], true)
}

/// Iterate declared associative with a NON-commutative body (2x2 matrix product), per-step outputs,
/// lengths around the 15/16 algorithm switch
pub fn assoc_iterate_family(rng: &mut Rng) -> Result<Fam> {
    let st = *rng.pick(&[UINT64, INT64, INT32]);
    let n = match rng.below(6) {
        0 => rng.below(4),
        1 => 1 + rng.below(15),
        _ => 16 + rng.below(4),
    };
    let t = array_type(vec![2, 2], st);
    let c = create_context()?;
    let body = c.create_graph()?;
    {
        let s = body.input(t.clone())?;
        let x = body.input(t.clone())?;
        let ns = s.matmul(x.clone())?;
        let out = s.add(x)?;
        body.create_tuple(vec![ns, out])?.set_as_output()?;
        body.add_annotation(GraphAnnotation::AssociativeOperation)?;
        body.finalize()?;
    }
    let g = c.create_graph()?;
    let s0 = g.input(t.clone())?;
    let mut xs = vec![];
    for _ in 0..n {
        xs.push(g.input(t.clone())?);
    }
    let v = g.create_vector(t.clone(), xs)?;
    let r = g.iterate(body, s0, v)?;
    let fin = r.tuple_get(0)?;
    let out = if n > 0 { fin.add(r.tuple_get(1)?.vector_to_array()?.sum(vec![0])?)? } else { fin };
    out.set_as_output()?;
    g.finalize()?;
    c.set_main_graph(g)?;
    c.finalize()?;
    let mut fam = finish("assoc_iterate", format!("2x2 {} matrix product chain, n={}", st_name(st), n), c, rng, vec!["Iterate:associative".into()], true)?;
    // small entries so that products stay informative
    fam.inputs = (0..=n).map(|_| {
        let m: Vec<i64> = (0..4).map(|_| rng.range(-3, 4)).collect();
        if st.is_signed() { Value::from_flattened_array(&m, st) } else { Value::from_flattened_array(&m.iter().map(|x| x.unsigned_abs()).collect::<Vec<u64>>(), st) }
    }).collect::<Result<Vec<_>>>()?;
    Ok(fam)
}

/// one bilinear operation (Dot / Matmul / Gemm) applied directly to two inputs; square-biased shapes
/// so that a swapped operand order still type-checks
pub fn bilinear_family(rng: &mut Rng) -> Result<Fam> {
    let st = *rng.pick(&[INT32, UINT64, INT64, UINT8, INT128]);
    // every third instance: the commutator of two square matrices (both products of the same two nodes)
    let both = rng.chance(1, 3);
    let k = if both { 2 + rng.below(2) } else { 1 + rng.below(3) };
    let sq = both || rng.chance(2, 3);
    let n = if sq { k } else { 1 + rng.below(3) };
    let m = if sq { k } else { 1 + rng.below(3) };
    let which = if both { *rng.pick(&[0u64, 4]) } else { rng.below(7) };
    let (sa, sb, name): (Vec<u64>, Vec<u64>, String) = match which {
        0 => (vec![n, k], vec![k, m], "Dot".into()),
        1 => (vec![k], vec![k], "Dot".into()),
        2 => (vec![n, k], vec![k], "Dot".into()),
        3 => (vec![2, n, k], vec![k, m], "Dot".into()),
        4 => (vec![n, k], vec![k, m], "Matmul".into()),
        5 => (vec![2, n, k], vec![2, k, m], "Matmul".into()),
        _ => (vec![n, k], vec![m, k], "Gemm".into()),
    };
    let ctx = simple_context(|g| {
        let a = g.input(arr(&sa, st))?;
        let b = g.input(arr(&sb, st))?;
        match which {
            // square matrices: the commutator, i.e. the same product of the same two nodes in both
            // orders (the two products must stay two different nodes through every optimizer pass)
            0 if both => a.dot(b.clone())?.subtract(b.dot(a)?),
            4 if both => a.matmul(b.clone())?.subtract(b.matmul(a)?),
            0..=3 => a.dot(b),
            4 | 5 => a.matmul(b),
            _ => a.gemm(b, false, true),
        }
    })?;
    let name = if both && (which == 0 || which == 4) { format!("{}-commutator", name) } else { name };
    finish("bilinear", format!("{} {} {:?} x {:?}", name, st_name(st), sa, sb), ctx, rng, vec![name], true)
}

/// Truncate on private data: division by 2^k (TruncateMPC2K) or by a general divisor (TruncateMPC) of
/// in-range inputs; the compiled result may differ from the plaintext one by one unit (C05)
pub fn truncate_family(rng: &mut Rng) -> Result<Fam> {
    let general = rng.chance(1, 4);
    let st = if general { INT64 } else { *rng.pick(&[INT32, INT64, UINT64, UINT32, INT16, UINT8]) };
    let bits = scalar_size_in_bits(st);
    let shape = if rng.chance(1, 3) { vec![] } else { gen_shape(rng, 2, 3, 6) };
    let scale: u64 = if general { *rng.pick(&[3u64, 5, 10, 100, 1000]) } else { 1u64 << (1 + rng.below(bits - 2)) };
    let which = rng.below(3);
    let ctx = simple_context(|g| {
        let a = g.input(arr(&shape, st))?;
        match which {
            0 => a.truncate(scale as u128),
            1 => {
                let b = g.input(arr(&shape, st))?;
                a.add(b)?.truncate(scale as u128)
            }
            _ => {
                let b = g.input(arr(&shape, st))?;
                a.truncate(scale as u128)?.add(b)
            }
        }
    })?;
    let mut fam = finish("truncate", format!("{} variant {} {} {:?} scale {}", if general { "general" } else { "2^k" }, which, st_name(st), shape, scale), ctx, rng, vec![if general { "Truncate".into() } else { "Truncate2K".into() }], false)?;
    fam.tol = 1;
    // inputs in the documented range: |a|, |b| < 2^(bits-3) (2^k protocol) or < 2^20 (general divisor:
    // the wrap-around event has probability < 2^-40 per element)
    let mag_bits = if general { 20 } else { bits - 3 };
    let n: u64 = shape.iter().product::<u64>().max(1);
    fam.inputs = fam
        .in_types
        .iter()
        .map(|_| {
            let xs: Vec<Z> = (0..n)
                .map(|_| {
                    let m = match rng.below(4) { 0 => rng.below(4) as i128, 1 => (1i128 << mag_bits) - 1 - rng.below(3) as i128, _ => (rng.next() as u128 % (1u128 << mag_bits)) as i128 };
                    let neg = st.is_signed() && rng.chance(1, 2);
                    Z::I(if neg { -m } else { m }).wrap_to(st)
                })
                .collect();
            value_of(st, &xs).expect("value_of")
        })
        .collect();
    Ok(fam)
}

/// equality, or (families with `exact == false`) element-wise distance ≤ tol modulo 2^bits
pub fn fam_close(fam: &Fam, got: &Value, expected: &Value) -> bool {
    if fam.exact {
        return got == expected;
    }
    if fam.tol == 0 {
        return true;
    }
    let t = fam.out_type.clone();
    let (st, at) = match &t {
        Type::Scalar(st) => (*st, array_type(vec![1], *st)),
        Type::Array(_, st) => (*st, t.clone()),
        _ => return true,
    };
    let bits = scalar_size_in_bits(st);
    let mask: u128 = if bits >= 128 { u128::MAX } else { (1u128 << bits) - 1 };
    match (got.to_flattened_array_u128(at.clone()), expected.to_flattened_array_u128(at)) {
        (Ok(a), Ok(b)) => a.len() == b.len() && a.iter().zip(b.iter()).all(|(x, y)| {
            let d = x.wrapping_sub(*y) & mask;
            d <= fam.tol as u128 || d >= (mask - fam.tol as u128 + 1)
        }),
        _ => false,
    }
}

pub fn arith_family(rng: &mut Rng, max_ops: usize) -> Result<Fam> {
    let p = crate::mpc_common::gen_aprog(rng, max_ops, false);
    let ctx = p.build()?;
    finish("arith", p.describe(), ctx, rng, vec!["Add/Sub/Mul".into()], true)
}

/// pick a family; `heavy` allows sort / join (large compiled graphs)
pub fn gen_family(rng: &mut Rng, heavy: bool) -> Result<Fam> {
    let x = rng.below(if heavy { 20 } else { 16 });
    match x {
        0..=4 => arith_family(rng, 6),
        5..=10 => tensor_family(rng, 5),
        11 => if rng.chance(1, 2) { compare_family(rng) } else { truncate_family(rng) },
        12 => bilinear_family(rng),
        13 | 14 => conversion_family(rng),
        15 => if rng.chance(1, 2) { call_iterate_family(rng) } else { assoc_iterate_family(rng) },
        16 | 17 => sort_family(rng),
        _ => join_family(rng, &[JoinType::Inner, JoinType::Left, JoinType::Union, JoinType::Full]),
    }
}
