//! C15 — PRF and PRNG are deterministic, in-domain and unbiased (random.rs, PRF/PRNG nodes of
//! simple_evaluator.rs).  The AES-128 counter-mode key stream is computed here with the `aes` crate
//! (not through ciphercore) and handed to the Lean model; the model must reproduce every byte / value.
//! A naive sequential reference (`Ref*`) reads the same key stream and is the property's own oracle.
use crate::util::*;
use crate::vals::*;
use aes::cipher::{generic_array::GenericArray, BlockEncrypt, KeyInit};
use aes::Aes128;
use ciphercore_base::data_types::*;
use ciphercore_base::data_values::Value;
use ciphercore_base::evaluators::simple_evaluator::SimpleEvaluator;
use ciphercore_base::evaluators::{evaluate_simple_evaluator, Evaluator};
use ciphercore_base::graphs::{create_context, Graph};
use ciphercore_base::random::verif_hooks as hooks;
use ciphercore_base::random::PRNG;
use std::collections::BTreeMap;

/// independent AES-128-CTR key stream of (key, iv): block i = AES_key(le128((iv << 64) + i)); read sequentially
struct Stream {
    aes: Aes128,
    iv: u64,
    buf: Vec<u8>,
    pos: usize,
}

impl Stream {
    fn new(key: [u8; 16], iv: u64) -> Self {
        Stream { aes: Aes128::new(GenericArray::from_slice(&key)), iv, buf: vec![], pos: 0 }
    }
    fn ensure(&mut self, n: usize) {
        while self.buf.len() < n {
            let i = (self.buf.len() / 16) as u128;
            let ctr = ((self.iv as u128) << 64).wrapping_add(i);
            let mut block = GenericArray::clone_from_slice(&ctr.to_le_bytes());
            self.aes.encrypt_block(&mut block);
            self.buf.extend_from_slice(block.as_slice());
        }
    }
    fn take(&mut self, n: usize) -> Vec<u8> {
        self.ensure(self.pos + n);
        let r = self.buf[self.pos..self.pos + n].to_vec();
        self.pos += n;
        r
    }
    /// the consumed prefix, rounded up to whole blocks (what the model needs)
    fn prefix(&self) -> Vec<u8> {
        let n = (self.pos + 15) / 16 * 16;
        self.buf[..n.min(self.buf.len())].to_vec()
    }
}

fn le(bytes: &[u8]) -> u128 {
    let mut r = 0u128;
    for (i, b) in bytes.iter().enumerate() {
        r |= (*b as u128) << (8 * i);
    }
    r
}

/// reference: uniform draw below m from `nb`-byte numbers by rejection (accept r < S - S mod m)
fn ref_draw(s: &mut Stream, m: u128, nb: usize) -> u128 {
    let space = 1u128 << (8 * nb);
    let accepted = space - space % m;
    loop {
        let r = le(&s.take(nb));
        if r < accepted {
            return r % m;
        }
    }
}

fn ref_u32(s: &mut Stream, m: u32) -> u32 {
    let bits = if m <= 1 { 0 } else { 32 - (m - 1).leading_zeros() } as usize;
    ref_draw(s, m as u128, (bits + 7) / 8 + 1) as u32
}

fn ref_u64(s: &mut Stream, m: u64) -> u64 {
    ref_draw(s, m as u128, 8) as u64
}

#[derive(Clone, PartialEq, Eq, Debug)]
enum RefVal {
    B(Vec<u8>),
    V(Vec<RefVal>),
}

fn leaf_bits(t: &Type) -> u64 {
    match t {
        Type::Scalar(st) => st_bits(*st) as u64,
        Type::Array(shape, st) => shape.iter().product::<u64>() * st_bits(*st) as u64,
        _ => unreachable!(),
    }
}

fn ref_value(s: &mut Stream, t: &Type) -> RefVal {
    match t {
        Type::Scalar(_) | Type::Array(_, _) => {
            let bits = leaf_bits(t) as usize;
            let n = (bits + 7) / 8;
            let mut b = s.take(n);
            if bits % 8 != 0 {
                // the code keeps the HIGH bits of the last byte, shifted down
                b[n - 1] >>= 8 - bits % 8;
            }
            RefVal::B(b)
        }
        Type::Tuple(ts) => RefVal::V(ts.iter().map(|t| ref_value(s, t)).collect()),
        Type::NamedTuple(ts) => RefVal::V(ts.iter().map(|(_, t)| ref_value(s, t)).collect()),
        Type::Vector(n, t) => RefVal::V((0..*n).map(|_| ref_value(s, t)).collect()),
    }
}

fn ref_perm_prf(s: &mut Stream, n: u64) -> Vec<u64> {
    let mut a: Vec<u64> = (0..n).collect();
    for i in 1..n {
        let j = ref_u32(s, i as u32 + 1);
        a.swap(i as usize, j as usize);
    }
    a
}

fn ref_shuffle(s: &mut Stream, n: u64) -> Vec<u64> {
    let mut a: Vec<u64> = (0..n).collect();
    for i in (1..n).rev() {
        let j = ref_u64(s, i + 1);
        a.swap(i as usize, j as usize);
    }
    a
}

fn to_ref(v: &Value) -> RefVal {
    v.access(|b| Ok(RefVal::B(b.to_vec())), |vs| Ok(RefVal::V(vs.iter().map(to_ref).collect()))).unwrap()
}

fn show_val(v: &RefVal) -> String {
    match v {
        RefVal::B(b) => format!("B{}", show_list(b)),
        RefVal::V(vs) => format!("({})", vs.iter().map(show_val).collect::<Vec<_>>().join(";")),
    }
}

fn ty_tok(t: &Type) -> String {
    match t {
        Type::Scalar(st) => format!("A,{},0", st_bits(*st)),
        Type::Array(shape, st) => format!("A,{},{},{}", st_bits(*st), shape.len(), show_list(shape)),
        Type::Tuple(ts) => {
            let mut s = format!("T,{}", ts.len());
            for t in ts {
                s.push(',');
                s.push_str(&ty_tok(t));
            }
            s
        }
        Type::NamedTuple(ts) => {
            let mut s = format!("T,{}", ts.len());
            for (_, t) in ts {
                s.push(',');
                s.push_str(&ty_tok(t));
            }
            s
        }
        Type::Vector(n, t) => format!("V,{},{}", n, ty_tok(t)),
    }
}

/// unused bits of every leaf are zero and every leaf has the right length (own check, next to check_type)
fn in_domain(v: &RefVal, t: &Type) -> bool {
    match (v, t) {
        (RefVal::B(b), Type::Scalar(_)) | (RefVal::B(b), Type::Array(_, _)) => {
            let bits = leaf_bits(t) as usize;
            b.len() == (bits + 7) / 8 && (bits % 8 == 0 || b.is_empty() || (b[b.len() - 1] >> (bits % 8)) == 0)
        }
        (RefVal::V(vs), Type::Tuple(ts)) => vs.len() == ts.len() && vs.iter().zip(ts.iter()).all(|(v, t)| in_domain(v, t)),
        (RefVal::V(vs), Type::NamedTuple(ts)) => vs.len() == ts.len() && vs.iter().zip(ts.iter()).all(|(v, (_, t))| in_domain(v, t)),
        (RefVal::V(vs), Type::Vector(n, t)) => vs.len() as u64 == *n && vs.iter().all(|v| in_domain(v, t)),
        _ => false,
    }
}

fn type_bytes(t: &Type) -> u64 {
    match t {
        Type::Scalar(_) | Type::Array(_, _) => (leaf_bits(t) + 7) / 8,
        Type::Tuple(ts) => ts.iter().map(|t| type_bytes(t)).sum(),
        Type::NamedTuple(ts) => ts.iter().map(|(_, t)| type_bytes(t)).sum(),
        Type::Vector(n, t) => n * type_bytes(t),
    }
}

fn gen_leaf(rng: &mut Rng, max_bytes: u64) -> Type {
    let st = if rng.chance(2, 5) { BIT } else { *rng.pick(&ALL_ST) };
    if rng.chance(1, 5) {
        return scalar_type(st);
    }
    for _ in 0..50 {
        let shape = match rng.below(4) {
            0 => vec![1 + rng.below(40)],
            1 => vec![1 + rng.below(9), 1 + rng.below(9)],
            2 => vec![1 + rng.below(5), 1 + rng.below(5), 1 + rng.below(5)],
            _ => vec![*rng.pick(&[1u64, 7, 8, 9, 63, 64, 65, 127, 128, 129, 511, 512, 513, 1000, 4095, 4097])],
        };
        let t = array_type(shape, st);
        if type_bytes(&t) <= max_bytes {
            return t;
        }
    }
    scalar_type(st)
}

/// random (possibly nested) type whose values take at most `max_bytes` bytes
fn gen_type(rng: &mut Rng, depth: u32, max_bytes: u64) -> Type {
    if depth == 0 || rng.chance(2, 5) {
        return gen_leaf(rng, max_bytes);
    }
    for _ in 0..20 {
        let t = match rng.below(3) {
            0 => {
                let k = rng.below(5);
                tuple_type((0..k).map(|_| gen_type(rng, depth - 1, max_bytes / k.max(1))).collect())
            }
            1 => {
                let k = rng.below(4);
                named_tuple_type((0..k).map(|i| (format!("f{}", i), gen_type(rng, depth - 1, max_bytes / k.max(1)))).collect())
            }
            _ => {
                let n = rng.below(6);
                vector_type(n, gen_type(rng, depth - 1, max_bytes / n.max(1)))
            }
        };
        if type_bytes(&t) <= max_bytes {
            return t;
        }
    }
    gen_leaf(rng, max_bytes)
}

fn gen_iv(rng: &mut Rng) -> u64 {
    match rng.below(6) {
        0 => 0,
        1 => 1,
        2 => u64::MAX,
        3 => rng.below(1000),
        _ => rng.next(),
    }
}

fn gen_ibs(rng: &mut Rng) -> usize {
    if rng.chance(2, 3) {
        *rng.pick(&[1usize, 15, 16, 17, 31, 32, 33, 48, 64, 65, 100, 128, 129, 255, 256, 257, 300, 500, 511, 512, 513, 600, 1000, 1024, 2000])
    } else {
        1 + rng.below(1100) as usize
    }
}

fn gen_mod32(rng: &mut Rng) -> u32 {
    match rng.below(9) {
        0 => 1,
        1 => 2,
        2 => 1u32 << rng.below(32),
        3 => (1u32 << rng.below(32)).wrapping_add(1).max(1),
        4 => (1u32 << (1 + rng.below(31))) - 1,
        5 => u32::MAX - rng.below(3) as u32,
        6 => 3 + rng.below(300) as u32,
        7 => (1u32 << 31) + 1 + rng.below(5) as u32,
        _ => (rng.next() as u32).max(1),
    }
}

fn gen_mod64(rng: &mut Rng) -> u64 {
    match rng.below(9) {
        0 => 1,
        1 => 2,
        2 => 1u64 << rng.below(64),
        3 => (1u64 << rng.below(64)).wrapping_add(1).max(1),
        4 => (1u64 << (1 + rng.below(63))) - 1,
        5 => u64::MAX - rng.below(3),
        6 => 3 + rng.below(300),
        7 => (1u64 << 63) + 1 + rng.below(5),
        _ => rng.next().max(1),
    }
}

fn perm_of_value(v: &Value) -> Vec<u64> {
    bytes_of(v).chunks(8).map(|c| le(c) as u64).collect()
}

fn is_perm(p: &[u64], n: u64) -> bool {
    let mut q = p.to_vec();
    q.sort();
    q.len() as u64 == n && q.iter().enumerate().all(|(i, x)| *x == i as u64)
}

#[derive(Clone)]
enum PrfSpec {
    V(Type),
    P(u64),
}

/// graph with one 128-bit key input per key and one PRF / PermutationFromPRF node per op; output = tuple of all
fn prf_graph(nkeys: usize, ops: &[(usize, u64, PrfSpec)]) -> ciphercore_base::errors::Result<(ciphercore_base::graphs::Context, Graph)> {
    let c = create_context()?;
    let g = c.create_graph()?;
    let keys: Vec<_> = (0..nkeys).map(|_| g.input(array_type(vec![128], BIT))).collect::<Result<_, _>>()?;
    let mut outs = vec![];
    for (k, iv, spec) in ops {
        outs.push(match spec {
            PrfSpec::V(t) => keys[*k].prf(*iv, t.clone())?,
            PrfSpec::P(n) => keys[*k].permutation_from_prf(*iv, *n)?,
        });
    }
    g.create_tuple(outs)?.set_as_output()?;
    g.finalize()?;
    c.set_main_graph(g.clone())?;
    c.finalize()?;
    Ok((c, g))
}

#[derive(Clone)]
enum PrngSpec {
    V(Type),
    P(u64),
    R(Option<u64>),
    B(usize),
}

fn prng_graph(ops: &[PrngSpec]) -> ciphercore_base::errors::Result<(ciphercore_base::graphs::Context, Graph)> {
    let c = create_context()?;
    let g = c.create_graph()?;
    let mut outs = vec![];
    for op in ops {
        outs.push(match op {
            PrngSpec::V(t) => g.random(t.clone())?,
            PrngSpec::P(n) => g.random_permutation(*n)?,
            _ => unreachable!(),
        });
    }
    g.create_tuple(outs)?.set_as_output()?;
    g.finalize()?;
    c.set_main_graph(g.clone())?;
    c.finalize()?;
    Ok((c, g))
}

fn prng_tok(op: &PrngSpec) -> String {
    match op {
        PrngSpec::V(t) => format!("V:{}", ty_tok(t)),
        PrngSpec::P(n) => format!("P:{}", n),
        PrngSpec::R(Some(m)) => format!("R:{}", m),
        PrngSpec::R(None) => "R:N".to_owned(),
        PrngSpec::B(n) => format!("B:{}", n),
    }
}

fn ref_prng(s: &mut Stream, op: &PrngSpec) -> String {
    match op {
        PrngSpec::V(t) => show_val(&ref_value(s, t)),
        PrngSpec::P(n) => show_list(&ref_shuffle(s, *n)),
        PrngSpec::R(Some(m)) => ref_u64(s, *m).to_string(),
        PrngSpec::R(None) => (le(&s.take(8)) as u64).to_string(),
        PrngSpec::B(n) => show_list(&s.take(*n)),
    }
}

pub fn corr(run: &mut Run) {
    if std::env::var("C15_DEBUG").is_ok() {
        std::panic::set_hook(Box::new(|i| eprintln!("{}", i)));
    }
    run.rule = "key streams are computed with the aes crate and sent to the model (never the key). \
        A: PrfSession reads — initial buffer sizes around 16/64/128/256/512/1024 × read-size sequences crossing the growth points; \
        B: generate_u32_in_range draws — moduli 1, 2, 2^k, 2^k±1, near 2^31/2^32, random; B2: ivs searched so that the first draw is the last accepted / first rejected number; \
        C: Prf::output_value — nested tuple/vector/named-tuple types, bit arrays of odd sizes, 128-bit scalars, values up to ~4 KB; \
        D: Prf::output_permutation n = 0..1300 incl. 15..17, 255..257, 511..513; \
        E: PRF / PermutationFromPRF nodes evaluated by separate SimpleEvaluator instances in different orders and multiplicities (and twice by one instance); \
        F: seeded PRNG answering value / in-range / bytes requests, replayed by a second PRNG; \
        G: Random / RandomPermutation nodes of a seeded evaluator. \
        Oracle: a naive sequential reader of the same key stream (rejection sampling accept r < S - S mod m), purity across instances, \
        check_type, zero unused bits, permutations sorted = 0..n-1, draws < m. Non-trivial: at least one byte of key stream is consumed; distinct by request text."
        .to_owned();

    // ---------------------------------------------------------------- A: reads
    let mut rng = run.rng("A");
    let sizes = [0u64, 1, 2, 7, 8, 15, 16, 17, 31, 32, 33, 63, 64, 65, 127, 128, 129, 255, 256, 257, 511, 512, 513, 1000, 1024, 1025];
    for _ in 0..run.tier.scale(600, 5000) {
        let key = rng.seed16();
        let iv = gen_iv(&mut rng);
        let ibs = gen_ibs(&mut rng);
        let mut reads = vec![];
        let mut total = 0u64;
        let budget = 200 + rng.below(4300);
        let small = rng.chance(1, 3);
        loop {
            let n = if small { rng.below(20) } else if rng.chance(2, 3) { *rng.pick(&sizes) } else { rng.below(700) };
            if total + n > budget || reads.len() >= 120 {
                break;
            }
            total += n;
            reads.push(n);
        }
        let mut s = Stream::new(key, iv);
        s.take(total as usize);
        let req = format!("reads {} {} {}", ibs, show_list(&reads), show_list(&s.prefix()));
        run.count(&format!("A:ibs{}:total{}", (ibs + 15) / 16 * 16 / 128 * 128, total / 1024 * 1024));
        match catch(|| hooks::prf_session_reads(key, iv, ibs, &reads)) {
            Err(p) => run.oracle_fail("C15:panic:prf_session_reads", format!("{} panicked: {}", trunc(&req, 200), p)),
            Ok(Err(_)) => {
                run.case(req.clone(), "ERR".into(), true);
                run.oracle_fail("C15:reads:error", format!("key={:?} iv={} ibs={} reads={:?} failed", key, iv, ibs, reads));
            }
            Ok(Ok(out)) => {
                run.case(req, out.iter().map(|b| show_list(b)).collect::<Vec<_>>().join("|"), total > 0);
                run.oracle_case(&format!("reads key={:?} iv={} ibs={} reads={:?}", key, iv, ibs, reads), total > 0);
                let cat: Vec<u8> = out.concat();
                let lens_ok = out.len() == reads.len() && out.iter().zip(reads.iter()).all(|(b, n)| b.len() as u64 == *n);
                if !lens_ok || cat != s.buf[..total as usize] {
                    run.oracle_fail(
                        "C15:stream:reads",
                        format!("key={:?} iv={} ibs={} reads={:?}: delivered bytes are not the prefix of the counter-mode stream", key, iv, ibs, reads),
                    );
                }
            }
        }
    }

    // ---------------------------------------------------------------- B: u32 in range
    let mut rng = run.rng("B");
    for it in 0..run.tier.scale(600, 5000) {
        let key = rng.seed16();
        let iv = gen_iv(&mut rng);
        let ibs = gen_ibs(&mut rng);
        let cnt_max = if rng.chance(1, 4) { 700 } else { 60 };
        let cnt = 1 + rng.below(cnt_max) as usize;
        let fixed = if rng.chance(1, 3) { Some(gen_mod32(&mut rng)) } else { None };
        let ms: Vec<u32> = if it == 0 { vec![0] } else { (0..cnt).map(|_| fixed.unwrap_or_else(|| gen_mod32(&mut rng))).collect() };
        if it == 0 {
            // modulus 0 is outside the property: the code divides by zero (documented; never reached from graph operations)
            let r = catch(|| hooks::prf_session_u32_in_range(key, iv, ibs, &ms));
            let mut s = Stream::new(key, iv);
            s.take(16);
            run.case(format!("u32 {} 0 {}", ibs, show_list(&s.prefix())), if r.is_err() { "PANIC".into() } else { "NOPANIC".into() }, false);
            run.count("B:modulus0");
            continue;
        }
        let mut s = Stream::new(key, iv);
        let want: Vec<u32> = ms.iter().map(|m| ref_u32(&mut s, *m)).collect();
        let req = format!("u32 {} {} {}", ibs, show_list(&ms), show_list(&s.prefix()));
        run.count(&format!("B:draws{}", ms.len() / 100 * 100));
        match catch(|| hooks::prf_session_u32_in_range(key, iv, ibs, &ms)) {
            Err(p) => run.oracle_fail("C15:panic:u32_in_range", format!("{} panicked: {}", trunc(&req, 200), p)),
            Ok(Err(_)) => {
                run.case(req, "ERR".into(), true);
                run.oracle_fail("C15:u32:error", format!("key={:?} iv={} ibs={} moduli={:?} failed", key, iv, ibs, ms));
            }
            Ok(Ok(out)) => {
                run.case(req, show_list(&out), true);
                run.oracle_case(&format!("u32 key={:?} iv={} ibs={} moduli={:?}", key, iv, ibs, ms), true);
                if out.len() != ms.len() || out.iter().zip(ms.iter()).any(|(x, m)| x >= m) {
                    run.oracle_fail("C15:range:u32", format!("key={:?} iv={} ibs={} moduli={:?}: draw not below modulus: {:?}", key, iv, ibs, ms, out));
                } else if out != want {
                    run.oracle_fail(
                        "C15:unbiased:u32",
                        format!("key={:?} iv={} ibs={} moduli={:?}: draws {:?} differ from rejection sampling over the stream {:?}", key, iv, ibs, ms, out, want),
                    );
                }
            }
        }
    }

    // ---------------------------------------------------------------- B2: draws aimed at the rejection boundary
    // search ivs whose first draw is exactly the last accepted / first rejected / largest number
    let mut rng = run.rng("B2");
    for _ in 0..run.tier.scale(12, 60) {
        let key = rng.seed16();
        let m = loop {
            let m = 3 + rng.below(253) as u32; // two-byte draws
            if !m.is_power_of_two() {
                break m;
            }
        };
        let accepted = 65536 - 65536 % m;
        let targets = [accepted - 1, accepted, 65535, accepted - m];
        let aes = Aes128::new(GenericArray::from_slice(&key));
        let mut found: Vec<(u64, u32)> = vec![];
        let base = rng.below(1 << 40);
        for d in 0..(1u64 << 19) {
            let iv = base + d;
            let mut block = GenericArray::clone_from_slice(&((iv as u128) << 64).to_le_bytes());
            aes.encrypt_block(&mut block);
            let r = block[0] as u32 | (block[1] as u32) << 8;
            if targets.contains(&r) && found.iter().filter(|(_, t)| *t == r).count() < 2 {
                found.push((iv, r));
            }
        }
        for (iv, r) in found {
            let ibs = gen_ibs(&mut rng);
            let ms = vec![m, m, m];
            let mut s = Stream::new(key, iv);
            let want: Vec<u32> = ms.iter().map(|m| ref_u32(&mut s, *m)).collect();
            let req = format!("u32 {} {} {}", ibs, show_list(&ms), show_list(&s.prefix()));
            run.count(if r >= accepted { "B2:first-draw-rejected" } else { "B2:first-draw-last-accepted" });
            match catch(|| hooks::prf_session_u32_in_range(key, iv, ibs, &ms)) {
                Ok(Ok(out)) => {
                    run.case(req, show_list(&out), true);
                    run.oracle_case(&format!("u32-boundary key={:?} iv={} m={} first={}", key, iv, m, r), true);
                    if out != want {
                        run.oracle_fail(
                            "C15:unbiased:u32-boundary",
                            format!("key={:?} iv={} ibs={} moduli={:?} first two-byte draw {} (accepted region [0,{})): got {:?}, unbiased rejection sampling gives {:?}", key, iv, ibs, ms, r, accepted, out, want),
                        );
                    }
                }
                other => run.oracle_fail("C15:panic:u32_in_range", format!("{} failed: {:?}", trunc(&req, 200), other.map(|r| r.is_ok()))),
            }
        }
    }

    // ---------------------------------------------------------------- C: output_value
    let mut rng = run.rng("C");
    for _ in 0..run.tier.scale(1000, 8000) {
        let key = rng.seed16();
        let iv = gen_iv(&mut rng);
        let max_bytes = *rng.pick(&[40u64, 200, 700, 1500, 4200]);
        let t = gen_type(&mut rng, 3, max_bytes);
        let mut s = Stream::new(key, iv);
        let want = ref_value(&mut s, &t);
        let req = format!("value {} {}", ty_tok(&t), show_list(&s.prefix()));
        run.count(&format!("C:bytes{}", match s.pos { 0 => "0".to_owned(), 1..=64 => "≤64".to_owned(), 65..=192 => "≤192".to_owned(), 193..=448 => "≤448".to_owned(), 449..=960 => "≤960".to_owned(), _ => ">960".to_owned() }));
        match catch(|| hooks::prf_output_value(key, iv, t.clone())) {
            Err(p) => run.oracle_fail("C15:panic:output_value", format!("{} panicked: {}", trunc(&req, 200), p)),
            Ok(Err(_)) => {
                run.case(req, "ERR".into(), true);
                run.oracle_fail("C15:value:error", format!("key={:?} iv={} type={:?} failed", key, iv, t));
            }
            Ok(Ok(v)) => {
                let got = to_ref(&v);
                run.case(req, show_val(&got), s.pos > 0);
                run.oracle_case(&format!("value key={:?} iv={} type={}", key, iv, ty_tok(&t)), s.pos > 0);
                match catch(|| v.check_type(t.clone())) {
                    Ok(Ok(true)) => {}
                    _ => run.oracle_fail("C15:domain:check_type", format!("key={:?} iv={} type={:?}: value fails check_type", key, iv, t)),
                }
                if !in_domain(&got, &t) {
                    run.oracle_fail("C15:domain:unused-bits", format!("key={:?} iv={} type={:?}: wrong length or unused bits set: {}", key, iv, t, trunc(&show_val(&got), 300)));
                } else if got != want {
                    run.oracle_fail("C15:stream:value", format!("key={:?} iv={} type={:?}: value is not cut from the counter-mode stream", key, iv, t));
                }
                // purity: a second call (fresh Prf) gives the same value
                match catch(|| hooks::prf_output_value(key, iv, t.clone())) {
                    Ok(Ok(v2)) if to_ref(&v2) == got => {}
                    _ => run.oracle_fail("C15:purity:output_value", format!("key={:?} iv={} type={:?}: second call differs", key, iv, t)),
                }
            }
        }
    }

    // ---------------------------------------------------------------- D: output_permutation
    let mut rng = run.rng("D");
    let ns = [0u64, 1, 2, 3, 4, 5, 15, 16, 17, 31, 32, 33, 100, 255, 256, 257, 300, 511, 512, 513, 1000, 1300];
    for it in 0..run.tier.scale(500, 4000) {
        let key = rng.seed16();
        let iv = gen_iv(&mut rng);
        if it == 0 {
            let r = catch(|| hooks::prf_output_permutation(key, iv, (1 << 30) + 1));
            run.case(format!("perm {} _", (1u64 << 30) + 1), if matches!(r, Ok(Err(_))) { "ERR".into() } else { "NOERR".into() }, false);
            continue;
        }
        let n = if rng.chance(1, 2) { *rng.pick(&ns) } else if rng.chance(1, 2) { rng.below(40) } else { rng.below(1300) };
        let mut s = Stream::new(key, iv);
        let want = ref_perm_prf(&mut s, n);
        let req = format!("perm {} {}", n, show_list(&s.prefix()));
        run.count(&format!("D:n{}", match n { 0..=1 => "≤1".to_owned(), 2..=16 => "≤16".to_owned(), 17..=256 => "≤256".to_owned(), 257..=512 => "≤512".to_owned(), _ => ">512".to_owned() }));
        match catch(|| hooks::prf_output_permutation(key, iv, n)) {
            Err(p) => run.oracle_fail("C15:panic:output_permutation", format!("{} panicked: {}", trunc(&req, 200), p)),
            Ok(Err(_)) => {
                run.case(req, "ERR".into(), true);
                run.oracle_fail("C15:perm:error", format!("key={:?} iv={} n={} failed", key, iv, n));
            }
            Ok(Ok(v)) => {
                let p = perm_of_value(&v);
                run.case(req, show_list(&p), n > 1);
                run.oracle_case(&format!("perm key={:?} iv={} n={}", key, iv, n), n > 1);
                if !is_perm(&p, n) {
                    run.oracle_fail("C15:domain:permutation", format!("key={:?} iv={} n={}: not a permutation of 0..n-1: {:?}", key, iv, n, trunc(&show_list(&p), 300)));
                } else if p != want {
                    run.oracle_fail("C15:unbiased:permutation", format!("key={:?} iv={} n={}: differs from Fisher–Yates with unbiased draws over the stream", key, iv, n));
                }
            }
        }
    }

    // ---------------------------------------------------------------- E: PRF nodes across evaluator instances
    let mut rng = run.rng("E");
    for _ in 0..run.tier.scale(300, 2500) {
        let nkeys = 1 + rng.below(3) as usize;
        let mut keys: Vec<[u8; 16]> = (0..nkeys).map(|_| rng.seed16()).collect();
        // related keys: half of the time all keys of a graph differ from the first one in a few bytes only
        // (shared prefix, shared suffix, single differing byte) — a cache or a key schedule that looks at
        // part of the key would confuse them
        if nkeys > 1 && rng.chance(1, 2) {
            for j in 1..nkeys {
                let mut k = keys[0];
                match rng.below(3) {
                    0 => {
                        for b in 8..16 {
                            k[b] = rng.next() as u8;
                        }
                    }
                    1 => {
                        for b in 0..8 {
                            k[b] = rng.next() as u8;
                        }
                    }
                    _ => {
                        let pos = rng.below(16) as usize;
                        k[pos] ^= 1 << rng.below(8);
                    }
                }
                if k == keys[0] {
                    k[15] ^= 0x80;
                }
                keys[j] = k;
            }
        }
        let nspec = 1 + rng.below(5) as usize;
        let ivs: Vec<u64> = (0..2).map(|_| gen_iv(&mut rng)).collect();
        let mut budget = 4000u64;
        let specs: Vec<(usize, u64, PrfSpec)> = (0..nspec)
            .map(|_| {
                let k = rng.below(nkeys as u64) as usize;
                let iv = if rng.chance(2, 3) { *rng.pick(&ivs) } else { gen_iv(&mut rng) };
                let cap = (budget / 2).max(8);
                let spec = if rng.chance(2, 3) {
                    {
                    let lim = *rng.pick(&[16u64, 100, 600, 1500]);
                    PrfSpec::V(gen_type(&mut rng, 2, cap.min(lim)))
                }
                } else {
                    PrfSpec::P(1 + rng.below((cap / 3).min(400).max(1)))
                };
                budget -= match &spec { PrfSpec::V(t) => type_bytes(t), PrfSpec::P(n) => 3 * n }.min(budget);
                (k, iv, spec)
            })
            .collect();
        // order 1: each spec once or twice; order 2: a different order and multiplicity
        let mut o1: Vec<usize> = (0..nspec).collect();
        for i in 0..nspec {
            if rng.chance(1, 3) {
                o1.push(i);
            }
        }
        rng.shuffle(&mut o1);
        let mut o2: Vec<usize> = (0..nspec).collect();
        for _ in 0..rng.below(4) {
            o2.push(rng.below(nspec as u64) as usize);
        }
        rng.shuffle(&mut o2);
        let key_vals: Vec<Value> = keys.iter().map(|k| Value::from_bytes(k.to_vec())).collect();
        let show_out = |spec: &PrfSpec, v: &Value| match spec {
            PrfSpec::V(_) => show_val(&to_ref(v)),
            PrfSpec::P(_) => show_list(&perm_of_value(v)),
        };
        let eval = |order: &[usize], twice: bool| -> Result<Vec<Vec<String>>, String> {
            let ops: Vec<_> = order.iter().map(|i| specs[*i].clone()).collect();
            let r = catch(|| -> ciphercore_base::errors::Result<Vec<Vec<String>>> {
                let (_c, g) = prf_graph(nkeys, &ops)?;
                let mut ev = SimpleEvaluator::new(None)?;
                ev.preprocess(&g.get_context())?;
                let mut outs = vec![];
                for _ in 0..(if twice { 2 } else { 1 }) {
                    let v = ev.evaluate_graph(g.clone(), key_vals.clone())?;
                    let vs = v.to_vector()?;
                    outs.push(order.iter().zip(vs.iter()).map(|(i, v)| show_out(&specs[*i].2, v)).collect());
                }
                Ok(outs)
            });
            match r {
                Err(p) => Err(format!("panic: {}", p)),
                Ok(Err(e)) => Err(format!("error: {}", trunc(&format!("{:?}", e), 200))),
                Ok(Ok(o)) => Ok(o),
            }
        };
        let descr = format!(
            "nodes keys={:?} specs={:?} order1={:?} order2={:?}",
            keys,
            specs.iter().map(|(k, iv, s)| format!("{}:{}:{}", k, iv, match s { PrfSpec::V(t) => ty_tok(t), PrfSpec::P(n) => format!("perm{}", n) })).collect::<Vec<_>>(),
            o1,
            o2
        );
        let (r1, r2) = (eval(&o1, false), eval(&o2, true));
        let (outs1, outs2) = match (r1, r2) {
            (Ok(a), Ok(b)) => (a, b),
            (a, b) => {
                run.oracle_fail("C15:panic:prf-nodes", format!("{}: evaluation failed: {:?} {:?}", descr, a.err(), b.err()));
                continue;
            }
        };
        run.oracle_case(&descr, true);
        run.count(&format!("E:keys{}:specs{}", nkeys, nspec));
        // purity oracle: every occurrence of a spec, in every instance and pass, has the same value; it equals the reference
        let mut seen: BTreeMap<usize, String> = BTreeMap::new();
        let mut bad = false;
        for (order, outs) in [(&o1, &outs1), (&o2, &outs2)] {
            for pass in outs.iter() {
                for (i, o) in order.iter().zip(pass.iter()) {
                    let e = seen.entry(*i).or_insert_with(|| o.clone());
                    if e != o {
                        bad = true;
                    }
                }
            }
        }
        if bad {
            run.oracle_fail("C15:purity:prf-nodes", format!("{}: the same (key, iv, type) evaluated to different values", descr));
        }
        // model request: streams for every (key id, iv) + ops of order 1
        let mut streams: BTreeMap<(usize, u64), Stream> = BTreeMap::new();
        let mut ref_bad = false;
        for (i, (k, iv, spec)) in specs.iter().enumerate() {
            let mut s = Stream::new(keys[*k], *iv);
            let want = match spec {
                PrfSpec::V(t) => show_val(&ref_value(&mut s, t)),
                PrfSpec::P(n) => show_list(&ref_perm_prf(&mut s, *n)),
            };
            if seen.get(&i) != Some(&want) {
                ref_bad = true;
            }
            let e = streams.entry((*k, *iv)).or_insert_with(|| Stream::new(keys[*k], *iv));
            if e.pos < s.pos {
                *e = s;
            }
        }
        if ref_bad && !bad {
            run.oracle_fail("C15:stream:prf-nodes", format!("{}: node value differs from the value cut from the counter-mode stream", descr));
        }
        // distinct (key, iv) with ≥ 8 output bytes give different values
        for i in 0..nspec {
            for j in 0..i {
                let (a, b) = (&specs[i], &specs[j]);
                let same_spec = match (&a.2, &b.2) {
                    (PrfSpec::V(t), PrfSpec::V(u)) => t == u && type_bytes(t) >= 8,
                    (PrfSpec::P(n), PrfSpec::P(m)) => n == m && *n >= 20,
                    _ => false,
                };
                if same_spec && (a.0, a.1) != (b.0, b.1) && seen.get(&i) == seen.get(&j) {
                    run.oracle_fail("C15:distinct:prf-nodes", format!("{}: specs {} and {} (different key or iv) collide", descr, i, j));
                }
            }
        }
        let stream_tok: Vec<String> = streams.iter().map(|((k, iv), s)| format!("{}:{}:{}", k, iv, show_list(&s.prefix()))).collect();
        let op_tok: Vec<String> = o1
            .iter()
            .map(|i| {
                let (k, iv, spec) = &specs[*i];
                match spec {
                    PrfSpec::V(t) => format!("V:{}:{}:{}", k, iv, ty_tok(t)),
                    PrfSpec::P(n) => format!("P:{}:{}:{}", k, iv, n),
                }
            })
            .collect();
        run.case(format!("nodes {} {}", stream_tok.join(";"), op_tok.join(";")), outs1[0].join(";"), true);
    }

    // ---------------------------------------------------------------- F: seeded PRNG, direct API
    let mut rng = run.rng("F");
    for it in 0..run.tier.scale(600, 5000) {
        let seed = rng.seed16();
        if it == 0 {
            let r = catch(|| PRNG::new(Some(seed)).and_then(|mut g| g.get_random_in_range(Some(0))));
            run.case("prng R:0 _".into(), if r.is_err() { "PANIC".into() } else { "NOPANIC".into() }, false);
            run.count("F:modulus0");
            continue;
        }
        let nops = 1 + rng.below(40) as usize;
        let mut budget = 200 + rng.below(4000);
        let mut ops = vec![];
        for _ in 0..nops {
            let op = match rng.below(4) {
                0 => PrngSpec::V(gen_type(&mut rng, 2, (budget / 2).max(8).min(600))),
                1 => PrngSpec::B(rng.below((budget / 2).max(2).min(700)) as usize),
                _ => PrngSpec::R(if rng.chance(1, 8) { None } else { Some(gen_mod64(&mut rng)) }),
            };
            let cost = match &op { PrngSpec::V(t) => type_bytes(t), PrngSpec::B(n) => *n as u64, _ => 16 };
            if cost > budget {
                break;
            }
            budget -= cost;
            ops.push(op);
        }
        if ops.is_empty() {
            ops.push(PrngSpec::R(Some(gen_mod64(&mut rng))));
        }
        let mut s = Stream::new(seed, 0);
        let want: Vec<String> = ops.iter().map(|op| ref_prng(&mut s, op)).collect();
        if s.pos > 5200 {
            continue;
        }
        let run_impl = || {
            catch(|| -> ciphercore_base::errors::Result<Vec<String>> {
                let mut g = PRNG::new(Some(seed))?;
                let mut out = vec![];
                for op in &ops {
                    out.push(match op {
                        PrngSpec::V(t) => {
                            let v = g.get_random_value(t.clone())?;
                            if !v.check_type(t.clone())? {
                                return Ok(vec!["BADTYPE".into()]);
                            }
                            show_val(&to_ref(&v))
                        }
                        PrngSpec::R(m) => g.get_random_in_range(*m)?.to_string(),
                        PrngSpec::B(n) => show_list(&g.get_random_bytes(*n)?),
                        PrngSpec::P(_) => unreachable!(),
                    });
                }
                Ok(out)
            })
        };
        let req = format!("prng {} {}", ops.iter().map(prng_tok).collect::<Vec<_>>().join(";"), show_list(&s.prefix()));
        let descr = format!("prng seed={:?} ops={}", seed, ops.iter().map(prng_tok).collect::<Vec<_>>().join(";"));
        run.count(&format!("F:ops{}", ops.len() / 10 * 10));
        match run_impl() {
            Err(p) => run.oracle_fail("C15:panic:prng", format!("{} panicked: {}", descr, p)),
            Ok(Err(_)) => {
                run.case(req, "ERR".into(), true);
                run.oracle_fail("C15:prng:error", format!("{} failed", descr));
            }
            Ok(Ok(out)) => {
                run.case(req, out.join(";"), true);
                run.oracle_case(&descr, true);
                if out == vec!["BADTYPE".to_owned()] {
                    run.oracle_fail("C15:domain:prng-check_type", format!("{}: a value fails check_type", descr));
                    continue;
                }
                let in_range = ops.iter().zip(out.iter()).all(|(op, o)| match op {
                    PrngSpec::R(Some(m)) => o.parse::<u64>().map(|x| x < *m).unwrap_or(false),
                    _ => true,
                });
                if !in_range {
                    run.oracle_fail("C15:range:prng", format!("{}: draw not below modulus: {}", descr, trunc(&out.join(";"), 300)));
                } else if out != want {
                    run.oracle_fail("C15:unbiased:prng", format!("{}: outputs differ from the sequential reference over the stream", descr));
                }
                match run_impl() {
                    Ok(Ok(out2)) if out2 == out => {}
                    _ => run.oracle_fail("C15:replay:prng", format!("{}: a second PRNG with the same seed does not replay", descr)),
                }
            }
        }
    }

    // ---------------------------------------------------------------- G: Random / RandomPermutation nodes of a seeded evaluator
    let mut rng = run.rng("G");
    for _ in 0..run.tier.scale(300, 2500) {
        let seed = rng.seed16();
        let nops = 1 + rng.below(6) as usize;
        let mut budget = 4400u64;
        let mut ops = vec![];
        for _ in 0..nops {
            let op = if rng.chance(1, 2) {
                {
                let lim = *rng.pick(&[16u64, 100, 600, 1500]);
                PrngSpec::V(gen_type(&mut rng, 2, (budget / 2).max(8).min(lim)))
            }
            } else {
                {
                let small = rng.chance(1, 2);
                PrngSpec::P(1 + if small { rng.below(12) } else { rng.below((budget / 20).max(2)) })
            }
            };
            let cost = match &op { PrngSpec::V(t) => type_bytes(t), PrngSpec::P(n) => 10 * n, _ => 0 };
            if cost > budget {
                break;
            }
            budget -= cost;
            ops.push(op);
        }
        if ops.is_empty() {
            ops.push(PrngSpec::P(5));
        }
        let mut s = Stream::new(seed, 0);
        let want: Vec<String> = ops.iter().map(|op| ref_prng(&mut s, op)).collect();
        if s.pos > 5200 {
            continue;
        }
        let run_impl = || {
            catch(|| -> ciphercore_base::errors::Result<Vec<String>> {
                let (_c, g) = prng_graph(&ops)?;
                let v = evaluate_simple_evaluator(g, vec![], Some(seed))?;
                let vs = v.to_vector()?;
                Ok(ops
                    .iter()
                    .zip(vs.iter())
                    .map(|(op, v)| match op {
                        PrngSpec::V(_) => show_val(&to_ref(v)),
                        _ => show_list(&perm_of_value(v)),
                    })
                    .collect())
            })
        };
        let req = format!("prng {} {}", ops.iter().map(prng_tok).collect::<Vec<_>>().join(";"), show_list(&s.prefix()));
        let descr = format!("random-nodes seed={:?} ops={}", seed, ops.iter().map(prng_tok).collect::<Vec<_>>().join(";"));
        run.count(&format!("G:ops{}", ops.len()));
        match run_impl() {
            Err(p) => run.oracle_fail("C15:panic:random-nodes", format!("{} panicked: {}", descr, p)),
            Ok(Err(e)) => {
                run.case(req, "ERR".into(), true);
                run.oracle_fail("C15:random-nodes:error", format!("{} failed: {}", descr, trunc(&format!("{:?}", e), 200)));
            }
            Ok(Ok(out)) => {
                run.case(req, out.join(";"), true);
                run.oracle_case(&descr, true);
                let perms_ok = ops.iter().zip(out.iter()).all(|(op, o)| match op {
                    PrngSpec::P(n) => {
                        let p: Vec<u64> = o.split(',').filter_map(|x| x.parse().ok()).collect();
                        is_perm(&p, *n)
                    }
                    _ => true,
                });
                if !perms_ok {
                    run.oracle_fail("C15:domain:random-permutation", format!("{}: not a permutation: {}", descr, trunc(&out.join(";"), 300)));
                } else if out != want {
                    run.oracle_fail("C15:unbiased:random-nodes", format!("{}: outputs differ from the sequential reference over the stream", descr));
                }
                match run_impl() {
                    Ok(Ok(out2)) if out2 == out => {}
                    _ => run.oracle_fail("C15:replay:random-nodes", format!("{}: a second evaluator with the same seed does not replay", descr)),
                }
            }
        }
    }
}
