//! C18 — sorting is a stable sort; permutation application and inversion agree.
//! Code under test: evaluators/simple_evaluator.rs (Sort, ApplyPermutation(bool), InversePermutation,
//! get_sorting_permutation, execute_inverse_permutation, evaluate_gather), ops/integer_key_sort.rs
//! (SortByIntegerKey), mpc/mpc_radix_sort.rs + mpc/mpc_apply_permutation.rs (compiled secure sort).
//! Streams: S plaintext Sort on named tuples with bit keys, I SortByIntegerKey for every scalar type,
//! P ApplyPermutation / InversePermutation with valid and invalid permutations, M compiled (MPC) sort /
//! integer-key sort / permutation application under one evaluator and the three-party executor,
//! E malformed graph constructions (rejections).
use crate::c01::config_name;
use crate::mpc_common::*;
use crate::util::*;
use crate::vals::*;
use ciphercore_base::custom_ops::{run_instantiation_pass, CustomOperation};
use ciphercore_base::data_types::*;
use ciphercore_base::data_values::Value;
use ciphercore_base::errors::Result;
use ciphercore_base::evaluators::random_evaluate;
use ciphercore_base::graphs::util::simple_context;
use ciphercore_base::graphs::*;
use ciphercore_base::mpc::mpc_compiler::IOStatus;
use ciphercore_base::ops::integer_key_sort::SortByIntegerKey;
use ciphercore_base::random::PRNG;
use ciphercore_base::runtime_error;
use std::cmp::Ordering;

// --------------------------------------------------------------------------------------------
// columns and tables
// --------------------------------------------------------------------------------------------

#[derive(Clone, Debug)]
struct Col {
    name: String,
    st: ScalarType,
    shape: Vec<u64>,
    data: Vec<Z>,
}

impl Col {
    /// elements per row
    fn k(&self) -> usize {
        self.shape[1..].iter().product::<u64>() as usize
    }
    fn ty(&self) -> Type {
        array_type(self.shape.clone(), self.st)
    }
    fn value(&self) -> Result<Value> {
        value_of(self.st, &self.data)
    }
    fn gather(&self, perm: &[usize]) -> Vec<Z> {
        let k = self.k();
        perm.iter().flat_map(|&i| self.data[i * k..(i + 1) * k].iter().cloned()).collect()
    }
    fn descr(&self) -> String {
        format!("{}:{}{:?}={}", self.name, st_name(self.st), self.shape, show_list(&self.data))
    }
}

fn descr_cols(cols: &[Col]) -> String {
    cols.iter().map(|c| c.descr()).collect::<Vec<_>>().join(" ")
}

/// comparison of mathematical integers
fn zcmp(a: Z, b: Z) -> Ordering {
    match (a.norm(), b.norm()) {
        (Z::I(x), Z::I(y)) => x.cmp(&y),
        (Z::I(_), Z::U(_)) => Ordering::Less,
        (Z::U(_), Z::I(_)) => Ordering::Greater,
        (Z::U(x), Z::U(y)) => x.cmp(&y),
    }
}

fn gen_data(rng: &mut Rng, st: ScalarType, count: usize) -> Vec<Z> {
    // a small pool half of the time: duplicates among payloads, too
    if rng.chance(1, 2) {
        let d = 1 + rng.below(4) as usize;
        let pool: Vec<Z> = (0..d).map(|_| gen_elem(rng, st).norm()).collect();
        (0..count).map(|_| *rng.pick(&pool)).collect()
    } else {
        (0..count).map(|_| gen_elem(rng, st).norm()).collect()
    }
}

fn gen_payload(rng: &mut Rng, n: usize, name: &str, max_rank: u64) -> Col {
    let st = *rng.pick(&ALL_ST);
    let rank = 1 + rng.below(max_rank);
    let mut shape = vec![n as u64];
    for _ in 1..rank {
        shape.push(1 + rng.below(3));
    }
    let count = shape.iter().product::<u64>() as usize;
    Col { name: name.to_owned(), st, shape, data: gen_data(rng, st, count) }
}

fn idx_col(n: usize, name: &str) -> Col {
    Col { name: name.to_owned(), st: UINT64, shape: vec![n as u64], data: (0..n).map(|i| Z::I(i as i128)).collect() }
}

fn rand_row(rng: &mut Rng, b: usize) -> Vec<u8> {
    (0..b).map(|_| rng.below(2) as u8).collect()
}

/// key rows with heavy duplicates
fn gen_key_rows(rng: &mut Rng, n: usize, b: usize) -> (Vec<Vec<u8>>, &'static str) {
    match rng.below(12) {
        0..=4 => {
            let d = 1 + rng.below(4) as usize;
            let pool: Vec<Vec<u8>> = (0..d).map(|_| rand_row(rng, b)).collect();
            ((0..n).map(|_| rng.pick(&pool).clone()).collect(), "pool")
        }
        5 => (vec![rand_row(rng, b); n], "all-equal"),
        6 => {
            let mut v: Vec<Vec<u8>> = (0..n).map(|_| rand_row(rng, b)).collect();
            v.sort();
            (v, "sorted")
        }
        7 => {
            let mut v: Vec<Vec<u8>> = (0..n).map(|_| rand_row(rng, b)).collect();
            v.sort();
            v.reverse();
            (v, "reverse")
        }
        8 | 9 => {
            // rows that differ from a base row in at most one position (which end is significant matters)
            let base = rand_row(rng, b);
            let rows = (0..n)
                .map(|_| {
                    let mut r = base.clone();
                    if rng.chance(3, 4) {
                        let j = rng.below(b as u64) as usize;
                        r[j] ^= 1;
                    }
                    r
                })
                .collect();
            (rows, "near")
        }
        _ => ((0..n).map(|_| rand_row(rng, b)).collect(), "random"),
    }
}

fn key_col(name: &str, rows: &[Vec<u8>], b: usize) -> Col {
    Col {
        name: name.to_owned(),
        st: BIT,
        shape: vec![rows.len() as u64, b as u64],
        data: rows.iter().flat_map(|r| r.iter().map(|&x| Z::I(x as i128))).collect(),
    }
}

/// key column at a random position among the other (shuffled) columns
fn arrange(rng: &mut Rng, key: Col, mut others: Vec<Col>) -> (Vec<Col>, usize) {
    rng.shuffle(&mut others);
    let pos = rng.below(others.len() as u64 + 1) as usize;
    others.insert(pos, key);
    (others, pos)
}

// --------------------------------------------------------------------------------------------
// graph builders (also used, with malformed types, by stream E)
// --------------------------------------------------------------------------------------------

/// one Input per column, CreateNamedTuple, then Sort(key) or the custom operation SortByIntegerKey{key}
fn sort_ctx(cols: &[(String, Type)], key: &str, int_key: bool) -> Result<Context> {
    simple_context(|g| {
        let mut elems = vec![];
        for (name, t) in cols {
            elems.push((name.clone(), g.input(t.clone())?));
        }
        let t = g.create_named_tuple(elems)?;
        if int_key {
            g.custom_op(CustomOperation::new(SortByIntegerKey { key: key.to_owned() }), vec![t])
        } else {
            t.sort(key.to_owned())
        }
    })
}

fn table_ctx(cols: &[Col], key: &str, int_key: bool) -> Result<Context> {
    let tys: Vec<(String, Type)> = cols.iter().map(|c| (c.name.clone(), c.ty())).collect();
    sort_ctx(&tys, key, int_key)
}

#[derive(Clone, Copy, PartialEq, Eq, Debug)]
enum PermProg {
    Apply,
    ApplyInverse,
    /// apply_inverse(apply(x, p), p)
    ApplyThenInverse,
    /// apply(apply_inverse(x, p), p)
    InverseThenApply,
    /// apply(x, InversePermutation(p))
    ApplyOfInverse,
}

fn apply_ctx(at: Type, pt: Type, prog: PermProg) -> Result<Context> {
    simple_context(|g| {
        let a = g.input(at)?;
        let p = g.input(pt)?;
        match prog {
            PermProg::Apply => g.apply_permutation(a, p),
            PermProg::ApplyInverse => g.apply_inverse_permutation(a, p),
            PermProg::ApplyThenInverse => g.apply_permutation(a, p.clone())?.apply_inverse_permutation(p),
            PermProg::InverseThenApply => g.apply_inverse_permutation(a, p.clone())?.apply_permutation(p),
            PermProg::ApplyOfInverse => a.apply_permutation(p.inverse_permutation()?),
        }
    })
}

fn invperm_ctx(pt: Type, twice: bool) -> Result<Context> {
    simple_context(|g| {
        let p = g.input(pt)?;
        let q = g.inverse_permutation(p)?;
        if twice {
            q.inverse_permutation()
        } else {
            Ok(q)
        }
    })
}

fn decode_table(out: &Value, cols: &[Col]) -> Result<Vec<Vec<Z>>> {
    let vs = out.to_vector()?;
    if vs.len() != cols.len() {
        return Err(runtime_error!("result has {} columns, expected {}", vs.len(), cols.len()));
    }
    cols.iter().zip(vs.iter()).map(|(c, v)| elems_of(v, &c.shape, c.st)).collect()
}

fn eval_table(ctx: &Context, cols: &[Col], instantiate: bool) -> Result<Vec<Vec<Z>>> {
    let inputs = cols.iter().map(|c| c.value()).collect::<Result<Vec<_>>>()?;
    let c2 = if instantiate { run_instantiation_pass(ctx.clone())?.get_context() } else { ctx.clone() };
    let out = random_evaluate(c2.get_main_graph()?, inputs)?;
    decode_table(&out, cols)
}

// --------------------------------------------------------------------------------------------
// the property's oracle for a sorted table
// --------------------------------------------------------------------------------------------

/// `out`: the implementation's columns; `cmp(i, j)`: order of the keys of input rows i and j;
/// `idx_pos`: position of the index payload column 0..n-1. Returns the number of failures reported.
fn check_sorted(run: &mut Run, what: &str, descr: &str, cols: &[Col], out: &[Vec<Z>], idx_pos: usize, cmp: &dyn Fn(usize, usize) -> Ordering) -> usize {
    let n = cols[idx_pos].data.len();
    let mut fails = 0;
    let mut fail = |run: &mut Run, variant: &str, msg: String| {
        run.oracle_fail(&format!("C18:{}:{}", what, variant), format!("{} : {}", descr, msg));
        fails += 1;
    };
    // reference: stable sort of the row indices
    let mut reference: Vec<usize> = (0..n).collect();
    reference.sort_by(|&i, &j| cmp(i, j).then(i.cmp(&j)));
    let raw = &out[idx_pos];
    let mut seen = vec![false; n];
    let mut perm: Vec<usize> = vec![];
    let mut is_perm = raw.len() == n;
    for z in raw {
        match z.norm() {
            Z::I(x) if x >= 0 && (x as usize) < n && !seen[x as usize] => {
                seen[x as usize] = true;
                perm.push(x as usize);
            }
            _ => {
                is_perm = false;
                break;
            }
        }
    }
    if !is_perm {
        fail(run, "not-a-permutation", format!("sorted index column {} is not a permutation of 0..{}", show_list(raw), n));
    } else {
        let mut ordered = true;
        let mut stable = true;
        for w in perm.windows(2) {
            match cmp(w[0], w[1]) {
                Ordering::Greater => ordered = false,
                Ordering::Equal => {
                    if w[0] > w[1] {
                        stable = false
                    }
                }
                Ordering::Less => {}
            }
        }
        if !ordered {
            fail(run, "not-sorted", format!("keys gathered by {} are not non-decreasing", show_list(&perm)));
        } else if !stable {
            fail(run, "unstable", format!("rows with equal keys do not keep their input order: {} (expected {})", show_list(&perm), show_list(&reference)));
        } else if perm != reference {
            fail(run, "perm-differs", format!("permutation {} differs from the stable sorting permutation {}", show_list(&perm), show_list(&reference)));
        }
    }
    for (c, got) in cols.iter().zip(out.iter()) {
        let want = c.gather(&reference);
        if *got != want {
            fail(run, "column-differs", format!("column {} is {} but the input gathered by {} is {}", c.name, show_list(got), show_list(&reference), show_list(&want)));
        }
    }
    fails
}

fn bits_flat(rows: &[Vec<u8>]) -> String {
    let flat: Vec<u8> = rows.iter().flatten().cloned().collect();
    show_list(&flat)
}

// --------------------------------------------------------------------------------------------
// S — plaintext Sort
// --------------------------------------------------------------------------------------------

fn stream_sort(run: &mut Run) {
    let mut rng = run.rng("S");
    let cases = run.tier.scale(1200, 12000);
    for it in 0..cases {
        let n = if it < 24 { 1 + it % 12 } else if it % 8 == 0 { 21 + rng.below(28) as usize } else { 1 + rng.below(12) as usize };
        let b = if it < 20 { 1 + it % 10 } else { 1 + rng.below(10) as usize };
        let (rows, kind) = gen_key_rows(&mut rng, n, b);
        let key_name = *rng.pick(&["key", "k", "id"]);
        let np = 1 + rng.below(3) as usize;
        let mut others: Vec<Col> = (0..np).map(|j| gen_payload(&mut rng, n, &format!("c{}", j), 3)).collect();
        others.push(idx_col(n, "idx"));
        let (cols, key_pos) = arrange(&mut rng, key_col(key_name, &rows, b), others);
        let idx_pos = cols.iter().position(|c| c.name == "idx").unwrap();
        let distinct = {
            let mut r = rows.clone();
            r.sort();
            r.dedup();
            r.len()
        };
        let has_dup = distinct < n;
        run.count(&format!("S:keys:{}", kind));
        run.count(if has_dup { "S:duplicate-keys" } else { "S:distinct-keys" });
        run.count(&format!("S:n:{}", n));
        run.count(&format!("S:b:{}", if b % 2 == 1 { "odd" } else { "even" }));
        run.count(&format!("S:keypos:{}", if key_pos == 0 { "first" } else if key_pos + 1 == cols.len() { "last" } else { "middle" }));
        for c in &cols {
            if c.name.starts_with('c') {
                run.count(&format!("S:payload:{}:rank{}", st_name(c.st), c.shape.len()));
            }
        }
        let descr = format!("Sort key={} {}", key_name, descr_cols(&cols));
        let nontrivial = n >= 2;
        run.oracle_case(&descr, nontrivial);
        let r = catch(|| -> Result<Vec<Vec<Z>>> {
            let ctx = table_ctx(&cols, key_name, false)?;
            eval_table(&ctx, &cols, false)
        });
        let kb = bits_flat(&rows);
        let out = match r {
            Ok(Ok(o)) => Some(o),
            Ok(Err(e)) => {
                run.oracle_fail("C18:sort:error", format!("{} : {}", descr, trunc(&format!("{}", e), 200)));
                None
            }
            Err(p) => {
                run.oracle_fail("C18:panic:sort", format!("{} : {}", descr, p));
                None
            }
        };
        let ans = |j: usize| -> String {
            match &out {
                Some(o) => show_list(&o[j]),
                None => "ERR".to_owned(),
            }
        };
        run.case(format!("perm {} {}", n, kb), ans(idx_pos), nontrivial);
        for (j, c) in cols.iter().enumerate() {
            if j != idx_pos {
                run.case(format!("sortcol {} {} {}", n, kb, show_list(&c.data)), ans(j), nontrivial);
            }
        }
        if let Some(o) = &out {
            check_sorted(run, "sort", &descr, &cols, o, idx_pos, &|i, j| rows[i].cmp(&rows[j]));
        }
    }
}

// --------------------------------------------------------------------------------------------
// I — SortByIntegerKey (plaintext, instantiated)
// --------------------------------------------------------------------------------------------

fn gen_int_keys(rng: &mut Rng, st: ScalarType, n: usize) -> (Vec<Z>, &'static str) {
    match rng.below(10) {
        0..=3 => {
            let d = 1 + rng.below(4) as usize;
            let pool: Vec<Z> = (0..d).map(|_| gen_elem(rng, st).norm()).collect();
            ((0..n).map(|_| *rng.pick(&pool)).collect(), "pool")
        }
        4 => (vec![gen_elem(rng, st).norm(); n], "all-equal"),
        5 => {
            let mut v: Vec<Z> = (0..n).map(|_| gen_elem(rng, st).norm()).collect();
            v.sort_by(|a, b| zcmp(*a, *b));
            (v, "sorted")
        }
        6 => {
            let mut v: Vec<Z> = (0..n).map(|_| gen_elem(rng, st).norm()).collect();
            v.sort_by(|a, b| zcmp(*b, *a));
            (v, "reverse")
        }
        _ => ((0..n).map(|_| gen_elem(rng, st).norm()).collect(), "random"),
    }
}

fn permint_req(st: ScalarType, keys: &[Z]) -> String {
    let w = if st == BIT { 0 } else { st_bits(st) };
    format!("permint {} {} {}", if st.is_signed() { 1 } else { 0 }, w, show_list(keys))
}

fn stream_intsort(run: &mut Run) {
    let mut rng = run.rng("I");
    let cases = run.tier.scale(990, 9900);
    for it in 0..cases {
        let st = ALL_ST[it % ALL_ST.len()];
        let n = if it < 11 * 12 { 1 + (it / 11) % 12 } else if it % 8 == 0 { 21 + rng.below(28) as usize } else { 1 + rng.below(12) as usize };
        let (keys, kind) = gen_int_keys(&mut rng, st, n);
        let key = Col { name: "key".to_owned(), st, shape: vec![n as u64], data: keys.clone() };
        let others = vec![gen_payload(&mut rng, n, "c0", 2), idx_col(n, "idx")];
        let (cols, _) = arrange(&mut rng, key, others);
        let idx_pos = cols.iter().position(|c| c.name == "idx").unwrap();
        let has_neg = keys.iter().any(|z| matches!(z.norm(), Z::I(x) if x < 0));
        let has_nonneg = keys.iter().any(|z| !matches!(z.norm(), Z::I(x) if x < 0));
        run.count(&format!("I:type:{}", st_name(st)));
        run.count(&format!("I:keys:{}", kind));
        if has_neg && has_nonneg {
            run.count("I:mixed-signs");
        }
        let mut srt = keys.clone();
        srt.sort_by(|a, b| zcmp(*a, *b));
        if srt.windows(2).any(|w| w[0] == w[1]) {
            run.count("I:duplicate-keys");
        }
        let descr = format!("SortByIntegerKey key=key {}", descr_cols(&cols));
        let nontrivial = n >= 2;
        run.oracle_case(&descr, nontrivial);
        let r = catch(|| -> Result<Vec<Vec<Z>>> {
            let ctx = table_ctx(&cols, "key", true)?;
            eval_table(&ctx, &cols, true)
        });
        match r {
            Ok(Ok(o)) => {
                run.case(permint_req(st, &keys), show_list(&o[idx_pos]), nontrivial);
                check_sorted(run, "intsort", &descr, &cols, &o, idx_pos, &|i, j| zcmp(keys[i], keys[j]));
            }
            Ok(Err(e)) => {
                run.case(permint_req(st, &keys), "ERR".to_owned(), nontrivial);
                run.oracle_fail("C18:intsort:error", format!("{} : {}", descr, trunc(&format!("{}", e), 200)));
            }
            Err(p) => {
                run.case(permint_req(st, &keys), "ERR".to_owned(), nontrivial);
                run.oracle_fail("C18:panic:intsort", format!("{} : {}", descr, p));
            }
        }
    }
}

// --------------------------------------------------------------------------------------------
// P — ApplyPermutation / InversePermutation (plaintext)
// --------------------------------------------------------------------------------------------

const PERM_ST: [ScalarType; 4] = [UINT8, UINT16, UINT32, UINT64];

fn type_max(st: ScalarType) -> u128 {
    (1u128 << st_bits(st)) - 1
}

fn random_perm(rng: &mut Rng, n: usize) -> Vec<u64> {
    let mut p: Vec<u64> = (0..n as u64).collect();
    rng.shuffle(&mut p);
    p
}

/// a permutation of 0..n-1, or a broken one; returns (entries, kind)
fn gen_perm(rng: &mut Rng, n: usize, pst: ScalarType) -> (Vec<u64>, &'static str) {
    let mut p = random_perm(rng, n);
    let oor = |rng: &mut Rng| -> u64 {
        let m = type_max(pst).min(u64::MAX as u128) as u64;
        let c = match rng.below(5) {
            0 => n as u64,
            1 => n as u64 + 5,
            2 => 255,
            3 => m,
            _ => n as u64 + rng.below(200),
        };
        c.min(m)
    };
    match rng.below(10) {
        0 if n >= 2 => {
            let i = rng.below(n as u64) as usize;
            let mut j = rng.below(n as u64 - 1) as usize;
            if j >= i {
                j += 1;
            }
            p[j] = p[i];
            (p, "dup")
        }
        1 | 2 => {
            let i = rng.below(n as u64) as usize;
            p[i] = oor(rng);
            (p, "oor")
        }
        3 if n >= 3 => {
            let i = rng.below(n as u64) as usize;
            let j = (i + 1) % n;
            let l = (i + 2) % n;
            p[j] = p[i];
            p[l] = oor(rng);
            (p, "dup+oor")
        }
        4 if rng.chance(1, 3) => ((0..n as u64).collect(), "identity"),
        _ => (p, "valid"),
    }
}

fn perm_value(pst: ScalarType, p: &[u64]) -> Result<Value> {
    Value::from_flattened_array(p, pst)
}

fn eval_perm_prog(a: &Col, pst: ScalarType, p: &[u64], prog: PermProg) -> Result<Vec<Z>> {
    let ctx = apply_ctx(a.ty(), array_type(vec![p.len() as u64], pst), prog)?;
    let out = random_evaluate(ctx.get_main_graph()?, vec![a.value()?, perm_value(pst, p)?])?;
    elems_of(&out, &a.shape, a.st)
}

fn eval_invperm(pst: ScalarType, p: &[u64], twice: bool) -> Result<Vec<u64>> {
    let t = array_type(vec![p.len() as u64], pst);
    let ctx = invperm_ctx(t.clone(), twice)?;
    let out = random_evaluate(ctx.get_main_graph()?, vec![perm_value(pst, p)?])?;
    out.to_flattened_array_u64(t)
}

fn stream_perm(run: &mut Run) {
    let mut rng = run.rng("P");
    let cases = run.tier.scale(1200, 12000);
    for it in 0..cases {
        let n = if it < 24 { 1 + it % 12 } else if it % 8 == 0 { 21 + rng.below(28) as usize } else { 1 + rng.below(12) as usize };
        let pst = PERM_ST[it % 4];
        let (p, kind) = gen_perm(&mut rng, n, pst);
        let valid = kind == "valid" || kind == "identity";
        let a = gen_payload(&mut rng, n, "a", 3);
        let k = a.k();
        let fixed_points = p.iter().enumerate().filter(|(i, x)| **x == *i as u64).count();
        let involution = valid && (0..n).all(|i| p[p[i] as usize] == i as u64);
        run.count(&format!("P:perm:{}", kind));
        run.count(&format!("P:ptype:{}", st_name(pst)));
        run.count(&format!("P:payload:{}:rank{}", st_name(a.st), a.shape.len()));
        if valid && fixed_points > 0 && fixed_points < n {
            run.count("P:valid-with-some-fixed-points");
        }
        if valid && !involution {
            run.count("P:valid-non-involution");
        }
        let ps = show_list(&p);
        let descr = format!("permutation {}[{}]={} ({}) on {}", st_name(pst), n, ps, kind, a.descr());
        let nontrivial = n >= 2;
        run.oracle_case(&descr, nontrivial);
        // --- ApplyPermutation(false / true)
        for inv in [false, true] {
            let prog = if inv { PermProg::ApplyInverse } else { PermProg::Apply };
            let req = format!("applyperm {} {} {} {}", inv as u8, n, ps, show_list(&a.data));
            match catch(|| eval_perm_prog(&a, pst, &p, prog)) {
                Ok(Ok(out)) => {
                    run.case(req, show_list(&out), nontrivial);
                    if !valid {
                        run.oracle_fail("C18:perm:accepts-invalid", format!("{} : ApplyPermutation({}) returned {}", descr, inv, show_list(&out)));
                    } else {
                        let mut want = a.data.clone();
                        for i in 0..n {
                            let (dst, src) = if inv { (p[i] as usize, i) } else { (i, p[i] as usize) };
                            want[dst * k..(dst + 1) * k].copy_from_slice(&a.data[src * k..(src + 1) * k]);
                        }
                        if out != want {
                            run.oracle_fail(&format!("C18:perm:apply{}-differs", if inv { "-inverse" } else { "" }), format!("{} : got {} expected {}", descr, show_list(&out), show_list(&want)));
                        }
                    }
                }
                Ok(Err(e)) => {
                    run.case(req, "ERR".to_owned(), nontrivial);
                    if valid {
                        run.oracle_fail("C18:perm:rejects-valid", format!("{} : ApplyPermutation({}) : {}", descr, inv, trunc(&format!("{}", e), 200)));
                    }
                }
                Err(pn) => {
                    run.case(req, "ERR".to_owned(), nontrivial);
                    run.oracle_fail("C18:panic:apply-permutation", format!("{} : {}", descr, pn));
                }
            }
        }
        // --- InversePermutation
        let inv_res = catch(|| eval_invperm(pst, &p, false));
        match &inv_res {
            Ok(Ok(q)) => {
                run.case(format!("invperm {}", ps), show_list(q), nontrivial);
                run.case(format!("isperm {}", ps), "1".to_owned(), nontrivial);
                if !valid {
                    run.oracle_fail("C18:perm:accepts-invalid", format!("{} : InversePermutation returned {}", descr, show_list(q)));
                } else {
                    let mut want = vec![0u64; n];
                    for i in 0..n {
                        want[p[i] as usize] = i as u64;
                    }
                    if *q != want {
                        run.oracle_fail("C18:perm:inverse-differs", format!("{} : got {} expected {}", descr, show_list(q), show_list(&want)));
                    }
                }
            }
            Ok(Err(e)) => {
                run.case(format!("invperm {}", ps), "ERR".to_owned(), nontrivial);
                run.case(format!("isperm {}", ps), "0".to_owned(), nontrivial);
                if valid {
                    run.oracle_fail("C18:perm:rejects-valid", format!("{} : InversePermutation : {}", descr, trunc(&format!("{}", e), 200)));
                }
            }
            Err(pn) => {
                run.case(format!("invperm {}", ps), "ERR".to_owned(), nontrivial);
                run.case(format!("isperm {}", ps), "0".to_owned(), nontrivial);
                run.oracle_fail("C18:panic:inverse-permutation", format!("{} : {}", descr, pn));
            }
        }
        // --- round trips through multi-node graphs (oracle only)
        if valid {
            for prog in [PermProg::ApplyThenInverse, PermProg::InverseThenApply] {
                match catch(|| eval_perm_prog(&a, pst, &p, prog)) {
                    Ok(Ok(out)) => {
                        if out != a.data {
                            run.oracle_fail("C18:perm:roundtrip-differs", format!("{} : {:?} returned {}", descr, prog, show_list(&out)));
                        }
                    }
                    Ok(Err(e)) => run.oracle_fail("C18:perm:rejects-valid", format!("{} : {:?} : {}", descr, prog, trunc(&format!("{}", e), 200))),
                    Err(pn) => run.oracle_fail("C18:panic:apply-permutation", format!("{} : {:?} : {}", descr, prog, pn)),
                }
            }
            // apply(x, p⁻¹) == apply_inverse(x, p)
            let lhs = catch(|| eval_perm_prog(&a, pst, &p, PermProg::ApplyOfInverse));
            let rhs = catch(|| eval_perm_prog(&a, pst, &p, PermProg::ApplyInverse));
            match (lhs, rhs) {
                (Ok(Ok(l)), Ok(Ok(r))) => {
                    if l != r {
                        run.oracle_fail("C18:perm:inverse-disagrees", format!("{} : apply(x, inverse(p)) = {} but apply_inverse(x, p) = {}", descr, show_list(&l), show_list(&r)));
                    }
                }
                (Err(pn), _) | (_, Err(pn)) => run.oracle_fail("C18:panic:apply-permutation", format!("{} : {}", descr, pn)),
                _ => run.oracle_fail("C18:perm:rejects-valid", format!("{} : apply(x, inverse(p)) or apply_inverse(x, p) failed", descr)),
            }
            match catch(|| eval_invperm(pst, &p, true)) {
                Ok(Ok(q)) => {
                    if q != p {
                        run.oracle_fail("C18:perm:double-inverse-differs", format!("{} : inverse(inverse(p)) = {}", descr, show_list(&q)));
                    }
                }
                Ok(Err(e)) => run.oracle_fail("C18:perm:rejects-valid", format!("{} : inverse(inverse(p)) : {}", descr, trunc(&format!("{}", e), 200))),
                Err(pn) => run.oracle_fail("C18:panic:inverse-permutation", format!("{} : {}", descr, pn)),
            }
        }
    }
}

// --------------------------------------------------------------------------------------------
// M — compiled (MPC) sort / integer-key sort / permutation application
// --------------------------------------------------------------------------------------------

struct Prog {
    name: &'static str,
    descr: String,
    ctx: Context,
    in_types: Vec<Type>,
    out_type: Type,
    inputs: Vec<Value>,
}

fn prog_of(name: &'static str, descr: String, ctx: Context, inputs: Vec<Value>) -> Result<Prog> {
    let g = ctx.get_main_graph()?;
    let mut in_types = vec![];
    for n in g.get_nodes() {
        if let Operation::Input(t) = n.get_operation() {
            in_types.push(t);
        }
    }
    let out_type = g.get_output_node()?.get_type()?;
    Ok(Prog { name, descr, ctx, in_types, out_type, inputs })
}

/// plaintext evaluation, compilation, one-evaluator run and three-party run; every compiled result must
/// equal the plaintext result. Returns the revealed result of the one-evaluator run.
fn run_compiled(run: &mut Run, rng: &mut Rng, p: &Prog, ins: &[IOStatus], outs: &[IOStatus], mode: u8, may_reject: bool) -> Option<Value> {
    let cfg = config_name(ins, outs, mode);
    let descr = format!("{} [{}] {}", p.name, p.descr, cfg);
    let private = ins.iter().any(|s| !matches!(s, IOStatus::Public));
    run.oracle_case(&descr, private);
    let expected = match catch(|| plain_eval(&p.ctx, p.inputs.clone(), [7; 16])) {
        Ok(Ok(v)) => v,
        Ok(Err(e)) => {
            run.oracle_fail("C18:mpc:plain-error", format!("{} : {}", descr, trunc(&format!("{}", e), 200)));
            return None;
        }
        Err(pn) => {
            run.oracle_fail("C18:panic:mpc-plain", format!("{} : {}", descr, pn));
            return None;
        }
    };
    let t0 = std::time::Instant::now();
    let cc = match catch(|| compile(&p.ctx, ins, outs, mode)) {
        Ok(Ok(c)) => c,
        Ok(Err(e)) => {
            if may_reject {
                run.count(&format!("M:{}:compile-rejected", p.name));
            } else {
                run.oracle_fail("C18:mpc:compile-error", format!("{} : {}", descr, trunc(&format!("{}", e), 200)));
            }
            return None;
        }
        Err(pn) => {
            run.oracle_fail("C18:panic:mpc-compile", format!("{} : {}", descr, pn));
            return None;
        }
    };
    run.count_n("M:compile-ms", t0.elapsed().as_millis() as u64);
    if let Ok(g) = cc.get_main_graph() {
        run.count_n(&format!("M:{}:compiled-nodes", p.name), g.get_nodes().len() as u64);
    }
    run.count(&format!("M:{}:compiled", p.name));
    let seed = rng.seed16();
    let share_seed = rng.seed16();
    let r = catch(|| -> Result<Value> {
        let mut prng = PRNG::new(Some(share_seed))?;
        let gin = global_inputs(ins, &p.in_types, &p.inputs, &mut prng)?;
        let vals = global_run(&cc, gin, seed)?;
        let oid = cc.get_main_graph()?.get_output_node()?.get_id() as usize;
        reveal_if_shared(vals[oid].clone(), &p.out_type, outs)
    });
    let got = match r {
        Ok(Ok(v)) => {
            if v != expected {
                run.oracle_fail("C18:mpc:global-differs", format!("{} : the compiled graph (one evaluator) returns a different value than the source graph", descr));
            }
            Some(v)
        }
        Ok(Err(e)) => {
            run.oracle_fail("C18:mpc:run-error", format!("{} : one evaluator : {}", descr, trunc(&format!("{}", e), 200)));
            None
        }
        Err(pn) => {
            run.oracle_fail("C18:panic:mpc-global-run", format!("{} : {}", descr, pn));
            None
        }
    };
    match catch(|| three_party(&cc, ins, &p.inputs, rng)) {
        Ok(Ok(r3)) => {
            run.count_n("M:sends-delivered", r3.received.iter().map(|v| v.len() as u64).sum());
            if let Some(why) = judge3(&r3, &expected, &p.out_type, outs) {
                let poison = if r3.poison_sent.is_empty() { String::new() } else { format!(" (poison sent at {:?})", &r3.poison_sent[..r3.poison_sent.len().min(3)]) };
                run.oracle_fail("C18:mpc:three-party-differs", format!("{} : {}{}", descr, why, poison));
            }
        }
        Ok(Err(e)) => run.oracle_fail("C18:mpc:run-error", format!("{} : three parties : {}", descr, trunc(&format!("{}", e), 200))),
        Err(pn) => run.oracle_fail("C18:panic:mpc-three-party", format!("{} : {}", descr, pn)),
    }
    got
}

/// statuses with a given chance of being private at all
fn gen_private_status(rng: &mut Rng) -> IOStatus {
    loop {
        let s = gen_status(rng);
        if !matches!(s, IOStatus::Public) {
            return s;
        }
    }
}

fn mpc_sort_case(run: &mut Run, rng: &mut Rng, it: usize, max_n: u64, max_b: u64) {
    // sizes biased towards at least one composition round (b >= 3) on at least 3 rows
    let n = if it < 2 { 1 + it } else if rng.chance(1, 5) { 1 + rng.below(2) as usize } else { 3 + rng.below(max_n - 2) as usize };
    let b = if it < 2 { 3 - 2 * it } else if rng.chance(1, 4) { 1 + rng.below(2) as usize } else { 3 + rng.below(max_b - 2) as usize };
    let (rows, kind) = gen_key_rows(rng, n, b);
    let np = 1 + rng.below(2) as usize;
    let mut others: Vec<Col> = (0..np).map(|j| gen_payload(rng, n, &format!("c{}", j), 2)).collect();
    others.push(idx_col(n, "idx"));
    let (cols, key_pos) = arrange(rng, key_col("key", &rows, b), others);
    let idx_pos = cols.iter().position(|c| c.name == "idx").unwrap();
    let mut ins: Vec<IOStatus> = cols.iter().map(|_| gen_status(rng)).collect();
    if rng.chance(3, 4) && matches!(ins[key_pos], IOStatus::Public) {
        ins[key_pos] = gen_private_status(rng);
    }
    if rng.chance(1, 15) {
        // everything public: the compiler keeps the plain Sort node
        ins = vec![IOStatus::Public; cols.len()];
    }
    let outs = gen_outputs(rng);
    let mode = rng.below(3) as u8;
    let secure = ins.iter().any(|s| !matches!(s, IOStatus::Public));
    run.count(&format!("M:sort:key-status:{}", status_name(&ins[key_pos])));
    run.count(if secure { "M:sort:path:secure-radix" } else { "M:sort:path:public" });
    run.count(&format!("M:sort:keys:{}", kind));
    run.count(&format!("M:sort:b:{}", if b % 2 == 1 { "odd" } else { "even" }));
    run.count(&format!("M:sort:rounds:{}", (b + 1) / 2));
    run.count(&format!("M:mode:{}", mode));
    run.count(if outs.is_empty() { "M:out:shared" } else { "M:out:revealed" });
    let kb = bits_flat(&rows);
    let pis: Vec<String> = (0..b).map(|_| show_list(&random_perm(rng, n))).collect();
    let req = format!("radix 2 {} {} {} {} {}", n, b, kb, pis.join(";"), show_list(&random_perm(rng, n)));
    let descr = format!("key={} {}", "key", descr_cols(&cols));
    let prog = catch(|| -> Result<Prog> {
        let ctx = table_ctx(&cols, "key", false)?;
        let inputs = cols.iter().map(|c| c.value()).collect::<Result<Vec<_>>>()?;
        prog_of("sort", descr.clone(), ctx, inputs)
    });
    let prog = match prog {
        Ok(Ok(p)) => p,
        _ => {
            run.oracle_fail("C18:sort:error", format!("{} : cannot build the source graph", descr));
            return;
        }
    };
    let nontrivial = secure && n >= 2;
    match run_compiled(run, rng, &prog, &ins, &outs, mode, false) {
        Some(v) => match decode_table(&v, &cols) {
            Ok(o) => {
                run.case(req, show_list(&o[idx_pos]), nontrivial);
                check_sorted(run, "mpc-sort", &format!("{} {}", descr, config_name(&ins, &outs, mode)), &cols, &o, idx_pos, &|i, j| rows[i].cmp(&rows[j]));
            }
            Err(_) => run.case(req, "ERR".to_owned(), nontrivial),
        },
        None => run.case(req, "ERR".to_owned(), nontrivial),
    }
}

fn mpc_intsort_case(run: &mut Run, rng: &mut Rng, types: &[ScalarType], max_n: u64) {
    let st = *rng.pick(types);
    let n = 1 + rng.below(max_n) as usize;
    let (keys, _) = gen_int_keys(rng, st, n);
    let key = Col { name: "key".to_owned(), st, shape: vec![n as u64], data: keys.clone() };
    let others = vec![gen_payload(rng, n, "c0", 2), idx_col(n, "idx")];
    let (cols, key_pos) = arrange(rng, key, others);
    let idx_pos = cols.iter().position(|c| c.name == "idx").unwrap();
    let mut ins: Vec<IOStatus> = cols.iter().map(|_| gen_status(rng)).collect();
    if rng.chance(3, 4) && matches!(ins[key_pos], IOStatus::Public) {
        ins[key_pos] = gen_private_status(rng);
    }
    let outs = gen_outputs(rng);
    let mode = rng.below(3) as u8;
    let secure = ins.iter().any(|s| !matches!(s, IOStatus::Public));
    run.count(&format!("M:intsort:type:{}", st_name(st)));
    run.count(&format!("M:intsort:key-status:{}", status_name(&ins[key_pos])));
    let descr = format!("key=key {}", descr_cols(&cols));
    let prog = catch(|| -> Result<Prog> {
        let ctx = table_ctx(&cols, "key", true)?;
        let inputs = cols.iter().map(|c| c.value()).collect::<Result<Vec<_>>>()?;
        prog_of("intsort", descr.clone(), ctx, inputs)
    });
    let prog = match prog {
        Ok(Ok(p)) => p,
        _ => {
            run.oracle_fail("C18:intsort:error", format!("{} : cannot build the source graph", descr));
            return;
        }
    };
    let nontrivial = secure && n >= 2;
    let req = permint_req(st, &keys);
    match run_compiled(run, rng, &prog, &ins, &outs, mode, false) {
        Some(v) => match decode_table(&v, &cols) {
            Ok(o) => {
                run.case(req, show_list(&o[idx_pos]), nontrivial);
                check_sorted(run, "mpc-intsort", &format!("{} {}", descr, config_name(&ins, &outs, mode)), &cols, &o, idx_pos, &|i, j| zcmp(keys[i], keys[j]));
            }
            Err(_) => run.case(req, "ERR".to_owned(), nontrivial),
        },
        None => run.case(req, "ERR".to_owned(), nontrivial),
    }
}

fn mpc_apply_case(run: &mut Run, rng: &mut Rng, max_n: u64) {
    let n = 1 + rng.below(max_n) as usize;
    let a = gen_payload(rng, n, "a", 2);
    let inv = rng.chance(1, 2);
    // 0: public permutation input; 1: permutation = sorted index column of a (public) Sort inside the
    // graph; 2: InversePermutation of a public permutation input (the compiler may not support it)
    let src = match rng.below(8) {
        0..=3 => 0,
        4..=6 => 1,
        _ => 2,
    };
    let outs = gen_outputs(rng);
    let mode = rng.below(3) as u8;
    let xs = if rng.chance(5, 6) { gen_private_status(rng) } else { IOStatus::Public };
    run.count(&format!("M:apply:perm-source:{}", ["public-input", "sorted-index-column", "inverse-permutation-node"][src]));
    run.count(&format!("M:apply:{}", if inv { "inverse" } else { "direct" }));
    run.count(&format!("M:apply:array-status:{}", status_name(&xs)));
    let (p, prog, ins): (Vec<u64>, std::result::Result<Result<Prog>, String>, Vec<IOStatus>) = if src == 1 {
        let b = 1 + rng.below(4) as usize;
        let (rows, _) = gen_key_rows(rng, n, b);
        let mut reference: Vec<usize> = (0..n).collect();
        reference.sort_by_key(|&i| (rows[i].clone(), i));
        let p: Vec<u64> = reference.iter().map(|&i| i as u64).collect();
        let kc = key_col("k", &rows, b);
        let ic = idx_col(n, "i");
        let descr = format!("{} by sorted index column of {} ; {}", if inv { "apply_inverse" } else { "apply" }, kc.descr(), a.descr());
        let prog = catch(|| -> Result<Prog> {
            let ctx = simple_context(|g| {
                let x = g.input(a.ty())?;
                let k = g.input(kc.ty())?;
                let i = g.input(ic.ty())?;
                let perm = g.create_named_tuple(vec![("k".to_owned(), k), ("i".to_owned(), i)])?.sort("k".to_owned())?.named_tuple_get("i".to_owned())?;
                if inv {
                    x.apply_inverse_permutation(perm)
                } else {
                    x.apply_permutation(perm)
                }
            })?;
            prog_of("apply", descr.clone(), ctx, vec![a.value()?, kc.value()?, ic.value()?])
        });
        (p, prog, vec![xs, IOStatus::Public, IOStatus::Public])
    } else {
        let pst = *rng.pick(&PERM_ST);
        let p = random_perm(rng, n);
        let descr = format!("{}{} {}[{}]={} ; {}", if inv { "apply_inverse" } else { "apply" }, if src == 2 { " of InversePermutation" } else { "" }, st_name(pst), n, show_list(&p), a.descr());
        let prog = catch(|| -> Result<Prog> {
            let pt = array_type(vec![n as u64], pst);
            let ctx = if src == 2 {
                simple_context(|g| {
                    let x = g.input(a.ty())?;
                    let q = g.input(pt)?.inverse_permutation()?;
                    if inv {
                        x.apply_inverse_permutation(q)
                    } else {
                        x.apply_permutation(q)
                    }
                })?
            } else {
                apply_ctx(a.ty(), pt, if inv { PermProg::ApplyInverse } else { PermProg::Apply })?
            };
            prog_of("apply", descr.clone(), ctx, vec![a.value()?, perm_value(pst, &p)?])
        });
        (p, prog, vec![xs, IOStatus::Public])
    };
    let prog = match prog {
        Ok(Ok(p)) => p,
        _ => {
            run.oracle_fail("C18:perm:rejects-valid", format!("cannot build the source graph for permutation {} on {}", show_list(&p), a.descr()));
            return;
        }
    };
    // for source 2 the effective permutation is the inverse: swap the direction in the model request
    let eff_inv = if src == 2 { !inv } else { inv };
    let req = format!("applyperm {} {} {} {}", eff_inv as u8, n, show_list(&p), show_list(&a.data));
    if let Some(v) = run_compiled(run, rng, &prog, &ins, &outs, mode, src == 2) {
        match elems_of(&v, &a.shape, a.st) {
            Ok(out) => run.case(req, show_list(&out), n >= 2),
            Err(_) => run.case(req, "ERR".to_owned(), n >= 2),
        }
    }
}

/// Observation only (no verdict): a PUBLIC permutation operand that is not a permutation. The plaintext
/// evaluator must reject it (that part is checked); what the compiled graph does is only counted.
fn mpc_invalid_perm_probe(run: &mut Run, rng: &mut Rng) {
    let n = 2 + rng.below(6) as usize;
    let pst = *rng.pick(&PERM_ST);
    let (p, kind) = loop {
        let (p, kind) = gen_perm(rng, n, pst);
        if kind != "valid" && kind != "identity" {
            break (p, kind);
        }
    };
    let a = gen_payload(rng, n, "a", 2);
    let inv = rng.chance(1, 2);
    let xs = gen_status(rng);
    let outs = gen_outputs(rng);
    let descr = format!("{} with public non-permutation {}[{}]={} ({}) ; {} ; array status {}", if inv { "apply_inverse" } else { "apply" }, st_name(pst), n, show_list(&p), kind, a.descr(), status_name(&xs));
    run.oracle_case(&descr, true);
    let built = catch(|| -> Result<Prog> {
        let ctx = apply_ctx(a.ty(), array_type(vec![n as u64], pst), if inv { PermProg::ApplyInverse } else { PermProg::Apply })?;
        prog_of("apply-invalid", descr.clone(), ctx, vec![a.value()?, perm_value(pst, &p)?])
    });
    let prog = match built {
        Ok(Ok(p)) => p,
        _ => return,
    };
    match catch(|| plain_eval(&prog.ctx, prog.inputs.clone(), [7; 16])) {
        Ok(Ok(_)) => run.oracle_fail("C18:perm:accepts-invalid", format!("{} : plaintext evaluation of the prepared context succeeded", descr)),
        Ok(Err(_)) => run.count("M:invalid-public-perm:plaintext-rejects"),
        Err(pn) => run.oracle_fail("C18:panic:apply-permutation", format!("{} : {}", descr, pn)),
    }
    let ins = vec![xs, IOStatus::Public];
    let cc = match catch(|| compile(&prog.ctx, &ins, &outs, 0)) {
        Ok(Ok(c)) => c,
        _ => {
            run.count("M:invalid-public-perm:compile-rejects");
            return;
        }
    };
    let seed = rng.seed16();
    let share_seed = rng.seed16();
    let r = catch(|| -> Result<Value> {
        let mut prng = PRNG::new(Some(share_seed))?;
        let gin = global_inputs(&ins, &prog.in_types, &prog.inputs, &mut prng)?;
        let vals = global_run(&cc, gin, seed)?;
        let oid = cc.get_main_graph()?.get_output_node()?.get_id() as usize;
        reveal_if_shared(vals[oid].clone(), &prog.out_type, &outs)
    });
    let dir = if inv { "inverse" } else { "direct" };
    match r {
        Ok(Ok(_)) => run.count(&format!("M:invalid-public-perm:{}:{}:compiled-run-ACCEPTS", dir, kind)),
        Ok(Err(_)) => run.count(&format!("M:invalid-public-perm:{}:{}:compiled-run-rejects", dir, kind)),
        Err(_) => run.count(&format!("M:invalid-public-perm:{}:{}:compiled-run-panics", dir, kind)),
    }
}

fn stream_mpc(run: &mut Run) {
    let mut rng = run.rng("M");
    let thorough = run.tier != Tier::Quick;
    let (max_n, max_b) = if thorough { (10, 9) } else { (8, 7) };
    let n_sort = run.tier.scale(150, 1200);
    for it in 0..n_sort {
        mpc_sort_case(run, &mut rng, it, max_n, max_b);
    }
    let small: Vec<ScalarType> = vec![BIT, UINT8, INT8, UINT16, INT16, INT32];
    let wide: Vec<ScalarType> = ALL_ST.to_vec();
    let n_int = run.tier.scale(24, 200);
    for _ in 0..n_int {
        mpc_intsort_case(run, &mut rng, if thorough { &wide } else { &small }, if thorough { 6 } else { 5 });
    }
    let n_apply = run.tier.scale(60, 500);
    for _ in 0..n_apply {
        mpc_apply_case(run, &mut rng, max_n);
    }
    let n_probe = run.tier.scale(12, 60);
    for _ in 0..n_probe {
        mpc_invalid_perm_probe(run, &mut rng);
    }
}

// --------------------------------------------------------------------------------------------
// E — malformed constructions must be rejected when the graph is built
// --------------------------------------------------------------------------------------------

fn stream_malformed(run: &mut Run) {
    let mut rng = run.rng("E");
    let rounds = run.tier.scale(10, 60);
    for _ in 0..rounds {
        let n = 1 + rng.below(12);
        let m = n + 1 + rng.below(3);
        let b = 1 + rng.below(8);
        let st = *rng.pick(&ALL_ST);
        let non_bit = *rng.pick(&ALL_ST[1..]);
        let bad_pst = *rng.pick(&[BIT, INT8, INT16, INT32, INT64, UINT128, INT128]);
        let pst = *rng.pick(&PERM_ST);
        let s = |x: &str| x.to_owned();
        let a1 = |dims: Vec<u64>, st: ScalarType| array_type(dims, st);
        // well-formed siblings first: the builders themselves work
        let good: Vec<(&str, Box<dyn Fn() -> Result<Context>>)> = vec![
            ("sort", Box::new(|| sort_ctx(&[(s("k"), a1(vec![n, b], BIT)), (s("v"), a1(vec![n, 2], st))], "k", false))),
            ("apply", Box::new(|| apply_ctx(a1(vec![n, 2], st), a1(vec![n], pst), PermProg::Apply))),
            ("apply-inverse", Box::new(|| apply_ctx(a1(vec![n], st), a1(vec![n], pst), PermProg::ApplyInverse))),
            ("inverse", Box::new(|| invperm_ctx(a1(vec![n], pst), false))),
        ];
        for (name, f) in good.iter() {
            run.oracle_case(&format!("well-formed {} n={} b={} {} {}", name, n, b, st_name(st), st_name(pst)), true);
            match catch(|| f()) {
                Ok(Ok(_)) => run.count("E:wellformed-accepted"),
                Ok(Err(e)) => run.oracle_fail("C18:rejects:wellformed", format!("{} n={} b={} {} {} : {}", name, n, b, st_name(st), st_name(pst), trunc(&format!("{}", e), 200))),
                Err(pn) => run.oracle_fail("C18:panic:build", format!("{} : {}", name, pn)),
            }
        }
        let bad: Vec<(&str, Box<dyn Fn() -> Result<Context>>)> = vec![
            ("sort:key-not-bit", Box::new(|| sort_ctx(&[(s("k"), a1(vec![n, b], non_bit)), (s("v"), a1(vec![n], st))], "k", false))),
            ("sort:key-1d", Box::new(|| sort_ctx(&[(s("k"), a1(vec![n], BIT)), (s("v"), a1(vec![n], st))], "k", false))),
            ("sort:key-3d", Box::new(|| sort_ctx(&[(s("k"), a1(vec![n, b, 2], BIT)), (s("v"), a1(vec![n], st))], "k", false))),
            ("sort:first-dims-differ", Box::new(|| sort_ctx(&[(s("k"), a1(vec![n, b], BIT)), (s("v"), a1(vec![m], st))], "k", false))),
            ("sort:first-dims-differ-key-last", Box::new(|| sort_ctx(&[(s("v"), a1(vec![m, 2], st)), (s("k"), a1(vec![n, b], BIT))], "k", false))),
            ("sort:missing-key", Box::new(|| sort_ctx(&[(s("k"), a1(vec![n, b], BIT)), (s("v"), a1(vec![n], st))], "key", false))),
            ("sort:scalar-column", Box::new(|| sort_ctx(&[(s("k"), a1(vec![n, b], BIT)), (s("v"), scalar_type(st))], "k", false))),
            ("sort:plain-tuple", Box::new(|| {
                simple_context(|g| {
                    let k = g.input(a1(vec![n, b], BIT))?;
                    let v = g.input(a1(vec![n], st))?;
                    g.create_tuple(vec![k, v])?.sort(s("k"))
                })
            })),
            ("sort:array-argument", Box::new(|| simple_context(|g| g.input(a1(vec![n, b], BIT))?.sort(s("k"))))),
            ("apply:perm-type", Box::new(|| apply_ctx(a1(vec![n], st), a1(vec![n], bad_pst), PermProg::Apply))),
            ("apply-inverse:perm-type", Box::new(|| apply_ctx(a1(vec![n, 2], st), a1(vec![n], bad_pst), PermProg::ApplyInverse))),
            ("apply:perm-longer", Box::new(|| apply_ctx(a1(vec![n], st), a1(vec![m], pst), PermProg::Apply))),
            ("apply:perm-shorter", Box::new(|| apply_ctx(a1(vec![m], st), a1(vec![n], pst), PermProg::ApplyInverse))),
            ("apply:perm-2d", Box::new(|| apply_ctx(a1(vec![n], st), a1(vec![n, 1], pst), PermProg::Apply))),
            ("apply:perm-scalar", Box::new(|| apply_ctx(a1(vec![n], st), scalar_type(pst), PermProg::Apply))),
            ("apply:scalar-array", Box::new(|| apply_ctx(scalar_type(st), a1(vec![1], pst), PermProg::Apply))),
            ("inverse:type", Box::new(|| invperm_ctx(a1(vec![n], bad_pst), false))),
            ("inverse:2d", Box::new(|| invperm_ctx(a1(vec![n, 2], pst), false))),
            ("inverse:scalar", Box::new(|| invperm_ctx(scalar_type(pst), false))),
        ];
        for (name, f) in bad.iter() {
            let descr = format!("malformed {} n={} m={} b={} {} {} {} {}", name, n, m, b, st_name(st), st_name(non_bit), st_name(bad_pst), st_name(pst));
            run.oracle_case(&descr, true);
            match catch(|| f()) {
                Ok(Err(_)) => run.count(&format!("E:rejected:{}", name)),
                Ok(Ok(_)) => run.oracle_fail("C18:accepts:malformed", descr),
                Err(pn) => run.oracle_fail("C18:panic:build", format!("{} : {}", descr, pn)),
            }
        }
    }
}

pub fn corr(run: &mut Run) {
    run.rule = "S: named tuples of n=1..12 rows with a [n,b] BIT key (b=1..10; keys from pools of 1..4 bit strings, all-equal, sorted, \
                reverse, single-bit neighbours, random), 1..3 payload columns of any scalar type and rank 1..3, an index column, key at a \
                random position; plaintext Sort; model cases perm + sortcol per column; oracle = native stable sort of the indices by (key \
                row, index): permutation, order, stability, every column. I: SortByIntegerKey for every scalar type incl. BIT/i8/u128/i128 \
                with boundary-biased duplicate-heavy keys (permint; oracle compares mathematical integers). P: ApplyPermutation(false/true) \
                and InversePermutation with valid permutations and broken ones (duplicate, out-of-range, both) of every unsigned index type \
                (applyperm/invperm/isperm; oracle: definitions, round trips, apply(x,p^-1)=apply_inverse(x,p), double inverse, rejection). \
                M: Sort / SortByIntegerKey / ApplyPermutation graphs compiled with random input statuses (key mostly private), output \
                subsets and inlining modes, run under one evaluator and under the three-party executor, compared exactly with the \
                plaintext result; model case radix (secure radix sort with random shuffles) from the compiled result. E: malformed \
                constructions must be rejected. Non-trivial: n >= 2 rows (M: additionally at least one private input)."
        .to_owned();
    stream_sort(run);
    stream_intsort(run);
    stream_perm(run);
    stream_malformed(run);
    stream_mpc(run);
}
