//! C11 — the graph-building API keeps contexts well-formed; failed calls have no effect.
//!
//! Random call histories are replayed on the real `Context`/`Graph`/`Node` API (one or two
//! contexts).  After EVERY call the harness takes a canonical snapshot of everything the public
//! getters and the serializer expose; the model (`CCV.Context.step`) replays the same history and
//! must give the same Ok/Err (+ getter payload) and the same snapshot digest after every call.
//! Oracle, independent of the model: a call that returned `Err` leaves snapshot and serialized
//! context unchanged, and the well-formedness invariants hold on the real object after every call.
//!
//! The type-inference verdict that the model takes as an input is computed independently of the
//! replayed call: node-only operations are type-checked in a scratch context on `Zeros` stand-ins
//! of the dependency types; Call/Iterate by the rule of type_inference.rs:1349-1440 through getters.
use crate::util::*;
use ciphercore_base::data_types::*;
use ciphercore_base::data_values::Value;
use ciphercore_base::graphs::*;

const NAME_POOL: u64 = 6;
const MAX_TOTAL: u128 = u64::MAX as u128 - 1;

// ------------------------------------------------------------------ encodings

fn op_code(op: &Operation) -> u64 {
    match op {
        Operation::Input(_) => 1,
        Operation::Add => 2,
        Operation::Subtract => 3,
        Operation::Multiply => 4,
        Operation::NOP => 5,
        Operation::CreateTuple => 6,
        Operation::TupleGet(_) => 7,
        Operation::Call => 8,
        Operation::Iterate => 9,
        Operation::Constant(_, _) => 10,
        Operation::Zeros(_) => 11,
        Operation::Ones(_) => 12,
        Operation::Random(_) => 13,
        Operation::A2B => 14,
        Operation::ArrayToVector => 15,
        Operation::VectorToArray => 16,
        Operation::Repeat(_) => 17,
        Operation::CreateVector(_) => 18,
        _ => 99,
    }
}

fn nann_code(a: &NodeAnnotation) -> u64 {
    match a {
        NodeAnnotation::AssociativeOperation => 0,
        NodeAnnotation::Private => 1,
        NodeAnnotation::PRFMultiplication => 2,
        NodeAnnotation::PRFB2A => 3,
        NodeAnnotation::PRFTruncate => 4,
        NodeAnnotation::MpcCall => 5,
        NodeAnnotation::Send(a, b) => 100 + 10 * a + b,
    }
}

fn nann_of(code: u64) -> NodeAnnotation {
    match code {
        0 => NodeAnnotation::AssociativeOperation,
        1 => NodeAnnotation::Private,
        2 => NodeAnnotation::PRFMultiplication,
        3 => NodeAnnotation::PRFB2A,
        4 => NodeAnnotation::PRFTruncate,
        5 => NodeAnnotation::MpcCall,
        c => NodeAnnotation::Send((c - 100) / 10, (c - 100) % 10),
    }
}

fn gann_code(a: &GraphAnnotation) -> u64 {
    match a {
        GraphAnnotation::AssociativeOperation => 0,
        GraphAnnotation::OneBitState => 1,
        GraphAnnotation::SmallState => 2,
    }
}

fn gann_of(code: u64) -> GraphAnnotation {
    match code {
        0 => GraphAnnotation::AssociativeOperation,
        1 => GraphAnnotation::OneBitState,
        _ => GraphAnnotation::SmallState,
    }
}

fn name_of(k: u64) -> String {
    format!("n{}", k)
}

fn name_code(s: &str) -> String {
    match s.strip_prefix('n').and_then(|r| r.parse::<u64>().ok()) {
        Some(k) => k.to_string(),
        None => format!("?{}", s),
    }
}

fn opt<T: std::fmt::Display>(o: Option<T>) -> String {
    match o {
        Some(v) => v.to_string(),
        None => "-".to_owned(),
    }
}

fn fnv(s: &str) -> u64 {
    let mut h: u64 = 0xcbf29ce484222325;
    for b in s.bytes() {
        h ^= b as u64;
        h = h.wrapping_mul(0x100000001b3);
    }
    h
}

// ------------------------------------------------------------------ size estimate (own arithmetic)

/// `get_size_estimation_in_bits` (data_types.rs:1246) recomputed in u128; None = the u64 computation fails
fn est(t: &Type) -> Option<u128> {
    if !t.is_valid() {
        return None;
    }
    let lim = u64::MAX as u128;
    let chk = |x: u128| if x > lim { None } else { Some(x) };
    let r = match t {
        Type::Scalar(st) => st.size_in_bits() as u128,
        Type::Array(s, st) => {
            let mut pr: u128 = 1;
            for x in s {
                pr = chk(pr * (*x as u128))?;
            }
            let p1 = chk(pr + 1)?;
            chk(st.size_in_bits() as u128 * p1)?
        }
        Type::Vector(len, e) => {
            let et = est(e)?;
            let l1 = chk(*len as u128 + 1)?;
            chk(l1 * et)?
        }
        Type::Tuple(ts) => {
            let mut tot: u128 = 0;
            for e in ts {
                tot = chk(tot + est(e)?)?;
            }
            tot
        }
        Type::NamedTuple(ts) => {
            let mut tot: u128 = 0;
            for (_, e) in ts {
                tot = chk(tot + est(e)?)?;
            }
            tot
        }
    };
    chk(r + 1)
}

// ------------------------------------------------------------------ one real context + its history

struct Cx {
    c: Context,
    graphs: Vec<Graph>,
    nodes: Vec<Vec<Node>>,
    calls: Vec<String>,
    answers: Vec<String>,
    snap: String,
    ser: Option<String>,
    cut: bool,
    had_err: bool,
    ok_after_err: bool,
}

/// parsed serialized context (only what the getters do not expose)
struct Ser {
    text: String,
    finalized: bool,
    graph_finalized: Vec<bool>,
    graph_nodes: Vec<Vec<(Vec<u64>, Vec<u64>)>>,
    graph_output: Vec<Option<u64>>,
    main: Option<u64>,
    counts: [usize; 4], // graphs_names, nodes_names, graphs_annotations, nodes_annotations
}

fn serialize(c: &Context) -> std::result::Result<Ser, String> {
    let text = catch(|| serde_json::to_string(c))?.map_err(|e| e.to_string())?;
    let outer: serde_json::Value = serde_json::from_str(&text).map_err(|e| e.to_string())?;
    let data = outer.get("data").and_then(|d| d.as_str()).ok_or("no data field")?;
    let v: serde_json::Value = serde_json::from_str(data).map_err(|e| e.to_string())?;
    let u = |x: &serde_json::Value| x.as_u64();
    let mut s = Ser {
        text,
        finalized: v["finalized"].as_bool().ok_or("finalized")?,
        graph_finalized: vec![],
        graph_nodes: vec![],
        graph_output: vec![],
        main: u(&v["main_graph"]),
        counts: [0; 4],
    };
    for g in v["graphs"].as_array().ok_or("graphs")? {
        s.graph_finalized.push(g["finalized"].as_bool().ok_or("g.finalized")?);
        s.graph_output.push(u(&g["output_node"]));
        let mut ns = vec![];
        for n in g["nodes"].as_array().ok_or("nodes")? {
            let l = |k: &str| -> Vec<u64> { n[k].as_array().map(|a| a.iter().filter_map(u).collect()).unwrap_or_default() };
            ns.push((l("node_dependencies"), l("graph_dependencies")));
        }
        s.graph_nodes.push(ns);
    }
    for (i, k) in ["graphs_names", "nodes_names", "graphs_annotations", "nodes_annotations"].iter().enumerate() {
        s.counts[i] = v[*k].as_array().map(|a| a.len()).ok_or("table")?;
    }
    Ok(s)
}

/// canonical snapshot: same text as `CCV.Drv.C11.render (observe s)`
fn snapshot(c: &Context, ser: &Ser) -> std::result::Result<String, String> {
    catch(|| {
        let mut out = format!("F{};M{}", ser.finalized as u8, opt(c.get_main_graph().ok().map(|g| g.get_id())));
        for (gi, g) in c.get_graphs().iter().enumerate() {
            let gname = c.get_graph_name(g.clone()).ok().map(|s| name_code(&s));
            let gann: Vec<u64> = g.get_annotations().map(|v| v.iter().map(gann_code).collect()).unwrap_or_default();
            out += &format!(
                "|G{}:f{}:o{}:N{}:A{}:[",
                g.get_id(),
                ser.graph_finalized.get(gi).copied().unwrap_or(false) as u8,
                opt(g.get_output_node().ok().map(|n| n.get_id())),
                opt(gname),
                show_list(&gann)
            );
            for n in g.get_nodes() {
                let deps: Vec<String> =
                    n.get_node_dependencies().iter().map(|d| format!("{}.{}", d.get_graph().get_id(), d.get_id())).collect();
                let gdeps: Vec<u64> = n.get_graph_dependencies().iter().map(|d| d.get_id()).collect();
                let name = n.get_name().ok().flatten().map(|s| name_code(&s));
                let ann: Vec<u64> = n.get_annotations().map(|v| v.iter().map(nann_code).collect()).unwrap_or_default();
                out += &format!(
                    "{}#{}({})({})n{}a{};",
                    n.get_id(),
                    op_code(&n.get_operation()),
                    show_list(&deps),
                    show_list(&gdeps),
                    opt(name),
                    show_list(&ann)
                );
            }
            out += "]R";
            for k in 0..NAME_POOL {
                out += &opt(c.retrieve_node(g.clone(), &name_of(k)).ok().map(|n| n.get_id()));
                out += ",";
            }
        }
        out += "|R";
        for k in 0..NAME_POOL {
            out += &opt(c.retrieve_graph(&name_of(k)).ok().map(|g| g.get_id()));
            out += ",";
        }
        out += &format!("|gn={},nn={},ga={},na={}", ser.counts[0], ser.counts[1], ser.counts[2], ser.counts[3]);
        out
    })
}

/// well-formedness of the real context, through public getters + the serialized form
fn invariants(c: &Context, ser: &Ser) -> Vec<(&'static str, String)> {
    let mut bad: Vec<(&'static str, String)> = vec![];
    let graphs = c.get_graphs();
    if graphs.len() as u64 != c.get_num_graphs() || graphs.len() != ser.graph_finalized.len() {
        bad.push(("graph-count", format!("{} vs {}", graphs.len(), ser.graph_finalized.len())));
        return bad;
    }
    let mut named_nodes = 0usize;
    let mut annotated_nodes = 0usize;
    let mut named_graphs = 0usize;
    let mut annotated_graphs = 0usize;
    let mut gnames_seen = std::collections::BTreeSet::new();
    for (gi, g) in graphs.iter().enumerate() {
        if g.get_id() != gi as u64 || g.get_context() != *c {
            bad.push(("graph-id", format!("graph at {} has id {}", gi, g.get_id())));
        }
        match c.get_graph_by_id(gi as u64) {
            Ok(h) if h == *g => {}
            _ => bad.push(("graph-by-id", format!("{}", gi))),
        }
        let nodes = g.get_nodes();
        if nodes.len() as u64 != g.get_num_nodes() || nodes.len() != ser.graph_nodes[gi].len() {
            bad.push(("node-count", format!("graph {}", gi)));
            continue;
        }
        let mut names_seen = std::collections::BTreeSet::new();
        for (ni, n) in nodes.iter().enumerate() {
            if n.get_id() != ni as u64 || n.get_graph() != *g {
                bad.push(("node-id", format!("graph {} node at {} has id {}", gi, ni, n.get_id())));
            }
            let mut dep_ids = vec![];
            for d in n.get_node_dependencies() {
                dep_ids.push(d.get_id());
                if d.get_graph() != *g || d.get_id() >= ni as u64 || nodes[d.get_id() as usize] != d {
                    bad.push(("dependency", format!("graph {} node {} dep {:?}", gi, ni, d.get_global_id())));
                }
            }
            let mut gdep_ids = vec![];
            for d in n.get_graph_dependencies() {
                gdep_ids.push(d.get_id());
                let fin = d.get_context() == *c && ser.graph_finalized.get(d.get_id() as usize).copied().unwrap_or(false);
                if d.get_context() != *c || d.get_id() >= gi as u64 || !fin || graphs[d.get_id() as usize] != d {
                    bad.push(("graph-dependency", format!("graph {} node {} gdep {}", gi, ni, d.get_id())));
                }
            }
            if ser.graph_nodes[gi][ni] != (dep_ids, gdep_ids) {
                bad.push(("serialized-deps", format!("graph {} node {}", gi, ni)));
            }
            match catch(|| n.get_type()) {
                Ok(Ok(t)) if t.is_valid() => {}
                _ => bad.push(("node-type", format!("graph {} node {} has no valid type", gi, ni))),
            }
            match n.get_name() {
                Ok(Some(nm)) => {
                    named_nodes += 1;
                    if !names_seen.insert(nm.clone()) {
                        bad.push(("node-name-unique", format!("graph {} name {}", gi, nm)));
                    }
                    match c.retrieve_node(g.clone(), &nm) {
                        Ok(m) if m == *n => {}
                        _ => bad.push(("node-name-resolve", format!("graph {} node {} name {}", gi, ni, nm))),
                    }
                }
                Ok(None) => {}
                Err(_) => bad.push(("node-name-get", format!("graph {} node {}", gi, ni))),
            }
            if !n.get_annotations().map(|v| v.is_empty()).unwrap_or(true) {
                annotated_nodes += 1;
            }
        }
        for k in 0..NAME_POOL {
            if let Ok(m) = c.retrieve_node(g.clone(), &name_of(k)) {
                let back = m.get_name().ok().flatten();
                if m.get_graph() != *g || back.as_deref() != Some(name_of(k).as_str()) {
                    bad.push(("node-name-inverse", format!("graph {} name n{} -> node {:?}", gi, k, m.get_global_id())));
                }
            }
        }
        let out = g.get_output_node().ok();
        if let Some(o) = &out {
            if o.get_graph() != *g || (o.get_id() as usize) >= nodes.len() || nodes[o.get_id() as usize] != *o {
                bad.push(("output", format!("graph {}", gi)));
            }
        }
        if out.as_ref().map(|o| o.get_id()) != ser.graph_output[gi] {
            bad.push(("serialized-output", format!("graph {}", gi)));
        }
        if ser.graph_finalized[gi] && out.is_none() {
            bad.push(("finalized-without-output", format!("graph {}", gi)));
        }
        if let Ok(nm) = c.get_graph_name(g.clone()) {
            named_graphs += 1;
            if !gnames_seen.insert(nm.clone()) {
                bad.push(("graph-name-unique", nm.clone()));
            }
            match c.retrieve_graph(&nm) {
                Ok(h) if h == *g => {}
                _ => bad.push(("graph-name-resolve", format!("graph {} name {}", gi, nm))),
            }
        }
        if !g.get_annotations().map(|v| v.is_empty()).unwrap_or(true) {
            annotated_graphs += 1;
        }
    }
    for k in 0..NAME_POOL {
        if let Ok(h) = c.retrieve_graph(&name_of(k)) {
            if h.get_context() != *c || c.get_graph_name(h.clone()).ok().as_deref() != Some(name_of(k).as_str()) {
                bad.push(("graph-name-inverse", format!("name n{}", k)));
            }
        }
    }
    // no stale table entries: the serialized tables have exactly the entries the getters show
    if ser.counts != [named_graphs, named_nodes, annotated_graphs, annotated_nodes] {
        bad.push((
            "stale-table-entry",
            format!("serialized {:?} vs live {:?}", ser.counts, [named_graphs, named_nodes, annotated_graphs, annotated_nodes]),
        ));
    }
    let main = c.get_main_graph().ok();
    if main.as_ref().map(|g| g.get_id()) != ser.main {
        bad.push(("serialized-main", String::new()));
    }
    if let Some(m) = &main {
        let ok = m.get_context() == *c && ser.graph_finalized.get(m.get_id() as usize).copied().unwrap_or(false);
        if !ok {
            bad.push(("main-graph", format!("main {}", m.get_id())));
        }
    }
    if ser.finalized != c.check_finalized().is_ok() {
        bad.push(("finalized-flag", String::new()));
    }
    if ser.finalized && (main.is_none() || ser.graph_finalized.iter().any(|f| !f)) {
        bad.push(("finalized-context-open-graph", String::new()));
    }
    bad
}

// ------------------------------------------------------------------ generators

fn small_types() -> Vec<Type> {
    vec![
        scalar_type(BIT),
        scalar_type(INT32),
        scalar_type(UINT64),
        array_type(vec![2], INT32),
        array_type(vec![2, 3], INT32),
        array_type(vec![3], INT32),
        array_type(vec![3], UINT8),
        array_type(vec![2], BIT),
        tuple_type(vec![scalar_type(INT32), array_type(vec![2], INT32)]),
        tuple_type(vec![scalar_type(INT32), scalar_type(INT32)]),
        vector_type(2, scalar_type(INT32)),
        vector_type(3, array_type(vec![2], INT32)),
    ]
}

fn invalid_types() -> Vec<Type> {
    vec![
        array_type(vec![0], UINT8),
        array_type(vec![], INT32),
        array_type(vec![2, 0, 2], INT16),
        tuple_type(vec![scalar_type(BIT), array_type(vec![0], BIT)]),
        vector_type(2, array_type(vec![], UINT64)),
        named_tuple_type(vec![("a".to_owned(), scalar_type(BIT)), ("a".to_owned(), scalar_type(BIT))]),
        array_type(vec![1 << 40, 1 << 40], BIT),
    ]
}

/// valid types whose size estimate is near or beyond the u64 limits
fn huge_types() -> Vec<Type> {
    vec![
        array_type(vec![1 << 55], UINT64),        // 2^61: eight of them exceed MAX_TOTAL_SIZE_NODES
        array_type(vec![1 << 56], UINT64),        // 2^62
        array_type(vec![1 << 62], UINT64),        // valid shape, estimate overflows u64
        array_type(vec![1 << 58], UINT64),        // estimate = 2^64 + 64: overflows
        array_type(vec![(1 << 58) - 2], UINT64),  // just below the limit
    ]
}

fn gen_type(rng: &mut Rng) -> Type {
    match rng.below(20) {
        0 | 1 => rng.pick(&invalid_types()).clone(),
        2 | 3 | 4 => rng.pick(&huge_types()).clone(),
        _ => rng.pick(&small_types()).clone(),
    }
}

fn gen_op(rng: &mut Rng) -> Operation {
    match rng.below(40) {
        0..=8 => Operation::Input(gen_type(rng)),
        9..=13 => Operation::Add,
        14 | 15 => Operation::Subtract,
        16 | 17 => Operation::Multiply,
        18..=21 => Operation::NOP,
        22..=24 => Operation::CreateTuple,
        25 | 26 => Operation::TupleGet(rng.below(3)),
        27..=30 => Operation::Call,
        31 | 32 => Operation::Iterate,
        33 => {
            let t = rng.pick(&small_types()).clone();
            let v = if rng.chance(3, 4) { Value::zero_of_type(t.clone()) } else { Value::from_bytes(vec![0; 1]) };
            Operation::Constant(t, v)
        }
        34 => Operation::Zeros(gen_type(rng)),
        35 => Operation::Random(gen_type(rng)),
        36 => Operation::A2B,
        37 => Operation::ArrayToVector,
        38 => Operation::Repeat(rng.below(4)),
        _ => Operation::VectorToArray,
    }
}

fn arity(op: &Operation, rng: &mut Rng) -> usize {
    let right = match op {
        Operation::Input(_) | Operation::Constant(_, _) | Operation::Zeros(_) | Operation::Ones(_) | Operation::Random(_) => 0,
        Operation::Add | Operation::Subtract | Operation::Multiply | Operation::Iterate => 2,
        Operation::CreateTuple => rng.below(5) as usize,
        Operation::Call => rng.below(3) as usize,
        _ => 1,
    };
    if rng.chance(1, 12) {
        rng.below(4) as usize
    } else {
        right
    }
}

/// the type verdict of `add_node` (inference + individual size), computed away from the replayed context
fn verdict(op: &Operation, deps: &[Node], gdeps: &[Graph]) -> std::result::Result<bool, String> {
    catch(|| {
        let mut dep_types = vec![];
        for d in deps {
            match d.get_type() {
                Ok(t) => dep_types.push(t),
                Err(_) => return false,
            }
        }
        match op {
            Operation::Call | Operation::Iterate => {
                if gdeps.len() != 1 {
                    return false;
                }
                let callee = &gdeps[0];
                let mut ins = vec![];
                for n in callee.get_nodes() {
                    if let Operation::Input(t) = n.get_operation() {
                        ins.push(t);
                    }
                }
                let out_t = match callee.get_output_node().and_then(|n| n.get_type()) {
                    Ok(t) => t,
                    Err(_) => return false,
                };
                if let Operation::Call = op {
                    ins == dep_types && est(&out_t).map(|e| e <= MAX_TOTAL).unwrap_or(false)
                } else {
                    if deps.len() != 2 || ins.len() != 2 {
                        return false;
                    }
                    let (state_t, in_t) = (ins[0].clone(), ins[1].clone());
                    let out_seq = match &out_t {
                        Type::Tuple(es) if es.len() == 2 && *es[0] == state_t => (*es[1]).clone(),
                        _ => return false,
                    };
                    if dep_types[0] != state_t {
                        return false;
                    }
                    match &dep_types[1] {
                        Type::Vector(len, e) if **e == in_t => {
                            let res = tuple_type(vec![state_t, vector_type(*len, out_seq)]);
                            res.is_valid() && est(&res).map(|e| e <= MAX_TOTAL).unwrap_or(false)
                        }
                        _ => false,
                    }
                }
            }
            _ => {
                if !gdeps.is_empty() {
                    return false;
                }
                let sc = create_context().unwrap();
                let sg = sc.create_graph().unwrap();
                let mut stand = vec![];
                for t in dep_types {
                    match sg.zeros(t) {
                        Ok(n) => stand.push(n),
                        Err(_) => return false,
                    }
                }
                sg.add_node(stand, vec![], op.clone()).is_ok()
            }
        }
    })
}

/// the type a node-only operation must get, inferred in a scratch context on `Zeros` stand-ins
fn independent_type(op: &Operation, deps: &[Node]) -> Option<Type> {
    catch(|| {
        let sc = create_context().ok()?;
        let sg = sc.create_graph().ok()?;
        let mut stand = vec![];
        for d in deps {
            stand.push(sg.zeros(d.get_type().ok()?).ok()?);
        }
        sg.add_node(stand, vec![], op.clone()).ok()?.get_type().ok()
    })
    .ok()
    .flatten()
}

/// `try_update_total_size`'s addend: Some for Input/Constant (2^64 when the code fails before adding)
fn total_addend(op: &Operation) -> Option<u128> {
    match op {
        Operation::Input(t) | Operation::Constant(t, _) => Some(est(t).unwrap_or(1u128 << 64)),
        _ => None,
    }
}

struct World {
    cxs: Vec<Cx>,
    /// remark on the last call, copied into the detail of an oracle failure
    note: String,
}

fn nref(world: &World, me: usize, n: &Node) -> String {
    let g = n.get_graph();
    let tag = if g.get_context() == world.cxs[me].c { 0 } else { 1 };
    format!("{}.{}.{}", tag, g.get_id(), n.get_id())
}

fn gref(world: &World, me: usize, g: &Graph) -> String {
    let tag = if g.get_context() == world.cxs[me].c { 0 } else { 1 };
    format!("{}.{}", tag, g.get_id())
}

/// pick a node handle: mostly of graph `g` of context `me`, sometimes elsewhere
fn pick_node(world: &World, rng: &mut Rng, me: usize, g: usize, stray: u64) -> Option<Node> {
    let mut cx = me;
    let mut gi = g;
    if rng.chance(stray, 100) {
        if world.cxs.len() > 1 && rng.chance(1, 3) {
            cx = 1 - me;
        }
        let ng = world.cxs[cx].graphs.len();
        if ng == 0 {
            return None;
        }
        gi = rng.below(ng as u64) as usize;
    }
    let ns = world.cxs[cx].nodes.get(gi)?;
    if ns.is_empty() {
        return None;
    }
    // recent nodes more often
    let k = if rng.chance(1, 2) { ns.len() - 1 - rng.below(ns.len().min(3) as u64) as usize } else { rng.below(ns.len() as u64) as usize };
    Some(ns[k].clone())
}

fn pick_graph(world: &World, rng: &mut Rng, me: usize, stray: u64) -> Option<Graph> {
    let mut cx = me;
    if world.cxs.len() > 1 && rng.chance(stray, 100) {
        cx = 1 - me;
    }
    let gs = &world.cxs[cx].graphs;
    if gs.is_empty() {
        return None;
    }
    let k = if rng.chance(1, 2) { gs.len() - 1 } else { rng.below(gs.len() as u64) as usize };
    Some(gs[k].clone())
}

/// node of graph `g` with a wanted type, if any
fn node_of_type(cx: &Cx, g: usize, t: &Type, rng: &mut Rng) -> Option<Node> {
    let c: Vec<&Node> = cx.nodes[g].iter().filter(|n| n.get_type().map(|x| x == *t).unwrap_or(false)).collect();
    if c.is_empty() {
        None
    } else {
        Some((*rng.pick(&c)).clone())
    }
}

/// an operation that fits the type of an existing node of graph `gi` (mostly well-typed)
fn smart_op(world: &World, rng: &mut Rng, me: usize, gi: usize) -> Option<(Operation, Vec<Node>)> {
    let n0 = pick_node(world, rng, me, gi, 0)?;
    let t0 = n0.get_type().ok()?;
    let cx = &world.cxs[me];
    Some(match &t0 {
        Type::Scalar(_) | Type::Array(_, _) => match rng.below(8) {
            0..=3 => {
                let other = node_of_type(cx, gi, &t0, rng).unwrap_or(n0.clone());
                let op = match rng.below(3) {
                    0 => Operation::Add,
                    1 => Operation::Subtract,
                    _ => Operation::Multiply,
                };
                (op, vec![n0, other])
            }
            4 => (Operation::NOP, vec![n0]),
            5 => (Operation::Repeat(1 + rng.below(3)), vec![n0]),
            6 => (Operation::CreateTuple, vec![n0.clone(), n0]),
            _ => (if t0.is_array() { Operation::ArrayToVector } else { Operation::A2B }, vec![n0]),
        },
        Type::Tuple(es) => {
            if es.is_empty() || rng.chance(1, 4) {
                (Operation::NOP, vec![n0])
            } else {
                (Operation::TupleGet(rng.below(es.len() as u64)), vec![n0])
            }
        }
        Type::Vector(_, _) => {
            if rng.chance(1, 2) {
                (Operation::VectorToArray, vec![n0])
            } else {
                (Operation::NOP, vec![n0])
            }
        }
        _ => (Operation::NOP, vec![n0]),
    })
}

/// the next call on the way to a finalized context (None when it is finalized already)
fn closing_call(world: &mut World, me: usize) -> std::result::Result<Option<Step>, String> {
    let c = world.cxs[me].c.clone();
    let ser = serialize(&c)?;
    if ser.finalized {
        return Ok(None);
    }
    let unit = |r: ciphercore_base::errors::Result<()>| match r {
        Ok(_) => Outcome::Ok(String::new()),
        Err(_) => Outcome::Err,
    };
    if let Some(gi) = ser.graph_finalized.iter().position(|f| !f) {
        let g = world.cxs[me].graphs[gi].clone();
        if world.cxs[me].nodes[gi].is_empty() {
            let t = scalar_type(INT32);
            let op = Operation::Input(t.clone());
            let tv = verdict(&op, &[], &[])?;
            let r = catch(|| g.add_node(vec![], vec![], op.clone()))?;
            let out = match r {
                Ok(n) => {
                    let id = n.get_id();
                    world.cxs[me].nodes[gi].push(n);
                    Outcome::Ok(id.to_string())
                }
                Err(_) => Outcome::Err,
            };
            return Ok(Some(Step {
                enc: format!("an:{}:1:_:_:{}:{}", gi, tv as u8, opt(total_addend(&op))),
                kind: "add_node",
                out,
                must_reject: None,
            }));
        }
        if ser.graph_output[gi].is_none() {
            let n = world.cxs[me].nodes[gi].last().unwrap().clone();
            let r = catch(|| g.set_output_node(n.clone()))?;
            return Ok(Some(Step {
                enc: format!("so:{}:0.{}.{}", gi, gi, n.get_id()),
                kind: "set_output_node",
                out: unit(r),
                must_reject: None,
            }));
        }
        let r = catch(|| g.finalize().map(|_| ()))?;
        return Ok(Some(Step { enc: format!("fg:{}", gi), kind: "finalize_graph", out: unit(r), must_reject: None }));
    }
    if world.cxs[me].graphs.is_empty() {
        return Ok(None);
    }
    if ser.main.is_none() {
        let g = world.cxs[me].graphs.last().unwrap().clone();
        let r = catch(|| g.set_as_main().map(|_| ()))?;
        return Ok(Some(Step { enc: format!("sm:0.{}", g.get_id()), kind: "set_main_graph", out: unit(r), must_reject: None }));
    }
    let r = catch(|| c.finalize().map(|_| ()))?;
    Ok(Some(Step { enc: "fc".into(), kind: "finalize_context", out: unit(r), must_reject: None }))
}

enum Outcome {
    Ok(String),
    Err,
}

/// result of one replayed call: what was asked, what came back, which guard (if any) had to reject
struct Step {
    enc: String,
    kind: &'static str,
    out: Outcome,
    must_reject: Option<&'static str>,
}

fn one_call(world: &mut World, rng: &mut Rng, me: usize, run: &mut Run) -> std::result::Result<Step, String> {
    let ng = world.cxs[me].graphs.len();
    let ser_before = serialize(&world.cxs[me].c)?;
    let ctx_final = ser_before.finalized;
    let choice = if ng == 0 && rng.chance(9, 10) { 0 } else { rng.below(100) };
    let c = world.cxs[me].c.clone();
    let res = |r: ciphercore_base::errors::Result<String>| match r {
        Ok(p) => Outcome::Ok(p),
        Err(_) => Outcome::Err,
    };
    let g_rand = |rng: &mut Rng| -> usize {
        if rng.chance(2, 3) {
            ng - 1
        } else {
            rng.below(ng as u64) as usize
        }
    };
    match choice {
        0..=4 => {
            if ng >= 7 && !rng.chance(1, 10) {
                return one_call_fallback(world, me);
            }
            let r = catch(|| c.create_graph())?;
            let out = match r {
                Ok(g) => {
                    let id = g.get_id();
                    world.cxs[me].graphs.push(g);
                    world.cxs[me].nodes.push(vec![]);
                    Outcome::Ok(id.to_string())
                }
                Err(_) => Outcome::Err,
            };
            Ok(Step { enc: "cg".into(), kind: "create_graph", out, must_reject: ctx_final.then_some("context") })
        }
        5..=49 if ng > 0 => {
            // add_node / add_node_with_type
            let gi = g_rand(rng);
            let g = world.cxs[me].graphs[gi].clone();
            let mut deps: Vec<Node> = vec![];
            let mut op = gen_op(rng);
            let mut smart = false;
            if rng.chance(3, 5) {
                if let Some((o, d)) = smart_op(world, rng, me, gi) {
                    op = o;
                    deps = d;
                    smart = true;
                }
            }
            let k = if smart { 0 } else { arity(&op, rng) };
            let mut gdeps: Vec<Graph> = vec![];
            let is_call = matches!(op, Operation::Call | Operation::Iterate);
            if is_call || rng.chance(1, 25) {
                let n = if is_call && !rng.chance(1, 12) { 1 } else { rng.below(3) };
                for _ in 0..n {
                    // mostly an earlier graph of this context
                    let cand = if gi > 0 && rng.chance(5, 6) {
                        Some(world.cxs[me].graphs[rng.below(gi as u64) as usize].clone())
                    } else {
                        pick_graph(world, rng, me, 30)
                    };
                    if let Some(h) = cand {
                        gdeps.push(h);
                    }
                }
            }
            if is_call && gdeps.len() == 1 && rng.chance(5, 6) {
                // arguments matching the callee's inputs where the graph has nodes of those types
                let callee = gdeps[0].clone();
                let mut want: Vec<Type> = vec![];
                for n in callee.get_nodes() {
                    if let Operation::Input(t) = n.get_operation() {
                        want.push(t);
                    }
                }
                if let Operation::Iterate = op {
                    if want.len() == 2 {
                        want[1] = vector_type(2, want[1].clone());
                    }
                }
                for t in want {
                    match node_of_type(&world.cxs[me], gi, &t, rng).or_else(|| pick_node(world, rng, me, gi, 5)) {
                        Some(n) => deps.push(n),
                        None => {}
                    }
                }
            } else {
                for _ in 0..k {
                    if let Some(n) = pick_node(world, rng, me, gi, 6) {
                        deps.push(n);
                    }
                }
            }
            let with_type = rng.chance(1, 9);
            let deps_s: Vec<String> = deps.iter().map(|n| nref(world, me, n)).collect();
            let gdeps_s: Vec<String> = gdeps.iter().map(|h| gref(world, me, h)).collect();
            let graph_final = ser_before.graph_finalized[gi];
            let (tv, r, kind) = if with_type {
                let t = match rng.below(6) {
                    0 | 1 => rng.pick(&invalid_types()).clone(),
                    2 => rng.pick(&huge_types()).clone(),
                    _ => rng.pick(&small_types()).clone(),
                };
                let tv = t.is_valid() && est(&t).map(|e| e <= MAX_TOTAL).unwrap_or(false);
                world.note = if !t.is_valid() {
                    "provided type !is_valid()".to_owned()
                } else if !tv {
                    "size estimate of the provided type fails".to_owned()
                } else {
                    String::new()
                };
                let r = catch(|| g.add_node_with_type(deps.clone(), gdeps.clone(), op.clone(), t))?;
                (tv, r, "add_node_with_type")
            } else {
                let tv = verdict(&op, &deps, &gdeps)?;
                let r = catch(|| g.add_node(deps.clone(), gdeps.clone(), op.clone()))?;
                (tv, r, "add_node")
            };
            let sz = total_addend(&op);
            run.count(&format!("verdict:{}:{}", kind, if tv { "typed" } else { "rejected" }));
            let enc = format!(
                "{}:{}:{}:{}:{}:{}:{}",
                if with_type { "at" } else { "an" },
                gi,
                op_code(&op),
                show_list(&deps_s),
                show_list(&gdeps_s),
                tv as u8,
                opt(sz)
            );
            if r.is_err() {
                let foreign = deps_s.iter().chain(gdeps_s.iter()).any(|d| d.starts_with('1'));
                let why = if graph_final {
                    "finalized-graph"
                } else if foreign {
                    "foreign-handle"
                } else if !tv {
                    "ill-typed-or-structure"
                } else if sz.is_some() && deps.is_empty() && gdeps.is_empty() {
                    "total-size-limit"
                } else {
                    "structure"
                };
                run.count(&format!("rejected:{}:{}", kind, why));
            }
            let out = match r {
                Ok(n) => {
                    let id = n.get_id();
                    // the stored type of an accepted node must be the type inference gives in a fresh context
                    if !with_type && gdeps.is_empty() {
                        if let (Some(want), Ok(got)) = (independent_type(&op, &deps), n.get_type()) {
                            if want != got {
                                run.oracle_fail("C11:stored-type-differs", format!("history so far then {} : node {} of graph {} stores type {} but type inference in a fresh context gives {}", enc, id, gi, got, want));
                            }
                        }
                    }
                    world.cxs[me].nodes[gi].push(n);
                    Outcome::Ok(id.to_string())
                }
                Err(_) => Outcome::Err,
            };
            Ok(Step { enc, kind, out, must_reject: graph_final.then_some("graph") })
        }
        50..=57 if ng > 0 => {
            let gi = g_rand(rng);
            let n = match pick_node(world, rng, me, gi, 8) {
                Some(n) => n,
                None => return one_call_fallback(world, me),
            };
            let k = rng.below(NAME_POOL);
            let foreign = n.get_graph().get_context() != c;
            // through the node's own context when it is ours (Node::set_name), else Context::set_node_name
            let r = if !foreign && rng.chance(1, 2) {
                catch(|| n.set_name(&name_of(k)).map(|_| String::new()))?
            } else {
                catch(|| c.set_node_name(n.clone(), &name_of(k)).map(|_| String::new()))?
            };
            Ok(Step {
                enc: format!("snn:{}:{}", nref(world, me, &n), k),
                kind: "set_node_name",
                out: res(r),
                must_reject: ctx_final.then_some("context"),
            })
        }
        58..=61 if ng > 0 => {
            let g = match pick_graph(world, rng, me, 8) { Some(g) => g, None => return one_call_fallback(world, me) };
            let k = rng.below(NAME_POOL);
            let r = catch(|| c.set_graph_name(g.clone(), &name_of(k)).map(|_| String::new()))?;
            Ok(Step {
                enc: format!("sgn:{}:{}", gref(world, me, &g), k),
                kind: "set_graph_name",
                out: res(r),
                must_reject: ctx_final.then_some("context"),
            })
        }
        62..=66 if ng > 0 => {
            let gi = g_rand(rng);
            let n = match pick_node(world, rng, me, gi, 5) {
                Some(n) => n,
                None => return one_call_fallback(world, me),
            };
            if n.get_graph().get_context() != c {
                return one_call_fallback(world, me); // Node::add_annotation always acts on the node's own context
            }
            let a = if rng.chance(1, 3) { 100 + 10 * rng.below(3) + rng.below(3) } else { rng.below(6) };
            let r = catch(|| n.add_annotation(nann_of(a)).map(|_| String::new()))?;
            Ok(Step {
                enc: format!("ana:{}:{}", nref(world, me, &n), a),
                kind: "add_node_annotation",
                out: res(r),
                must_reject: ctx_final.then_some("context"),
            })
        }
        67 | 68 if ng > 0 => {
            let g = world.cxs[me].graphs[g_rand(rng)].clone();
            let a = rng.below(3);
            let r = catch(|| g.add_annotation(gann_of(a)).map(|_| String::new()))?;
            Ok(Step {
                enc: format!("aga:{}:{}", gref(world, me, &g), a),
                kind: "add_graph_annotation",
                out: res(r),
                must_reject: ctx_final.then_some("context"),
            })
        }
        69..=74 if ng > 0 => {
            let gi = g_rand(rng);
            let g = world.cxs[me].graphs[gi].clone();
            let n = match pick_node(world, rng, me, gi, 10) {
                Some(n) => n,
                None => return one_call_fallback(world, me),
            };
            let r = catch(|| g.set_output_node(n.clone()).map(|_| String::new()))?;
            Ok(Step {
                enc: format!("so:{}:{}", gi, nref(world, me, &n)),
                kind: "set_output_node",
                out: res(r),
                must_reject: ser_before.graph_finalized[gi].then_some("graph"),
            })
        }
        75..=79 if ng > 0 => {
            let gi = g_rand(rng);
            let g = world.cxs[me].graphs[gi].clone();
            let r = catch(|| g.finalize().map(|_| String::new()))?;
            Ok(Step { enc: format!("fg:{}", gi), kind: "finalize_graph", out: res(r), must_reject: None })
        }
        80..=82 if ng > 0 => {
            let g = match pick_graph(world, rng, me, 10) { Some(g) => g, None => return one_call_fallback(world, me) };
            let r = catch(|| c.set_main_graph(g.clone()).map(|_| String::new()))?;
            Ok(Step {
                enc: format!("sm:{}", gref(world, me, &g)),
                kind: "set_main_graph",
                out: res(r),
                must_reject: ctx_final.then_some("context"),
            })
        }
        83 | 84 => {
            let r = catch(|| c.finalize().map(|_| String::new()))?;
            Ok(Step { enc: "fc".into(), kind: "finalize_context", out: res(r), must_reject: None })
        }
        // ---------------------------------------------------------------- getters
        85 | 86 if ng > 0 => {
            let g = match pick_graph(world, rng, me, 10) { Some(g) => g, None => return one_call_fallback(world, me) };
            let r = catch(|| c.get_graph_name(g.clone()).map(|s| name_code(&s)))?;
            Ok(Step { enc: format!("ggn:{}", gref(world, me, &g)), kind: "get_graph_name", out: res(r), must_reject: None })
        }
        87 => {
            let k = rng.below(NAME_POOL);
            let r = catch(|| c.retrieve_graph(&name_of(k)).map(|g| g.get_id().to_string()))?;
            Ok(Step { enc: format!("rg:{}", k), kind: "retrieve_graph", out: res(r), must_reject: None })
        }
        88 | 89 if ng > 0 => {
            let gi = g_rand(rng);
            let n = match pick_node(world, rng, me, gi, 10) {
                Some(n) => n,
                None => return one_call_fallback(world, me),
            };
            let r = catch(|| c.get_node_name(n.clone()).map(|o| o.map(|s| name_code(&s)).unwrap_or_default()))?;
            Ok(Step { enc: format!("gnn:{}", nref(world, me, &n)), kind: "get_node_name", out: res(r), must_reject: None })
        }
        90 | 91 if ng > 0 => {
            let g = match pick_graph(world, rng, me, 10) { Some(g) => g, None => return one_call_fallback(world, me) };
            let k = rng.below(NAME_POOL);
            let r = catch(|| c.retrieve_node(g.clone(), &name_of(k)).map(|n| n.get_id().to_string()))?;
            Ok(Step { enc: format!("rn:{}:{}", gref(world, me, &g), k), kind: "retrieve_node", out: res(r), must_reject: None })
        }
        92 | 93 if ng > 0 => {
            let gi = g_rand(rng);
            let g = world.cxs[me].graphs[gi].clone();
            let id = rng.below(g.get_num_nodes() + 3);
            let r = catch(|| g.get_node_by_id(id).map(|n| n.get_id().to_string()))?;
            Ok(Step { enc: format!("gnb:{}:{}", gi, id), kind: "get_node_by_id", out: res(r), must_reject: None })
        }
        94 => {
            let id = rng.below(ng as u64 + 3);
            let r = catch(|| c.get_graph_by_id(id).map(|g| g.get_id().to_string()))?;
            Ok(Step { enc: format!("ggb:{}", id), kind: "get_graph_by_id", out: res(r), must_reject: None })
        }
        95 if ng > 0 => {
            let gi = g_rand(rng);
            let g = world.cxs[me].graphs[gi].clone();
            let r = catch(|| g.get_output_node().map(|n| n.get_id().to_string()))?;
            Ok(Step { enc: format!("go:{}", gi), kind: "get_output_node", out: res(r), must_reject: None })
        }
        96 => {
            let r = catch(|| c.get_main_graph().map(|g| g.get_id().to_string()))?;
            Ok(Step { enc: "gm".into(), kind: "get_main_graph", out: res(r), must_reject: None })
        }
        97 | 98 if ng > 0 => {
            let gi = g_rand(rng);
            let n = match pick_node(world, rng, me, gi, 5) {
                Some(n) => n,
                None => return one_call_fallback(world, me),
            };
            if n.get_graph().get_context() != c {
                return one_call_fallback(world, me);
            }
            let r = catch(|| {
                n.get_annotations().map(|v| {
                    let codes: Vec<u64> = v.iter().map(nann_code).collect();
                    if codes.is_empty() {
                        String::new()
                    } else {
                        show_list(&codes)
                    }
                })
            })?;
            Ok(Step { enc: format!("gna:{}", nref(world, me, &n)), kind: "get_node_annotations", out: res(r), must_reject: None })
        }
        99 if ng > 0 => {
            let g = world.cxs[me].graphs[g_rand(rng)].clone();
            let r = catch(|| {
                g.get_annotations().map(|v| {
                    let codes: Vec<u64> = v.iter().map(gann_code).collect();
                    if codes.is_empty() {
                        String::new()
                    } else {
                        show_list(&codes)
                    }
                })
            })?;
            Ok(Step { enc: format!("gga:{}", gref(world, me, &g)), kind: "get_graph_annotations", out: res(r), must_reject: None })
        }
        _ => one_call_fallback(world, me),
    }
}

/// a call that is always possible
fn one_call_fallback(world: &mut World, me: usize) -> std::result::Result<Step, String> {
    let c = world.cxs[me].c.clone();
    let r = catch(|| c.get_main_graph().map(|g| g.get_id().to_string()))?;
    Ok(Step { enc: "gm".into(), kind: "get_main_graph", out: match r { Ok(p) => Outcome::Ok(p), Err(_) => Outcome::Err }, must_reject: None })
}

fn new_cx() -> Cx {
    let c = create_context().unwrap();
    let ser = serialize(&c).ok();
    let snap = ser.as_ref().and_then(|s| snapshot(&c, s).ok()).unwrap_or_default();
    Cx {
        c,
        graphs: vec![],
        nodes: vec![],
        calls: vec![],
        answers: vec![],
        snap,
        ser: ser.map(|s| s.text),
        cut: false,
        had_err: false,
        ok_after_err: false,
    }
}

fn history(run: &mut Run, rng: &mut Rng, len: usize, two: bool) {
    let mut world = World { cxs: vec![new_cx()], note: String::new() };
    if two {
        world.cxs.push(new_cx());
    }
    // half of the histories are steered towards a finalized context from some point on
    let closing_from = if rng.chance(1, 2) { len * (35 + rng.below(50) as usize) / 100 } else { usize::MAX };
    for i in 0..len {
        let me = if two && rng.chance(1, 3) { 1 } else { 0 };
        if world.cxs[me].cut || world.cxs[me].calls.len() >= 200 {
            continue;
        }
        world.note.clear();
        let mut steered = Ok(None);
        if i >= closing_from && rng.chance(1, 2) {
            steered = closing_call(&mut world, me);
        }
        let next = match steered {
            Ok(Some(s)) => Ok(s),
            Ok(None) => one_call(&mut world, rng, me, run),
            Err(e) => Err(e),
        };
        let step = match next {
            Ok(s) => s,
            Err(p) => {
                run.oracle_fail("C11:panic:call", format!("history {} panicked in the next call: {}", world.cxs[me].calls.join(";"), p));
                world.cxs[me].cut = true;
                continue;
            }
        };
        let is_ok = matches!(step.out, Outcome::Ok(_));
        run.count(&format!("call:{}:{}", step.kind, if is_ok { "ok" } else { "err" }));
        let hist_with = || {
            let mut h = world.cxs[me].calls.clone();
            h.push(step.enc.clone());
            h.join(";")
        };
        // ---- oracle: state after the call
        let ser = match serialize(&world.cxs[me].c) {
            Ok(s) => s,
            Err(e) => {
                run.oracle_fail("C11:panic:serialize", format!("after history {}: {}", hist_with(), e));
                world.cxs[me].cut = true;
                continue;
            }
        };
        let snap = match snapshot(&world.cxs[me].c, &ser) {
            Ok(s) => s,
            Err(e) => {
                run.oracle_fail("C11:panic:getters", format!("after history {}: {}", hist_with(), e));
                world.cxs[me].cut = true;
                continue;
            }
        };
        run.oracle_case(&hist_with(), !is_ok);
        if !is_ok && (snap != world.cxs[me].snap || Some(&ser.text) != world.cxs[me].ser.as_ref()) {
            run.oracle_fail(
                &format!("C11:failed-call-changed-state:{}", step.kind),
                format!(
                    "history {} — last call returned Err [{}]; snapshot before: {} after: {}",
                    hist_with(),
                    world.note,
                    world.cxs[me].snap,
                    snap
                ),
            );
            // the model describes the atomic behaviour; this history cannot be followed any further
            world.cxs[me].cut = true;
            continue;
        }
        if is_ok {
            if let Some(what) = step.must_reject {
                run.oracle_fail(
                    &format!("C11:finalized-{}-accepted:{}", what, step.kind),
                    format!("history {} — last call returned Ok on a finalized {}", hist_with(), what),
                );
            }
        }
        for (what, detail) in invariants(&world.cxs[me].c, &ser) {
            run.oracle_fail(&format!("C11:invariant:{}", what), format!("history {} — {}", hist_with(), detail));
        }
        // ---- model stream
        let cx = &mut world.cxs[me];
        let digest = fnv(&snap);
        cx.answers.push(match &step.out {
            Outcome::Ok(p) => format!("o{}/{}", p, digest),
            Outcome::Err => format!("E/{}", digest),
        });
        cx.calls.push(step.enc);
        if is_ok {
            if cx.had_err && snap != cx.snap {
                cx.ok_after_err = true;
            }
        } else {
            cx.had_err = true;
        }
        cx.snap = snap;
        cx.ser = Some(ser.text);
    }
    for cx in &world.cxs {
        if cx.calls.is_empty() {
            continue;
        }
        run.count_n("steps", cx.calls.len() as u64);
        run.count(&format!("history:len<={}", ((cx.calls.len() + 49) / 50) * 50));
        if cx.c.check_finalized().is_ok() {
            run.count("history:context-finalized");
        }
        run.case(format!("hist {}", cx.calls.join(";")), cx.answers.join(" "), cx.ok_after_err);
    }
}

pub fn corr(run: &mut Run) {
    run.rule = "random histories of 10..200 API calls (create_graph, add_node / add_node_with_type of 18 operations with \
                valid, invalid and near-u64-limit types, set/get names, annotations, set_output_node, finalize, set_main_graph, \
                Context::finalize, Call/Iterate across graphs, getters) on one or two contexts; arguments are mostly valid, \
                with handles of other graphs/contexts, unfinalized or later callee graphs, duplicate names, wrong arities, \
                ill-typed operations and calls after finalization mixed in. One model request per context history: Ok/Err(+payload) \
                and snapshot digest after every call. Non-trivial: the history has a failed call followed by a successful mutation."
        .to_owned();
    let mut rng = run.rng("hist");
    let n = run.tier.scale(600, 4000);
    for i in 0..n {
        let len = match i % 10 {
            0 => 200,
            1 | 2 => 120 + rng.below(80) as usize,
            3..=5 => 50 + rng.below(70) as usize,
            _ => 10 + rng.below(50) as usize,
        };
        let two = i % 3 == 2;
        history(run, &mut rng, if two { len * 3 / 2 } else { len }, two);
    }
}
