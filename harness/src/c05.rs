//! C05 — secure truncation stays within its documented error
//! (mpc/mpc_truncate.rs TruncateMPC / TruncateMPC2K, mpc_compiler.rs choice, simple_evaluator.rs Truncate).
//!
//! One-Truncate graphs are compiled with `compile_context` and the compiled main graph is evaluated
//! node by node (one evaluator = "local", or three evaluators exchanging values only at `Send`
//! markers = "3p").  The values of the input shares and of every PRF node of the protocol are
//! recorded and sent to the Lean model, which must reproduce the output shares / revealed value
//! exactly.  Independently the revealed value is checked against the property's oracle computed in
//! native integer arithmetic.
use crate::util::*;
use crate::vals::*;
use ciphercore_base::data_types::*;
use ciphercore_base::data_values::Value;
use ciphercore_base::evaluators::simple_evaluator::SimpleEvaluator;
use ciphercore_base::evaluators::Evaluator;
use ciphercore_base::graphs::util::simple_context;
use ciphercore_base::graphs::*;
use ciphercore_base::inline::inline_ops::{InlineConfig, InlineMode};
use ciphercore_base::mpc::mpc_compiler::{compile_context, IOStatus};

const TYPES: [ScalarType; 10] = [UINT8, INT8, UINT16, INT16, UINT32, INT32, UINT64, INT64, UINT128, INT128];

fn mask(s: u32) -> u128 {
    if s >= 128 {
        u128::MAX
    } else {
        (1u128 << s) - 1
    }
}

/// sign extension of an s-bit residue (s = 128: plain cast)
fn sext(v: u128, s: u32) -> i128 {
    if s >= 128 {
        v as i128
    } else if v >> (s - 1) == 1 {
        v as i128 - (1i128 << s)
    } else {
        v as i128
    }
}

fn ios(i: &IOStatus) -> String {
    match i {
        IOStatus::Public => "pub".into(),
        IOStatus::Shared => "shared".into(),
        IOStatus::Party(p) => format!("p{}", p),
    }
}

fn outs_name(o: &[IOStatus]) -> String {
    if o.is_empty() {
        "shared".into()
    } else {
        o.iter().map(ios).collect::<Vec<_>>().join("+")
    }
}

fn data_type(st: ScalarType, shape: &Option<Vec<u64>>) -> Type {
    match shape {
        None => scalar_type(st),
        Some(sh) => array_type(sh.clone(), st),
    }
}

fn to_value(xs: &[u128], t: &Type) -> Value {
    let st = t.get_scalar_type();
    if t.is_scalar() {
        Value::from_scalar(xs[0], st).expect("from_scalar")
    } else {
        Value::from_flattened_array(xs, st).expect("from_flattened_array")
    }
}

fn flat(v: &Value, t: &Type) -> Option<Vec<u128>> {
    let st = t.get_scalar_type();
    // a value of the wrong kind (tuple instead of bytes) makes the accessor panic: treat as unreadable
    // (the accessors sign-extend signed elements to 128 bits: reduce to the residue)
    let m = mask(st_bits(st));
    catch(|| if t.is_scalar() { v.to_u128(st).ok().map(|x| vec![x]) } else { v.to_flattened_array_u128(t.clone()).ok() })
        .ok()
        .flatten()
        .map(|v| v.into_iter().map(|x| x & m).collect())
}

fn inline_cfg() -> InlineConfig {
    InlineConfig { default_mode: InlineMode::Simple, ..Default::default() }
}

fn source(t: &Type, scale: u128) -> ciphercore_base::errors::Result<Context> {
    let t = t.clone();
    simple_context(move |g| {
        let a = g.input(t)?;
        a.truncate(scale)
    })
}

/// values of every node of the compiled main graph, per party
struct Trace {
    vals: Vec<Vec<Option<Value>>>,
    poison_sent: Vec<String>,
}

enum InData {
    /// public or party-owned input
    Plain(Value),
    /// the three additive shares of a shared input
    Shares([Value; 3]),
}

/// `parties = 1`: one evaluator computes every node, Send markers are ignored ("local").
/// `parties = 3`: DESIGN §7a three-party execution: each party evaluates every node from its own data
/// and tape; the value of a node with `Send(s, r)` at party r is replaced by the one of party s.
fn execute(cc: &Context, parties: usize, ins: &IOStatus, input: &InData, rng: &mut Rng) -> std::result::Result<Trace, String> {
    let g = cc.get_main_graph().map_err(|e| e.to_string())?;
    let nodes = g.get_nodes();
    let mut evals = vec![];
    for _ in 0..parties {
        let mut e = SimpleEvaluator::new(Some(rng.seed16())).map_err(|e| e.to_string())?;
        e.preprocess(cc).map_err(|e| e.to_string())?;
        evals.push(e);
    }
    let mut junk = ciphercore_base::random::PRNG::new(Some(rng.seed16())).map_err(|e| e.to_string())?;
    let mut vals: Vec<Vec<Option<Value>>> = vec![vec![]; parties];
    let mut poison_sent = vec![];
    for node in nodes.iter() {
        let op = node.get_operation();
        if let Operation::Input(t) = op.clone() {
            for p in 0..parties {
                let v = match (ins, input) {
                    (IOStatus::Public, InData::Plain(x)) => x.clone(),
                    (IOStatus::Party(o), InData::Plain(x)) => {
                        if parties == 1 || p as u64 == *o {
                            x.clone()
                        } else {
                            junk.get_random_value(t.clone()).map_err(|e| e.to_string())?
                        }
                    }
                    (IOStatus::Shared, InData::Shares(sh)) => {
                        let inner = if let Type::Tuple(v) = t.clone() { (*v[0]).clone() } else { return Err("shared input type".into()) };
                        let mut s = vec![];
                        for i in 0..3 {
                            if parties == 1 || i == p || i == (p + 1) % 3 {
                                s.push(sh[i].clone());
                            } else {
                                s.push(junk.get_random_value(inner.clone()).map_err(|e| e.to_string())?);
                            }
                        }
                        Value::from_vector(s)
                    }
                    _ => return Err("input kind".into()),
                };
                vals[p].push(Some(v));
            }
            continue;
        }
        for p in 0..parties {
            let mut deps = vec![];
            let mut ok = true;
            for d in node.get_node_dependencies() {
                match &vals[p][d.get_id() as usize] {
                    Some(v) => deps.push(v.clone()),
                    None => {
                        ok = false;
                        break;
                    }
                }
            }
            let v = if ok {
                match catch(|| evals[p].evaluate_node(node.clone(), deps)) {
                    Ok(Ok(v)) => Some(v),
                    Ok(Err(_)) => None,
                    Err(m) => return Err(format!("panic in evaluate_node {}: {}", node.get_id(), m)),
                }
            } else {
                None
            };
            vals[p].push(v);
        }
        if parties == 3 {
            for a in node.get_annotations().map_err(|e| e.to_string())? {
                if let NodeAnnotation::Send(s, r) = a {
                    let id = node.get_id() as usize;
                    let sv = vals[s as usize][id].clone();
                    if sv.is_none() {
                        poison_sent.push(format!("node {} send {}->{}", id, s, r));
                    }
                    vals[r as usize][id] = sv;
                }
            }
        } else if vals[0].last().unwrap().is_none() {
            return Err(format!("node {} failed in local evaluation", node.get_id()));
        }
    }
    Ok(Trace { vals, poison_sent })
}

/// what the structure of the compiled graph tells us: where shares and protocol masks live
struct Layout {
    /// PRF nodes of the truncation protocol, in creation order
    proto_prfs: Vec<usize>,
    /// party-owned input: the three share nodes (NOP + Send) in slot order
    share_nodes: Vec<usize>,
    input_node: usize,
    output_node: usize,
}

fn n_proto_prfs(scale: u128) -> usize {
    if scale == 1 {
        0
    } else if scale.is_power_of_two() {
        6
    } else {
        1
    }
}

fn layout(cc: &Context, t: &Type, scale: u128, ins: &IOStatus) -> std::result::Result<Layout, String> {
    let g = cc.get_main_graph().map_err(|e| e.to_string())?;
    let nodes = g.get_nodes();
    let mut prfs = vec![];
    let mut nops = vec![];
    let mut input_node = None;
    for n in nodes.iter() {
        let id = n.get_id() as usize;
        match n.get_operation() {
            Operation::PRF(_, pt) => {
                if pt != *t {
                    return Err(format!("PRF node {} of unexpected type", id));
                }
                prfs.push(id)
            }
            Operation::Input(_) => {
                if input_node.is_some() {
                    return Err("two inputs".into());
                }
                input_node = Some(id)
            }
            Operation::NOP => {
                let has_send = n.get_annotations().map_err(|e| e.to_string())?.iter().any(|a| matches!(a, NodeAnnotation::Send(_, _)));
                if has_send && n.get_type().map_err(|e| e.to_string())? == *t {
                    nops.push(id);
                }
            }
            _ => {}
        }
    }
    let input_node = input_node.ok_or("no input")?;
    let np = n_proto_prfs(scale);
    let expect_prfs = np + if matches!(ins, IOStatus::Party(_)) { 3 } else { 0 };
    if prfs.len() != expect_prfs {
        return Err(format!("{} PRF nodes, expected {}", prfs.len(), expect_prfs));
    }
    let proto_prfs = prfs[prfs.len() - np..].to_vec();
    if np == 6 {
        // key structure: r has its own key, r0/rmsb0/rtr0/y0 share k_02, y2 uses a third key
        let key = |i: usize| nodes[proto_prfs[i]].get_node_dependencies()[0].get_id();
        if !(key(1) == key(2) && key(2) == key(3) && key(3) == key(4) && key(0) != key(1) && key(5) != key(1) && key(5) != key(0)) {
            return Err("unexpected PRF key structure".into());
        }
    }
    let share_nodes = if matches!(ins, IOStatus::Party(_)) {
        let s: Vec<usize> = nops.iter().cloned().filter(|i| *i > input_node).take(3).collect();
        if s.len() != 3 {
            return Err("share nodes not found".into());
        }
        if np > 0 && s[2] > proto_prfs[0] {
            return Err("share nodes after the protocol".into());
        }
        s
    } else {
        vec![]
    };
    let output_node = g.get_output_node().map_err(|e| e.to_string())?.get_id() as usize;
    Ok(Layout { proto_prfs, share_nodes, input_node, output_node })
}

/// candidate scales for a type: (scale, is the pair in the documented domain of the property)
fn gen_scale(rng: &mut Rng, st: ScalarType, want_pow2: bool) -> u128 {
    let s = st_bits(st);
    let kmax = if st.is_signed() { s - 2 } else { s - 1 };
    if want_pow2 {
        let k = match rng.below(8) {
            0 => 1,
            1 => kmax,
            2 => kmax - 1,
            3 => 2,
            _ => 1 + rng.below(kmax as u64) as u32,
        };
        1u128 << k
    } else {
        loop {
            let d: u128 = match rng.below(10) {
                0 => 3,
                1 => 10,
                2 => *rng.pick(&[5u128, 6, 7, 9, 100, 1000, 1_000_000]),
                3 => {
                    // next to a power of two
                    let k = 2 + rng.below(s as u64 - 2) as u32;
                    if rng.chance(1, 2) {
                        (1u128 << k) + 1
                    } else {
                        (1u128 << k) - 1
                    }
                }
                4 => (1u128 << (s - 1)) - 1, // largest positive value of the type
                5 => (1u128 << (s - 1)) - 1 - rng.below(5) as u128,
                6 => (mask(s) / 3) | 1,
                7 => {
                    // beyond the type's range (still a legal scale)
                    let hi = if st.is_signed() { (1u128 << 127) - 1 } else { u128::MAX };
                    if s < 120 {
                        ((1u128 << s) + 1 + rng.below(1000) as u128).min(hi)
                    } else {
                        hi - rng.below(4) as u128 * 2
                    }
                }
                _ => (rng.next128() & mask(s)) | 1,
            };
            if d >= 3 && !d.is_power_of_two() && !(st.is_signed() && d > i128::MAX as u128) {
                return d;
            }
        }
    }
}

/// boundary-biased inputs (as integers, in the documented range) for Truncate(scale) on type st
fn gen_x_in_range(rng: &mut Rng, st: ScalarType, scale: u128, idx: usize) -> u128 {
    let s = st_bits(st);
    let signed = st.is_signed();
    // documented range: signed [-2^(s-2), 2^(s-2)), unsigned [0, 2^(s-1))
    let (lo, hi): (i128, u128) = if signed { (-(1i128 << (s - 2)), (1u128 << (s - 2)) - 1) } else { (0, (1u128 << (s - 1)) - 1) };
    let clamp = |v: i128, neg_ok: bool| -> Option<u128> {
        if v < 0 {
            if neg_ok && v >= lo {
                Some((v as u128) & mask(s))
            } else {
                None
            }
        } else if (v as u128) <= hi {
            Some(v as u128)
        } else {
            None
        }
    };
    // scale as an i128 where that is meaningful
    let d: Option<i128> = if scale <= hi { Some(scale as i128) } else { None };
    let mut fixed: Vec<i128> = vec![0, 1, -1, 2, -2, hi as i128, hi as i128 - 1, lo, lo + 1];
    if let Some(d) = d {
        for m in [1i128, 2, 3] {
            if let Some(md) = d.checked_mul(m) {
                fixed.extend_from_slice(&[md, md - 1, md + 1, -md, -md - 1, -md + 1]);
            }
        }
        // largest multiples inside the range
        let top = (hi as i128 / d) * d;
        fixed.extend_from_slice(&[top, top - 1, -top, -top + 1, top - d, top - d + 1]);
        fixed.extend_from_slice(&[d / 2, d / 2 + 1, -(d / 2), -(d / 2) - 1]);
    }
    let cand: i128 = if idx < fixed.len() {
        fixed[idx]
    } else {
        match rng.below(6) {
            0 => *rng.pick(&fixed),
            1 => {
                // random multiple of the scale and neighbours
                if let Some(d) = d {
                    let q = (rng.next128() % ((hi / (d as u128)) + 1)) as i128;
                    let v = q * d + rng.range(-1, 1) as i128;
                    if rng.chance(1, 2) {
                        -v
                    } else {
                        v
                    }
                } else {
                    rng.range(-3, 3) as i128
                }
            }
            2 => rng.range(-40, 40) as i128,
            3 => {
                let k = rng.below(s as u64 - 1) as u32;
                let v = (1i128 << k.min(126)) + rng.range(-1, 1) as i128;
                if rng.chance(1, 2) {
                    -v
                } else {
                    v
                }
            }
            _ => {
                let v = (rng.next128() % (hi + 1)) as i128;
                if rng.chance(1, 2) {
                    -v - 1
                } else {
                    v
                }
            }
        }
    };
    clamp(cand, signed).unwrap_or(if idx % 2 == 0 { 0 } else { hi })
}

fn in_documented_range(st: ScalarType, x: u128) -> bool {
    let s = st_bits(st);
    if st.is_signed() {
        let v = sext(x, s);
        v >= -(1i128 << (s - 2)) && v < (1i128 << (s - 2))
    } else {
        x < (1u128 << (s - 1))
    }
}

/// native reference of the plaintext Truncate: signed → toward zero, unsigned → floor
fn native_plain(st: ScalarType, scale: u128, x: u128) -> u128 {
    let s = st_bits(st);
    if st.is_signed() {
        // scale ≤ i128::MAX is enforced by the builder
        ((sext(x, s) / (scale as i128)) as u128) & mask(s)
    } else {
        x / scale
    }
}

/// native floor(x / 2^k) as a residue
fn native_floor_pow2(st: ScalarType, k: u32, x: u128) -> u128 {
    let s = st_bits(st);
    if st.is_signed() {
        ((sext(x, s) >> k) as u128) & mask(s)
    } else {
        x >> k
    }
}

#[derive(Clone)]
struct Cfg {
    st: ScalarType,
    scale: u128,
    ins: IOStatus,
    outs: Vec<IOStatus>,
    shape: Option<Vec<u64>>,
}

impl Cfg {
    fn descr(&self) -> String {
        format!(
            "{} scale={} in={} out={} shape={}",
            st_name(self.st),
            self.scale,
            ios(&self.ins),
            outs_name(&self.outs),
            self.shape.as_ref().map(|s| show_list(s)).unwrap_or("scalar".into())
        )
    }
}

fn gen_outs(rng: &mut Rng) -> Vec<IOStatus> {
    let p = IOStatus::Party;
    match rng.below(8) {
        0 | 1 => vec![],
        2 => vec![p(0)],
        3 => vec![p(1)],
        4 => vec![p(2)],
        5 => vec![p(0), p(1)],
        6 => vec![p(2), p(0)],
        _ => vec![p(0), p(1), p(2)],
    }
}

fn gen_shape_opt(rng: &mut Rng) -> Option<Vec<u64>> {
    match rng.below(6) {
        0 => None,
        1 => Some(vec![1]),
        2 => Some(vec![2, 3]),
        3 => Some(vec![3, 1, 2]),
        4 => Some(vec![1 + rng.below(9)]),
        _ => Some(vec![8]),
    }
}

/// shares of x (mod 2^s): random, or with boundary values in the first share(s)
fn gen_shares(rng: &mut Rng, s: u32, x: u128) -> [u128; 3] {
    let m = mask(s);
    let special = |rng: &mut Rng| -> u128 {
        match rng.below(8) {
            0 => 0,
            1 => m,
            2 => 1u128 << (s - 1),
            3 => (1u128 << (s - 1)) - 1,
            4 => 1u128 << (s - 2),
            5 => rng.below(4) as u128,
            _ => rng.next128() & m,
        }
    };
    let (a, b) = match rng.below(4) {
        0 => (special(rng), special(rng)),
        1 => (special(rng), rng.next128() & m),
        2 => (x, 0),
        _ => (rng.next128() & m, rng.next128() & m),
    };
    let c = x.wrapping_sub(a).wrapping_sub(b) & m;
    let mut sh = [a, b, c];
    if rng.chance(1, 2) {
        let r = rng.below(3) as usize;
        sh.rotate_left(r);
    }
    sh
}

struct Stats {
    in_range_2k: u64,
    w0: u64,
    w1: u64,
}

/// run one configuration: compile, evaluate `n_evals` times, emit model cases and oracle checks
fn run_cfg(run: &mut Run, rng: &mut Rng, cfg: &Cfg, n_evals: usize, parties: usize, out_of_range: bool, stats: &mut Stats) {
    let st = cfg.st;
    let s = st_bits(st);
    let sg = st.is_signed() as u8;
    let m = mask(s);
    let t = data_type(st, &cfg.shape);
    let n: usize = cfg.shape.as_ref().map(|v| v.iter().product::<u64>() as usize).unwrap_or(1);
    let mode = if parties == 1 { "local" } else { "3p" };
    let pow2 = cfg.scale.is_power_of_two();
    let kind = if cfg.ins == IOStatus::Public {
        "public"
    } else if cfg.scale == 1 {
        "identity"
    } else if pow2 {
        "2k"
    } else {
        "general"
    };
    let descr = cfg.descr();
    let src = match catch(|| source(&t, cfg.scale)) {
        Ok(Ok(c)) => c,
        Ok(Err(_)) => {
            // the builder rejects the node: scale 0 or too large for a signed type
            run.case(format!("accepts {} {} {}", s, sg, cfg.scale), "0".into(), true);
            run.count("builder-reject");
            return;
        }
        Err(p) => {
            run.oracle_fail("C05:panic:build", format!("{}: {}", descr, p));
            return;
        }
    };
    let compiled = catch(|| compile_context(src.clone(), vec![cfg.ins.clone()], cfg.outs.clone(), inline_cfg(), || SimpleEvaluator::new(None)));
    let cc = match compiled {
        Ok(Ok(c)) => c.get_context(),
        Ok(Err(_)) => {
            run.case(format!("accepts {} {} {}", s, sg, cfg.scale), "0".into(), true);
            run.count(&format!("compile-reject:{}:{}", if st.is_signed() { "signed" } else { "unsigned" }, if pow2 { "pow2" } else { "general" }));
            return;
        }
        Err(p) => {
            run.oracle_fail("C05:panic:compile", format!("{}: {}", descr, p));
            return;
        }
    };
    run.case(format!("accepts {} {} {}", s, sg, cfg.scale), "1".into(), true);
    run.count(&format!("cfg:{}:{}:{}", kind, mode, st_name(st)));
    run.count(&format!("io:{}->{}", ios(&cfg.ins), outs_name(&cfg.outs)));
    let lay = if cfg.ins == IOStatus::Public {
        None
    } else {
        match layout(&cc, &t, cfg.scale, &cfg.ins) {
            Ok(l) => Some(l),
            Err(e) => {
                run.oracle_fail("C05:structure:layout", format!("{}: {}", descr, e));
                return;
            }
        }
    };
    let g = cc.get_main_graph().unwrap();
    let out_id = g.get_output_node().unwrap().get_id() as usize;
    for ev in 0..n_evals {
        // inputs
        let xs: Vec<u128> = (0..n)
            .map(|i| {
                if out_of_range && rng.chance(2, 3) {
                    match rng.below(5) {
                        0 => m,
                        1 => 1u128 << (s - 1),
                        2 => (1u128 << (s - 1)) - 1,
                        3 => (1u128 << (s - 2)) + rng.below(3) as u128,
                        _ => rng.next128() & m,
                    }
                } else {
                    gen_x_in_range(rng, st, cfg.scale, ev * n + i)
                }
            })
            .collect();
        let input = match cfg.ins {
            IOStatus::Shared => {
                let mut sh = [vec![], vec![], vec![]];
                for x in xs.iter() {
                    let q = gen_shares(rng, s, *x);
                    for j in 0..3 {
                        sh[j].push(q[j]);
                    }
                }
                InData::Shares([to_value(&sh[0], &t), to_value(&sh[1], &t), to_value(&sh[2], &t)])
            }
            _ => InData::Plain(to_value(&xs, &t)),
        };
        // plaintext reference through the real evaluator
        let plain: Vec<u128> = match catch(|| -> ciphercore_base::errors::Result<Value> {
            let mut e = SimpleEvaluator::new(Some(rng.seed16()))?;
            e.preprocess(&src)?;
            e.evaluate_graph(src.get_main_graph()?, vec![to_value(&xs, &t)])
        }) {
            Ok(Ok(v)) => match flat(&v, &t) {
                Some(f) => f,
                None => {
                    run.oracle_fail("C05:plain:unreadable", descr.clone());
                    return;
                }
            },
            Ok(Err(e)) => {
                run.oracle_fail("C05:plain:error", format!("{} x={:?}: {}", descr, xs, e));
                return;
            }
            Err(p) => {
                run.oracle_fail("C05:panic:plain", format!("{} x={:?}: {}", descr, xs, p));
                return;
            }
        };
        for i in 0..n {
            // model of the evaluator's Truncate, and the native reference
            if ev < 3 || rng.chance(1, 4) {
                run.case(format!("plain {} {} {} {}", s, sg, cfg.scale, xs[i]), plain[i].to_string(), true);
            }
            run.oracle_case(&format!("plain {} {} {}", st_name(st), cfg.scale, xs[i]), true);
            let want = native_plain(st, cfg.scale, xs[i]);
            if plain[i] != want {
                run.oracle_fail(
                    &format!("C05:plain:mismatch:{}", if st.is_signed() { "signed" } else { "unsigned" }),
                    format!("{} x={} plaintext Truncate gives {} want {}", descr, xs[i], plain[i], want),
                );
            }
        }
        let tr = match execute(&cc, parties, &cfg.ins, &input, rng) {
            Ok(t) => t,
            Err(e) => {
                run.oracle_fail(&format!("C05:exec:{}:{}", kind, mode), format!("{} x={:?}: {}", descr, xs, e));
                return;
            }
        };
        if !tr.poison_sent.is_empty() {
            run.oracle_fail(&format!("C05:exec:poison-sent:{}", kind), format!("{} {:?}", descr, &tr.poison_sent[..tr.poison_sent.len().min(3)]));
            return;
        }
        let get = |party: usize, node: usize| -> Option<Vec<u128>> {
            let p = if parties == 1 { 0 } else { party };
            tr.vals[p][node].as_ref().and_then(|v| flat(v, &t))
        };
        // ---- public input: exact plaintext
        if cfg.ins == IOStatus::Public {
            let mut outs = vec![];
            for p in 0..parties {
                let o = if cfg.outs.is_empty() {
                    // shared output of a public computation: slot j read at party j (3p) and summed
                    let mut acc: Option<Vec<u128>> = Some(vec![0; n]);
                    for j in 0..3 {
                        let pj = if parties == 1 { 0 } else { j };
                        let slot = tr.vals[pj][out_id].as_ref().and_then(|v| v.to_vector().ok()).and_then(|v| flat(&v[j], &t));
                        acc = match (acc, slot) {
                            (Some(a), Some(b)) => Some((0..n).map(|i| a[i].wrapping_add(b[i]) & m).collect()),
                            _ => None,
                        };
                    }
                    acc
                } else {
                    get(p, out_id)
                };
                match o {
                    Some(o) => outs.push(o),
                    None => {
                        run.oracle_fail("C05:public:no-output", format!("{} party {}", descr, p));
                        return;
                    }
                }
            }
            for i in 0..n {
                run.case(format!("public {} {} {} {}", s, sg, cfg.scale, xs[i]), outs[0][i].to_string(), true);
                run.oracle_case(&format!("public {} {} {}", descr, xs[i], mode), true);
                for p in 0..parties {
                    if outs[p][i] != native_plain(st, cfg.scale, xs[i]) {
                        run.oracle_fail("C05:public:mismatch", format!("{} x={} party {} got {} want {}", descr, xs[i], p, outs[p][i], native_plain(st, cfg.scale, xs[i])));
                    }
                }
            }
            continue;
        }
        let lay = lay.as_ref().unwrap();
        // ---- input shares as the protocol sees them: share i is held by parties i and i-1
        let shares: Option<Vec<Vec<u128>>> = match (&cfg.ins, &input) {
            (IOStatus::Shared, InData::Shares(sh)) => Some(sh.iter().map(|v| flat(v, &t).unwrap()).collect()),
            _ => (0..3).map(|j| get(j, lay.share_nodes[j])).collect(),
        };
        let shares = match shares {
            Some(s) => s,
            None => {
                run.oracle_fail("C05:structure:shares", descr.clone());
                return;
            }
        };
        if parties == 3 && cfg.ins != IOStatus::Shared {
            // the second holder of share j (party j-1) must have the same value
            for j in 0..3 {
                if get((j + 2) % 3, lay.share_nodes[j]) != Some(shares[j].clone()) {
                    run.oracle_fail("C05:3p:input-share-inconsistent", format!("{} share {}", descr, j));
                }
            }
        }
        for i in 0..n {
            let sum = shares[0][i].wrapping_add(shares[1][i]).wrapping_add(shares[2][i]) & m;
            if sum != xs[i] {
                run.oracle_fail("C05:structure:sharing-sum", format!("{} x={} shares {:?}", descr, xs[i], (shares[0][i], shares[1][i], shares[2][i])));
                return;
            }
        }
        // ---- protocol masks, taken from a party that legitimately computes them
        let mask_party: Vec<usize> = match lay.proto_prfs.len() {
            6 => vec![2, 0, 0, 0, 0, 1],
            1 => vec![1],
            _ => vec![],
        };
        let mut masks: Vec<Vec<u128>> = vec![];
        for (j, id) in lay.proto_prfs.iter().enumerate() {
            match get(mask_party[j], *id) {
                Some(v) => masks.push(v),
                None => {
                    run.oracle_fail("C05:structure:mask", descr.clone());
                    return;
                }
            }
        }
        if parties == 3 && lay.proto_prfs.len() == 6 {
            // keys k_02 / k_12 are shared: the other holder must derive the same masks
            for (j, other) in [(1usize, 2usize), (2, 2), (3, 2), (4, 2), (5, 2)] {
                if get(other, lay.proto_prfs[j]) != Some(masks[j].clone()) {
                    run.oracle_fail("C05:3p:mask-inconsistent", format!("{} mask {}", descr, j));
                }
            }
        }
        // ---- outputs
        let shared_out = cfg.outs.is_empty();
        let out_shares: Option<Vec<Vec<u128>>> = if shared_out {
            // slot j from party j; cross-check with the second holder
            let mut r = vec![];
            let mut ok = true;
            for j in 0..3 {
                let pick = |party: usize| -> Option<Vec<u128>> {
                    let p = if parties == 1 { 0 } else { party };
                    let v = tr.vals[p][out_id].as_ref()?.to_vector().ok()?;
                    flat(&v[j], &t)
                };
                match pick(j) {
                    Some(v) => {
                        if parties == 3 && pick((j + 2) % 3) != Some(v.clone()) {
                            run.oracle_fail("C05:3p:output-share-inconsistent", format!("{} slot {}", descr, j));
                        }
                        r.push(v)
                    }
                    None => ok = false,
                }
            }
            if ok {
                Some(r)
            } else {
                None
            }
        } else {
            None
        };
        let revealed: Vec<u128> = if shared_out {
            match &out_shares {
                Some(o) => (0..n).map(|i| o[0][i].wrapping_add(o[1][i]).wrapping_add(o[2][i]) & m).collect(),
                None => {
                    run.oracle_fail(&format!("C05:exec:no-output:{}", kind), descr.clone());
                    return;
                }
            }
        } else {
            let mut first: Option<Vec<u128>> = None;
            for o in cfg.outs.iter() {
                if let IOStatus::Party(p) = o {
                    match get(*p as usize, out_id) {
                        Some(v) => {
                            if let Some(f) = &first {
                                if *f != v {
                                    run.oracle_fail("C05:3p:output-differs-between-parties", descr.clone());
                                }
                            } else {
                                first = Some(v);
                            }
                        }
                        None => {
                            run.oracle_fail(&format!("C05:exec:no-output:{}", kind), format!("{} party {}", descr, p));
                            return;
                        }
                    }
                }
            }
            first.unwrap()
        };
        for i in 0..n {
            let ms: Vec<u128> = masks.iter().map(|v| v[i]).collect();
            let req_tail = format!("{} {} {} {},{},{} {}", s, sg, cfg.scale, shares[0][i], shares[1][i], shares[2][i], show_list(&ms));
            if let Some(o) = &out_shares {
                run.case(format!("shares {}", req_tail), format!("{},{},{}", o[0][i], o[1][i], o[2][i]), true);
            } else {
                run.case(format!("reveal {}", req_tail), revealed[i].to_string(), true);
            }
            // ---- the property's oracle
            let x = xs[i];
            let rev = revealed[i];
            let inr = in_documented_range(st, x);
            let sgn = if st.is_signed() { "signed" } else { "unsigned" };
            run.oracle_case(&format!("{} {} x={} {:?}", descr, mode, x, ms), inr);
            match kind {
                "identity" => {
                    if rev != x {
                        run.oracle_fail("C05:identity:changed", format!("{} x={} got {}", descr, x, rev));
                    }
                }
                "2k" => {
                    if !inr {
                        run.count("2k:out-of-range-input(model only)");
                        continue;
                    }
                    let k = cfg.scale.trailing_zeros();
                    let q = native_floor_pow2(st, k, x);
                    let w = rev.wrapping_sub(q) & m;
                    stats.in_range_2k += 1;
                    if w == 0 {
                        stats.w0 += 1;
                    } else if w == 1 {
                        stats.w1 += 1;
                    } else {
                        run.oracle_fail(
                            &format!("C05:2k:outside-floor-or-floor+1:{}", sgn),
                            format!("{} {} x={} ({}) shares={},{},{} masks={:?} revealed {} floor {}", descr, mode, x, sext(x, s), shares[0][i], shares[1][i], shares[2][i], ms, rev, q),
                        );
                    }
                    // documented distribution of w: w = 1 exactly when the low k bits of x and of the mask r carry
                    let low = cfg.scale - 1;
                    let carry = ((x & low) + (ms[0] & low) >= cfg.scale) as u128;
                    if w <= 1 && w != carry {
                        run.oracle_fail(&format!("C05:2k:carry-condition:{}", sgn), format!("{} {} x={} r={} revealed {} floor {}", descr, mode, x, ms[0], rev, q));
                    }
                    // exact multiples must come out exact (w = 1 needs a non-zero remainder)
                    if x & (cfg.scale - 1) == 0 && w == 1 {
                        run.oracle_fail(&format!("C05:2k:exact-multiple-off:{}", sgn), format!("{} {} x={} masks={:?} revealed {} floor {}", descr, mode, x, ms, rev, q));
                    }
                    // relation to the plaintext op (rounds toward zero)
                    let dp = rev.wrapping_sub(plain[i]) & m;
                    run.count(&format!("2k:revealed-minus-plaintext:{}", if dp == 0 { "0" } else if dp == 1 { "+1" } else if dp == m { "-1" } else { "other" }));
                }
                _ => {
                    // general divisor (signed only): a = share 0, b = share1 + share2 (mod 2^s), as signed integers
                    let a = sext(shares[0][i], s);
                    let b = sext(shares[1][i].wrapping_add(shares[2][i]) & m, s);
                    let no_wrap = match a.checked_add(b) {
                        None => false,
                        Some(t) => s == 128 || (t >= -(1i128 << (s - 1)) && t < (1i128 << (s - 1))),
                    };
                    if no_wrap {
                        run.count("general:no-wrap");
                        let want = sext(x, s) / (cfg.scale as i128);
                        let got = sext(rev, s);
                        let diff = got.wrapping_sub(want);
                        run.count(&format!("general:revealed-minus-plaintext:{}", if diff.abs() <= 1 { diff.to_string() } else { "other".into() }));
                        if !(-1..=1).contains(&diff) {
                            run.oracle_fail(
                                "C05:general:error-above-one-without-wrap",
                                format!("{} {} x={} shares={},{},{} masks={:?} revealed {} plaintext {}", descr, mode, sext(x, s), shares[0][i], shares[1][i], shares[2][i], ms, got, want),
                            );
                        }
                    } else {
                        run.count("general:wrap(documented event)");
                    }
                }
            }
        }
    }
}

pub fn corr(run: &mut Run) {
    run.rule = "One-Truncate graphs: 10 integer scalar types × scales (2^k for every admissible k on narrow types, boundary + random k \
                on wide ones; scale 1; non-powers of two incl. 2^j±1, type maximum, beyond the type's range) × input owner \
                (party 0/1/2, shared, public) × output (shared, 1–3 parties) × shapes (scalar, 1–3 dims). compile_context(Simple), \
                compiled main graph evaluated node by node by one evaluator (local) or by three evaluators exchanging values only \
                at Send markers (3p). Inputs: dense boundary values of the documented range (0, ±1, ±2, range ends, ±m·scale, \
                ±m·scale±1, largest multiples, scale/2) then random; shared inputs with boundary shares; a separate out-of-range \
                stream is compared with the model only. Model request = (width, signedness, scale, three input shares, values of the \
                protocol's PRF nodes in creation order) per array element; answer = output shares or revealed value. \
                Non-trivial: every compiled case (distinct by request text); oracle cases count as non-trivial when the input is in \
                the documented range."
        .to_owned();
    let mut stats = Stats { in_range_2k: 0, w0: 0, w1: 0 };
    let p = IOStatus::Party;
    let ins_private = [p(0), p(1), p(2), IOStatus::Shared];

    // ---- stream A: 2^k, systematic over (type, k), rotating configurations
    let mut rng = run.rng("A-2k");
    let evals = run.tier.scale(3, 5);
    for st in TYPES {
        let s = st_bits(st);
        let kmax = if st.is_signed() { s - 2 } else { s - 1 };
        let mut ks: Vec<u32> = if s <= 16 || run.tier != Tier::Quick { (1..=kmax).collect() } else { vec![1, 2, 3, kmax - 2, kmax - 1, kmax] };
        if run.tier == Tier::Quick && s > 16 {
            for _ in 0..6 {
                ks.push(1 + rng.below(kmax as u64) as u32);
            }
        }
        if run.tier != Tier::Quick && s == 128 {
            // every third k plus the ends
            ks = (1..=kmax).filter(|k| k % 3 == 0 || *k <= 3 || *k + 3 >= kmax).collect();
        }
        for k in ks {
            let cfg = Cfg { st, scale: 1u128 << k, ins: rng.pick(&ins_private).clone(), outs: gen_outs(&mut rng), shape: Some(vec![8]) };
            run_cfg(run, &mut rng, &cfg, evals + 4, 1, false, &mut stats);
        }
    }
    // ---- stream B: random configurations, 2^k and scale 1
    let mut rng = run.rng("B-2k-configs");
    for _ in 0..run.tier.scale(2500, 12000) {
        let st = *rng.pick(&TYPES);
        let scale = if rng.chance(1, 12) { 1 } else { gen_scale(&mut rng, st, true) };
        let cfg = Cfg { st, scale, ins: rng.pick(&ins_private).clone(), outs: gen_outs(&mut rng), shape: gen_shape_opt(&mut rng) };
        let parties = if rng.chance(1, 2) { 3 } else { 1 };
        run_cfg(run, &mut rng, &cfg, evals, parties, false, &mut stats);
    }
    // ---- stream C: general divisors (signed accepted, unsigned rejected by the compiler)
    let mut rng = run.rng("C-general");
    for _ in 0..run.tier.scale(2500, 12000) {
        // unsigned types are rejected by the compiler for these scales: keep a small share of them
        let st = loop {
            let st = *rng.pick(&TYPES);
            if st.is_signed() || rng.chance(1, 8) {
                break st;
            }
        };
        let scale = gen_scale(&mut rng, st, false);
        let cfg = Cfg { st, scale, ins: rng.pick(&ins_private).clone(), outs: gen_outs(&mut rng), shape: gen_shape_opt(&mut rng) };
        let parties = if rng.chance(1, 2) { 3 } else { 1 };
        run_cfg(run, &mut rng, &cfg, evals + 1, parties, false, &mut stats);
    }
    // ---- stream D: public inputs
    let mut rng = run.rng("D-public");
    for _ in 0..run.tier.scale(600, 3000) {
        let st = *rng.pick(&TYPES);
        let scale = match rng.below(8) {
            0 => 1,
            1..=4 => gen_scale(&mut rng, st, true),
            _ => gen_scale(&mut rng, st, false),
        };
        let cfg = Cfg { st, scale, ins: IOStatus::Public, outs: gen_outs(&mut rng), shape: gen_shape_opt(&mut rng) };
        let parties = if rng.chance(1, 3) { 3 } else { 1 };
        let oor = rng.chance(1, 2);
        run_cfg(run, &mut rng, &cfg, evals, parties, oor, &mut stats);
    }
    // ---- stream E: inputs outside the documented range (model correspondence only)
    let mut rng = run.rng("E-out-of-range");
    for _ in 0..run.tier.scale(600, 3000) {
        let st = *rng.pick(&TYPES);
        let p2 = rng.chance(2, 3);
        let scale = gen_scale(&mut rng, st, p2);
        let cfg = Cfg { st, scale, ins: rng.pick(&ins_private).clone(), outs: gen_outs(&mut rng), shape: gen_shape_opt(&mut rng) };
        run_cfg(run, &mut rng, &cfg, evals, 1, true, &mut stats);
    }
    // ---- stream F: malformed scales (0, above i128::MAX on signed types)
    let mut rng = run.rng("F-malformed");
    for _ in 0..run.tier.scale(20, 60) {
        let st = *rng.pick(&TYPES);
        let scale = match rng.below(3) {
            0 => 0,
            1 => (1u128 << 127) + rng.below(3) as u128,
            _ => u128::MAX - rng.below(3) as u128,
        };
        let cfg = Cfg { st, scale, ins: if rng.chance(1, 2) { IOStatus::Public } else { p(rng.below(3)) }, outs: gen_outs(&mut rng), shape: None };
        run_cfg(run, &mut rng, &cfg, 1, 1, false, &mut stats);
    }
    run.count_n("2k:in-range:w=0(floor)", stats.w0);
    run.count_n("2k:in-range:w=1(floor+1)", stats.w1);
    run.notes.push(format!("2^k in-range oracle checks: {} (floor: {}, floor+1: {})", stats.in_range_2k, stats.w0, stats.w1));
}

