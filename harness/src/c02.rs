//! C02 — each party can run the protocol from its own data and the messages it receives.
//! corr: three-party executor vs plaintext result over the family generator.
use crate::c01::config_name;
use crate::families::*;
use crate::mpc_common::*;
use crate::util::*;
use ciphercore_base::graphs::JoinType;
use ciphercore_base::mpc::mpc_compiler::IOStatus;

pub fn corr(run: &mut Run) {
    run.rule = "generated source programs (same families as C01) × owner vector × output subset × inlining mode; the compiled main \
                graph is executed by three separate evaluators (own PRNG each; junk for foreign inputs and for the unheld share \
                slot; values cross only at Send(s,r) nodes) for 2 junk/tape seeds; every output party must end with the plaintext \
                result, shared outputs must be slot-consistent between neighbours and reconstruct. Non-trivial: at least one \
                private input and compile succeeded; distinct by (program, config)."
        .to_owned();
    let mut rng = run.rng("corr");
    let n = run.tier.scale(90, 900);
    // the heavy protocol families are visited deterministically first: each join type, sort
    let jts = [JoinType::Inner, JoinType::Left, JoinType::Union, JoinType::Full];
    let n_dir = run.tier.scale(8, 48);
    let n_heavy = n_dir + run.tier.scale(20, 120);
    for it in 0..(n + n_heavy) {
        let heavy = it % 10 == 0;
        let fam = match catch(|| if it < n_heavy { match it % 8 { _ if it >= n_dir => bilinear_family(&mut rng), 0..=3 => join_family(&mut rng, &jts[it % 8..it % 8 + 1]), 4 | 5 => sort_family(&mut rng), _ => assoc_iterate_family(&mut rng) } } else { gen_family(&mut rng, heavy) }) {
            Ok(Ok(f)) => f,
            _ => {
                run.count("gen:failed");
                continue;
            }
        };
        run.count(&format!("family:{}", fam.name));
        for o in &fam.ops {
            run.count(&format!("op:{}", o));
        }
        let expected = match catch(|| plain_eval(&fam.ctx, fam.inputs.clone(), [7; 16])) {
            Ok(Ok(v)) => v,
            _ => {
                run.count("plain:error");
                continue;
            }
        };
        let mut ins: Vec<IOStatus> = fam.in_types.iter().map(|_| gen_status(&mut rng)).collect();
        if fam.name == "bilinear" {
            let pr = IOStatus::Party(rng.below(3));
            ins = match rng.below(4) { 0 => vec![IOStatus::Public, pr], 1 => vec![pr, IOStatus::Public], 2 => vec![pr, IOStatus::Party(rng.below(3))], _ => vec![IOStatus::Public, IOStatus::Shared] };
        }
        let outs = gen_outputs(&mut rng);
        let mode = if fam.name == "assoc_iterate" { 1 + rng.below(2) as u8 } else { rng.below(3) as u8 };
        let cfg = config_name(&ins, &outs, mode);
        let cc = match catch(|| compile(&fam.ctx, &ins, &outs, mode)) {
            Ok(Ok(c)) => c,
            _ => {
                run.count("compile:rejected");
                continue;
            }
        };
        let private = ins.iter().any(|s| !matches!(s, IOStatus::Public));
        let descr = format!("{} [{}] {} inputs={:?}", fam.name, fam.descr, cfg, fam.inputs.iter().map(|v| format!("{:?}", crate::vals::bytes_of(v))).collect::<Vec<_>>());
        run.oracle_case(&descr, private);
        let op0 = fam.ops.first().cloned().unwrap_or_default();
        for _s in 0..2 {
            match catch(|| three_party(&cc, &ins, &fam.inputs, &mut rng)) {
                Ok(Ok(r3)) => {
                    run.count_n("sends-delivered", r3.received.iter().map(|v| v.len() as u64).sum());
                    if let Some(why) = judge3_with(&r3, &fam.out_type, &outs, &|v| fam_close(&fam, v, &expected)) {
                        run.oracle_fail(&format!("C02:3party:{}:{}", fam.name, op0), format!("{} : {}{}", descr, why, if r3.poison_sent.is_empty() { String::new() } else { format!(" (poison sent at {:?})", &r3.poison_sent[..r3.poison_sent.len().min(3)]) }));
                        break;
                    }
                }
                Ok(Err(e)) => {
                    run.oracle_fail(&format!("C02:3party-error:{}:{}", fam.name, op0), format!("{} : {}", descr, trunc(&format!("{}", e), 200)));
                    break;
                }
                Err(p) => {
                    run.oracle_fail(&format!("C02:panic:{}", fam.name), format!("{} : {}", descr, p));
                    break;
                }
            }
        }
    }
}

/// (T) export compiled graphs of a fixed corpus as Lean terms + one obligation per graph.
pub fn gen(run: &mut Run, out_dir: &str) {
    use std::fmt::Write as _;
    // The corpus is fixed (independent of VERIF_SEED): the holder analysis is a sufficient condition,
    // so the corpus is the set of program/config pairs it is known to prove on the unchanged tree.
    let mut rng = Rng::new(0xC02, "C02/gen");
    let n_graphs = run.tier.scale(24, 80);
    let max_nodes = run.tier.scale(700, 3000);
    let chunk = 4;
    let mut obligations = vec![];
    let mut files: Vec<String> = vec![];
    let mut cur = String::new();
    let mut in_cur = 0;
    let mut k = 0;
    let mut attempts = 0;
    let header = "import CCV.Model.Know\nset_option maxRecDepth 1000000\nnamespace CCV.Generated.C02\nopen CCV.Know\n\n";
    // the first graphs of the corpus are directed: one of each protocol family (so that every
    // sub-protocol's Send pattern is in the kernel-checked part), then the random mix
    let directed: [&str; 8] = ["truncate", "truncate-general", "conversion", "compare", "sort", "join", "bilinear", "mixed"];
    let mut dir_pos = 0usize;
    let mut dir_tries = 0usize;
    while k < n_graphs && attempts < n_graphs * 20 + 400 {
        attempts += 1;
        let want: Option<&str> = if dir_pos < directed.len() { Some(directed[dir_pos]) } else { None };
        if want.is_some() {
            dir_tries += 1;
            if dir_tries > 60 {
                run.count(&format!("gen:directed-not-found:{}", directed[dir_pos]));
                dir_pos += 1;
                dir_tries = 0;
                continue;
            }
        }
        let fam = match catch(|| match want {
            Some("truncate") | Some("truncate-general") => truncate_family(&mut rng),
            Some("conversion") => conversion_family(&mut rng),
            Some("compare") => compare_family(&mut rng),
            Some("sort") => sort_family(&mut rng),
            Some("join") => join_family(&mut rng, &[ciphercore_base::graphs::JoinType::Inner, ciphercore_base::graphs::JoinType::Left]),
            Some("bilinear") => bilinear_family(&mut rng),
            Some("mixed") => tensor_family(&mut rng, 5),
            _ => gen_family(&mut rng, false),
        }) {
            Ok(Ok(f)) => f,
            _ => continue,
        };
        match want {
            Some("truncate") if !fam.descr.starts_with("2^k") => continue,
            Some("truncate-general") if !fam.descr.starts_with("general") => continue,
            Some("mixed") if !fam.ops.iter().any(|o| o == "MixedMultiply") => continue,
            _ => {}
        }
        let ins: Vec<IOStatus> = fam.in_types.iter().map(|_| gen_status(&mut rng)).collect();
        let outs = gen_outputs(&mut rng);
        let mode = rng.below(3) as u8;
        if ins.iter().all(|s| matches!(s, IOStatus::Public)) {
            continue;
        }
        let cc = match catch(|| compile(&fam.ctx, &ins, &outs, mode)) {
            Ok(Ok(c)) => c,
            _ => continue,
        };
        let (ir, out) = match cc.get_main_graph().and_then(|g| ir_of_graph(&g)) {
            Ok(x) => x,
            _ => continue,
        };
        if ir.len() > max_nodes {
            continue;
        }
        let ex = export_know(&ir, out);
        let name = format!("g{}", k);
        let cfg = config_name(&ins, &outs, mode);
        writeln!(cur, "/-- {} [{}] {} : {} nodes, {} sends -/", fam.name, fam.descr.replace("-/", ""), cfg, ex.n_nodes, ex.n_sends).unwrap();
        writeln!(cur, "def {} : List Node := [\n{}]", name, ex.nodes_lean).unwrap();
        writeln!(cur, "def {}_inStat : Nat → HT := fun i => statusHT ([{}].getD i 3)", name, ins.iter().map(|s| status_code(s).to_string()).collect::<Vec<_>>().join(", ")).unwrap();
        writeln!(cur, "def {}_owner : Nat → Nat := fun r => [{}].getD r 0", name, ex.owners.iter().map(|o| o.to_string()).collect::<Vec<_>>().join(", ")).unwrap();
        if outs.is_empty() {
            writeln!(cur, "theorem {}_ok : okSharedT {}_inStat {}_owner {} {} = true := by decide +kernel\n", name, name, name, name, ex.out).unwrap();
        } else {
            let has = |p: u64| outs.iter().any(|o| *o == IOStatus::Party(p));
            writeln!(cur, "theorem {}_ok : okRevealedT {}_inStat {}_owner {} {} ⟨{}, {}, {}⟩ = true := by decide +kernel\n", name, name, name, name, ex.out, has(0), has(1), has(2)).unwrap();
        }
        obligations.push(serde_json::json!({"name": format!("CCV.Generated.C02.{}_ok", name),
            "says": format!("holder analysis accepts the compiled graph of {} [{}] {} ({} nodes, {} sends)", fam.name, fam.descr, cfg, ex.n_nodes, ex.n_sends)}));
        run.count(&format!("gen:family:{}", fam.name));
        run.count_n("gen:nodes", ex.n_nodes as u64);
        if want.is_some() {
            run.count(&format!("gen:directed:{}", directed[dir_pos]));
            dir_pos += 1;
            dir_tries = 0;
        }
        k += 1;
        in_cur += 1;
        if in_cur == chunk {
            files.push(std::mem::take(&mut cur));
            in_cur = 0;
        }
    }
    if in_cur > 0 {
        files.push(cur);
    }
    let mut imports = String::new();
    for (i, body) in files.iter().enumerate() {
        std::fs::write(format!("{}/C02_{}.lean", out_dir, i), format!("{}{}end CCV.Generated.C02\n", header, body)).expect("write generated");
        imports += &format!("import CCV.Generated.C02_{}\n", i);
    }
    // remove stale chunks
    for i in files.len()..200 {
        let _ = std::fs::remove_file(format!("{}/C02_{}.lean", out_dir, i));
    }
    std::fs::write(format!("{}/C02.lean", out_dir), imports).expect("write generated");
    std::fs::write(format!("{}/C02_obligations.json", out_dir), serde_json::to_string_pretty(&obligations).unwrap()).expect("write obligations");
    println!("generated {} graphs in {} files", k, files.len());
}
