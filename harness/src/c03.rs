//! C03 — a party's view reveals nothing beyond its own inputs and outputs.
//! corr: bit-typed source programs are compiled; the compiled main graph is interpreted over GF(2)
//! with every PRF output idealised as an independent uniform bit (one variable per (key, counter));
//! for every observer party the multiset of views over ALL tapes is compared for every pair of
//! assignments of the other parties' private inputs that give the observer the same output.
//! The GF(2) interpreter is cross-checked against the real evaluator on every program.
use crate::c01::config_name;
use crate::mpc_common::*;
use crate::util::*;
use ciphercore_base::data_types::*;
use ciphercore_base::data_values::Value;
use ciphercore_base::graphs::Operation;
use ciphercore_base::mpc::mpc_compiler::IOStatus;
use ciphercore_base::random::PRNG;
use std::collections::HashMap;

#[derive(Clone, Debug)]
enum B {
    Input(usize),
    /// idealised PRF output / Random bit: tape variable
    Tape(usize),
    /// PRF key (Random of key type): carries the index of the Random node
    Key(usize),
    Nop(usize),
    Xor(usize, usize),
    And(usize, usize),
    Const(bool),
    Tuple(Vec<usize>),
    TupleGet(usize, usize),
}

struct BitGraph {
    nodes: Vec<B>,
    sends: Vec<Vec<(u64, u64)>>,
    out: usize,
    n_tape: usize,
    /// tape variable -> key Random node index (None for Random bit nodes), for "who knows it"
    tape_key: Vec<Option<usize>>,
    /// tape variable of each PRF node id
    prf_nodes: Vec<(usize, usize)>,
}

fn key_of(nodes: &[B], mut i: usize) -> Option<usize> {
    loop {
        match &nodes[i] {
            B::Key(k) => return Some(*k),
            B::Nop(j) => i = *j,
            _ => return None,
        }
    }
}

fn to_bitgraph(ir: &[IrNode], out: u64) -> Option<BitGraph> {
    let mut nodes = vec![];
    let mut sends = vec![];
    let mut vars: HashMap<(usize, u64), usize> = HashMap::new();
    let mut tape_key = vec![];
    let mut prf_nodes = vec![];
    let mut input_id = 0;
    let bit_scalar = |t: &Type| matches!(t, Type::Scalar(st) if *st == BIT);
    for (i, n) in ir.iter().enumerate() {
        let d = |j: usize| n.deps[j] as usize;
        let b = match &n.op {
            Operation::Input(t) => {
                if !bit_scalar(t) {
                    return None;
                }
                input_id += 1;
                B::Input(input_id - 1)
            }
            Operation::Random(t) => {
                if *t == array_type(vec![128], BIT) {
                    B::Key(i)
                } else if bit_scalar(t) {
                    tape_key.push(None);
                    B::Tape(tape_key.len() - 1)
                } else {
                    return None;
                }
            }
            Operation::NOP => B::Nop(d(0)),
            Operation::PRF(iv, t) => {
                if !bit_scalar(t) {
                    return None;
                }
                let k = key_of(&nodes, d(0))?;
                let next = tape_key.len();
                let v = *vars.entry((k, *iv)).or_insert(next);
                if v == next {
                    tape_key.push(Some(k));
                }
                prf_nodes.push((i, v));
                B::Tape(v)
            }
            Operation::Add | Operation::Subtract => B::Xor(d(0), d(1)),
            Operation::Multiply | Operation::MixedMultiply => B::And(d(0), d(1)),
            Operation::Zeros(_) => B::Const(false),
            Operation::Ones(_) => B::Const(true),
            Operation::Constant(t, v) => {
                if !bit_scalar(t) {
                    return None;
                }
                B::Const(crate::vals::bytes_of(v).first().map(|b| b & 1 == 1).unwrap_or(false))
            }
            Operation::CreateTuple => B::Tuple(n.deps.iter().map(|x| *x as usize).collect()),
            Operation::TupleGet(j) => B::TupleGet(d(0), *j as usize),
            _ => return None,
        };
        nodes.push(b);
        sends.push(n.sends.clone());
    }
    Some(BitGraph { nodes, sends, out: out as usize, n_tape: tape_key.len(), tape_key, prf_nodes })
}

#[derive(Clone, PartialEq, Eq, Hash, Debug)]
enum BV {
    Bit(bool),
    Key,
    Tup(Vec<BV>),
}

impl BV {
    fn bit(&self) -> bool {
        matches!(self, BV::Bit(true))
    }
    fn flat(&self, out: &mut Vec<bool>) {
        match self {
            BV::Bit(b) => out.push(*b),
            BV::Key => {}
            BV::Tup(v) => v.iter().for_each(|x| x.flat(out)),
        }
    }
}

/// one-evaluator interpretation: values of all nodes
fn interp(g: &BitGraph, inputs: &[bool], tape: u64) -> Vec<BV> {
    let mut vals: Vec<BV> = Vec::with_capacity(g.nodes.len());
    for n in &g.nodes {
        let v = match n {
            B::Input(i) => BV::Bit(inputs[*i]),
            B::Tape(v) => BV::Bit((tape >> v) & 1 == 1),
            B::Key(_) => BV::Key,
            B::Nop(j) => vals[*j].clone(),
            B::Xor(a, b) => BV::Bit(vals[*a].bit() ^ vals[*b].bit()),
            B::And(a, b) => BV::Bit(vals[*a].bit() & vals[*b].bit()),
            B::Const(c) => BV::Bit(*c),
            B::Tuple(d) => BV::Tup(d.iter().map(|x| vals[*x].clone()).collect()),
            B::TupleGet(a, j) => match &vals[*a] {
                BV::Tup(v) => v.get(*j).cloned().unwrap_or(BV::Bit(false)),
                x => x.clone(),
            },
        };
        vals.push(v);
    }
    vals
}

/// which parties hold each key (owner = first sender on the NOP chain, plus receivers)
fn key_holders(g: &BitGraph) -> HashMap<usize, [bool; 3]> {
    let mut h: HashMap<usize, [bool; 3]> = HashMap::new();
    for (i, n) in g.nodes.iter().enumerate() {
        if let B::Key(k) = n {
            h.insert(*k, [false; 3]);
            let _ = i;
        }
    }
    // NOP chains with sends
    for (i, n) in g.nodes.iter().enumerate() {
        if let B::Nop(_) = n {
            if let Some(k) = key_of(&g.nodes, i) {
                let e = h.entry(k).or_insert([false; 3]);
                for (s, r) in &g.sends[i] {
                    e[*s as usize] = true;
                    e[*r as usize] = true;
                }
            }
        }
    }
    for (_, e) in h.iter_mut() {
        if !e.iter().any(|x| *x) {
            e[0] = true;
        }
    }
    h
}

pub fn corr(run: &mut Run) {
    run.rule = "bit-typed straight-line programs (1-3 scalar inputs, 1-3 operations of xor/and, constants) × owner vector in \
                {0,1,2,public}^n × output subset × 3 inlining modes: the compiled main graph is interpreted over GF(2) with one \
                independent uniform tape bit per distinct (PRF key, counter) (and per Random bit node); for each observer party \
                p the multiset over ALL tapes of (messages delivered to p at Send(_,p) nodes, PRF values whose key p holds) is \
                compared between every two assignments of the private inputs p does not own that leave p's output unchanged \
                (p not an output party: all assignments). Exhaustive in tapes and inputs per program. The interpreter is \
                cross-checked node by node against SimpleEvaluator. Non-trivial: at least one private input not owned by the observer."
        .to_owned();
    let mut rng = run.rng("views");
    let n_prog = run.tier.scale(500, 2500);
    let max_tape = run.tier.scale(13, 16) as usize;
    let mut done = 0;
    let mut attempts = 0;
    while done < n_prog && attempts < n_prog * 20 {
        attempts += 1;
        // bit program
        let n_in = 1 + rng.below(3) as usize;
        let mut ops: Vec<AOp> = (0..n_in).map(|_| AOp::Input).collect();
        let n_ops = 1 + rng.below(3) as usize;
        for k in 0..n_ops {
            let n = ops.len();
            let a = if rng.chance(1, 2) { n - 1 } else { rng.below(n as u64) as usize };
            let b = rng.below(n as u64) as usize;
            ops.push(match rng.below(6) {
                0 if k + 1 < n_ops => AOp::Const(rng.below(2) as i64),
                1 | 2 => AOp::Add(a, b),
                _ => AOp::Mul(a, b),
            });
        }
        if matches!(ops.last(), Some(AOp::Const(_))) {
            continue;
        }
        // sometimes the output is a tuple of two nodes (e.g. a product together with one of its factors)
        let out_tuple = if rng.chance(1, 3) {
            let n = ops.len();
            let a = n - 1;
            let b = rng.below(n as u64) as usize;
            if rng.chance(1, 2) { vec![a, b] } else { vec![b, a] }
        } else {
            vec![]
        };
        let prog = AProg { st: BIT, shape: vec![], ops, out_tuple };
        let ctx = match prog.build() {
            Ok(c) => c,
            Err(_) => continue,
        };
        let ins: Vec<IOStatus> = (0..n_in).map(|_| match rng.below(5) { 0 => IOStatus::Public, x => IOStatus::Party(x % 3) }).collect();
        let outs = gen_outputs(&mut rng);
        let mode = rng.below(3) as u8;
        let cc = match catch(|| compile(&ctx, &ins, &outs, mode)) {
            Ok(Ok(c)) => c,
            _ => continue,
        };
        let (ir, out) = match cc.get_main_graph().and_then(|g| ir_of_graph(&g)) {
            Ok(x) => x,
            _ => continue,
        };
        let g = match to_bitgraph(&ir, out) {
            Some(g) => g,
            None => {
                run.count("outside-fragment");
                continue;
            }
        };
        if g.n_tape > max_tape {
            run.count("too-many-tape-bits");
            continue;
        }
        let descr = format!("{} ; {} ; {} nodes, {} tape bits", prog.describe(), config_name(&ins, &outs, mode), ir.len(), g.n_tape);
        // cross-check the interpreter against the real evaluator (one run)
        {
            let inputs_b: Vec<bool> = (0..n_in).map(|_| rng.chance(1, 2)).collect();
            let inputs_v: Vec<Value> = inputs_b.iter().map(|b| Value::from_scalar(*b as u8, BIT).unwrap()).collect();
            let r = catch(|| -> ciphercore_base::errors::Result<Vec<Value>> {
                let mut prng = PRNG::new(Some(rng.clone().seed16()))?;
                let types: Vec<Type> = vec![scalar_type(BIT); n_in];
                let gin = global_inputs(&ins, &types, &inputs_v, &mut prng)?;
                global_run(&cc, gin, rng.clone().seed16())
            });
            match r {
                Ok(Ok(vals)) => {
                    let mut tape = 0u64;
                    for (node, var) in &g.prf_nodes {
                        if crate::vals::bytes_of(&vals[*node]).first().map(|b| b & 1 == 1).unwrap_or(false) {
                            tape |= 1 << var;
                        }
                    }
                    for (i, n) in g.nodes.iter().enumerate() {
                        if let B::Tape(v) = n {
                            if g.tape_key[*v].is_none() && crate::vals::bytes_of(&vals[i]).first().map(|b| b & 1 == 1).unwrap_or(false) {
                                tape |= 1 << v;
                            }
                        }
                    }
                    let mine = interp(&g, &inputs_b, tape);
                    for (i, v) in mine.iter().enumerate() {
                        if let BV::Bit(b) = v {
                            let real = crate::vals::bytes_of(&vals[i]).first().map(|x| x & 1 == 1).unwrap_or(false);
                            if *b != real {
                                run.oracle_fail("C03:interpreter-mismatch", format!("{} : node {} ({}) real {} interpreted {} — two PRF nodes with equal (key,counter) gave different values, or the GF(2) interpreter misreads the graph", descr, i, op_tag(&ir[i].op), real, b));
                                break;
                            }
                        }
                    }
                    run.count("interpreter-crosschecked");
                }
                _ => {
                    run.oracle_fail("C03:eval-error", format!("{} : compiled graph does not evaluate", descr));
                    continue;
                }
            }
        }
        let holders = key_holders(&g);
        done += 1;
        run.count(&format!("tape-bits:{}", g.n_tape));
        // enumerate
        for p in 0..3usize {
            let is_out = outs.iter().any(|o| *o == IOStatus::Party(p as u64));
            // inputs the observer does not know
            let hidden: Vec<usize> = (0..n_in).filter(|i| matches!(&ins[*i], IOStatus::Party(o) if *o as usize != p)).collect();
            if hidden.is_empty() {
                continue;
            }
            let known_tape: Vec<usize> = (0..g.n_tape).filter(|v| match g.tape_key[*v] { Some(k) => holders.get(&k).map(|h| h[p]).unwrap_or(false), None => false }).collect();
            let recv_nodes: Vec<usize> = (0..g.nodes.len()).filter(|i| g.sends[*i].iter().any(|(_, r)| *r as usize == p)).collect();
            run.count(&format!("observer:{}", if is_out { "output-party" } else { "non-recipient" }));
            // fixed values for inputs the observer knows (two variants)
            for fixed in 0..2u64 {
                let mut dists: Vec<(Vec<bool>, Vec<bool>, HashMap<Vec<bool>, u32>)> = vec![];
                for h in 0..(1u64 << hidden.len()) {
                    let mut inputs_b = vec![false; n_in];
                    for i in 0..n_in {
                        inputs_b[i] = (fixed.wrapping_mul(0x9E37) >> i) & 1 == 1;
                    }
                    for (j, i) in hidden.iter().enumerate() {
                        inputs_b[*i] = (h >> j) & 1 == 1;
                    }
                    let mut dist: HashMap<Vec<bool>, u32> = HashMap::new();
                    let mut outv: Vec<bool> = vec![];
                    for tape in 0..(1u64 << g.n_tape) {
                        let vals = interp(&g, &inputs_b, tape);
                        let mut view: Vec<bool> = vec![];
                        for r in &recv_nodes {
                            vals[*r].flat(&mut view);
                        }
                        for v in &known_tape {
                            view.push((tape >> v) & 1 == 1);
                        }
                        *dist.entry(view).or_insert(0) += 1;
                        if tape == 0 {
                            // revealed output value (only used when the observer is an output party,
                            // in which case the output node carries the revealed value)
                            let mut f = vec![];
                            vals[g.out].flat(&mut f);
                            outv = f;
                        }
                    }
                    dists.push((inputs_b, outv, dist));
                }
                run.oracle_case(&format!("{} observer {} fixed {}", descr, p, fixed), true);
                run.count_n("view-evaluations", (dists.len() as u64) << g.n_tape);
                'pairs: for a in 0..dists.len() {
                    for b in (a + 1)..dists.len() {
                        if is_out && dists[a].1 != dists[b].1 {
                            continue;
                        }
                        if dists[a].2 != dists[b].2 {
                            run.oracle_fail(
                                &format!("C03:view-distribution:{}", if is_out { "output-party" } else { "non-recipient" }),
                                format!("{} : observer party {} distinguishes inputs {:?} from {:?} (same own inputs{}): the distributions of its view over all {} tapes differ; received at nodes {:?}", descr, p, dists[a].0, dists[b].0, if is_out { " and same output" } else { "" }, 1u64 << g.n_tape, recv_nodes),
                            );
                            break 'pairs;
                        }
                    }
                }
            }
        }
    }
    run.extra.insert("programs".into(), serde_json::json!(done));
    discipline_stream(run);
    run.rule.push_str(" | discipline: mask-discipline certificates searched for arithmetic / tensor / truncate programs (also pre-shared inputs). Leak searches (sound: nothing is reported unless constant under both secrets with different constants, different tapes per secret): ±1 combinations of ≤4 values a non-recipient can compute (16+16 tapes); quotients of opened permutations of compiled sorts (8+8 tapes); choice-bit predicates [F=0]=β for integer×bit MixedMultiply (16+16 tapes).");
    leak_stream(run);
    perm_leak_stream(run);
    ot_leak_stream(run);
}

// ------------------------------------------------------------------------------------------------
// Stream D: the mask ("pivot") discipline on compiled graphs of ANY scalar type and shape.
// CCV.C03.pivot_discipline_hides proves: if the messages delivered to a party can be ordered so that
// each carries a pivot mask with coefficient ±1 that no earlier message depends on, the party's view is
// identically distributed for all secrets.  Here the hypotheses are established syntactically on the
// graph the compiler emits: a message is flattened through NOP/Add/Subtract nodes of its own type into
// signed leaves; a pivot is a leaf that is a PRF (or foreign Random) node whose variable the observer
// does not know and that occurs in the dependency cone of no other leaf of that message.
// ------------------------------------------------------------------------------------------------

use crate::families::*;
use std::collections::BTreeSet;

struct Cones {
    /// unknown tape variables in the cone of each node
    vars: Vec<BTreeSet<usize>>,
    /// depends on an input the observer does not know
    hidden: Vec<bool>,
    /// tape variable carried by the node itself (PRF with unknown key / foreign Random), if any
    own: Vec<Option<usize>>,
}

fn ir_key_of(ir: &[IrNode], mut i: usize) -> Option<usize> {
    loop {
        match &ir[i].op {
            Operation::Random(t) if *t == array_type(vec![128], BIT) => return Some(i),
            Operation::NOP => i = ir[i].deps[0] as usize,
            _ => return None,
        }
    }
}

fn ir_key_holders(ir: &[IrNode]) -> HashMap<usize, [bool; 3]> {
    let mut h: HashMap<usize, [bool; 3]> = HashMap::new();
    for (i, n) in ir.iter().enumerate() {
        if matches!(&n.op, Operation::Random(t) if *t == array_type(vec![128], BIT)) {
            h.insert(i, [false; 3]);
        }
    }
    for (i, n) in ir.iter().enumerate() {
        if matches!(n.op, Operation::NOP) {
            if let Some(k) = ir_key_of(ir, i) {
                let e = h.entry(k).or_insert([false; 3]);
                for (s, r) in &n.sends {
                    e[*s as usize] = true;
                    e[*r as usize] = true;
                }
            }
        }
    }
    h
}

fn cones(ir: &[IrNode], ins: &[IOStatus], p: usize) -> Option<Cones> {
    let holders = ir_key_holders(ir);
    let mut var_ids: HashMap<(usize, u64), usize> = HashMap::new();
    let mut n_vars = 0;
    let mut vars: Vec<BTreeSet<usize>> = vec![];
    let mut hidden = vec![];
    let mut own = vec![];
    let mut input_id = 0;
    let mut shared_inputs: std::collections::HashSet<usize> = std::collections::HashSet::new();
    for (i, n) in ir.iter().enumerate() {
        let mut v: BTreeSet<usize> = BTreeSet::new();
        let mut h = false;
        let mut o = None;
        for d in &n.deps {
            v.extend(vars[*d as usize].iter().cloned());
            h |= hidden[*d as usize];
        }
        match &n.op {
            Operation::Input(_) => {
                let st = &ins[input_id];
                input_id += 1;
                h = match st {
                    IOStatus::Public => false,
                    IOStatus::Party(o) => *o as usize != p,
                    IOStatus::Shared => {
                        shared_inputs.insert(i);
                        true
                    }
                };
            }
            // a pre-shared input is a tuple of three shares; party p holds shares p and p+1 (mod 3)
            Operation::TupleGet(j) if shared_inputs.contains(&(n.deps[0] as usize)) => {
                h = !share_held(p, *j);
            }
            Operation::PRF(iv, _) | Operation::PermutationFromPRF(iv, _) => {
                let k = ir_key_of(ir, n.deps[0] as usize)?;
                let known = holders.get(&k).map(|x| x[p]).unwrap_or(false);
                if !known {
                    let id = *var_ids.entry((k, *iv)).or_insert_with(|| {
                        n_vars += 1;
                        n_vars - 1
                    });
                    v = BTreeSet::new();
                    v.insert(id);
                    o = Some(id);
                } else {
                    v = BTreeSet::new();
                }
                h = false;
            }
            Operation::Random(_) => {
                // PRF keys carry no ring value; any other Random node is treated as KNOWN to every
                // observer (it can never serve as a pivot): which party draws it is not recorded in
                // the graph, and a value the observer drew itself is no mask for it.
            }
            _ => {}
        }
        vars.push(v);
        hidden.push(h);
        own.push(o);
    }
    Some(Cones { vars, hidden, own })
}

/// party p holds shares p and p+1 (mod 3) of a replicated sharing
fn share_held(p: usize, j: u64) -> bool {
    j as usize == p || j as usize == (p + 1) % 3
}

fn flatten(ir: &[IrNode], n: usize, neg: bool, ty: &Type, out: &mut Vec<(bool, usize)>) {
    let same = |d: u64| ir[d as usize].ty == *ty;
    match &ir[n].op {
        Operation::NOP if same(ir[n].deps[0]) => flatten(ir, ir[n].deps[0] as usize, neg, ty, out),
        Operation::Add if same(ir[n].deps[0]) && same(ir[n].deps[1]) => {
            flatten(ir, ir[n].deps[0] as usize, neg, ty, out);
            flatten(ir, ir[n].deps[1] as usize, neg, ty, out);
        }
        Operation::Subtract if same(ir[n].deps[0]) && same(ir[n].deps[1]) => {
            flatten(ir, ir[n].deps[0] as usize, neg, ty, out);
            flatten(ir, ir[n].deps[1] as usize, !neg, ty, out);
        }
        _ => out.push((neg, n)),
    }
}

/// Some(certificate description) if the discipline holds for observer p, None otherwise
pub struct Certificate {
    /// (message node, pivot tape variable), LAST message first
    pub pivoted: Vec<(usize, usize)>,
    pub computable: Vec<usize>,
    /// reveal messages (output recipients only): unmasked messages claimed to be determined by the output and the rest of the view
    pub reveals: Vec<usize>,
}

fn discipline_for(ir: &[IrNode], ins: &[IOStatus], p: usize) -> std::result::Result<Certificate, String> {
    discipline_with(ir, ins, p, false)
}

fn discipline_with(ir: &[IrNode], ins: &[IOStatus], p: usize, recipient: bool) -> std::result::Result<Certificate, String> {
    let c = cones(ir, ins, p).ok_or_else(|| "PRF key is not a Random/NOP chain".to_owned())?;
    // messages delivered to p
    let mut msgs: Vec<usize> = vec![];
    for (i, n) in ir.iter().enumerate() {
        if n.sends.iter().any(|(_, r)| *r as usize == p) {
            msgs.push(i);
        }
    }
    let mut computable: Vec<usize> = vec![];
    let mut reveals: Vec<usize> = vec![];
    // (message, candidate pivots)
    let mut open: Vec<(usize, Vec<usize>)> = vec![];
    for m in msgs {
        if c.vars[m].is_empty() && !c.hidden[m] {
            computable.push(m);
            continue;
        }
        if matches!(ir[m].ty, Type::Tuple(_) | Type::Vector(_, _) | Type::NamedTuple(_)) {
            return Err(format!("message node {} is a tuple", m));
        }
        let mut leaves = vec![];
        flatten(ir, m, false, &ir[m].ty, &mut leaves);
        let mut cands = vec![];
        for (li, (_, leaf)) in leaves.iter().enumerate() {
            if let Some(v) = c.own[*leaf] {
                if ir[*leaf].ty != ir[m].ty {
                    continue;
                }
                let elsewhere = leaves.iter().enumerate().any(|(lj, (_, other))| lj != li && c.vars[*other].contains(&v));
                if !elsewhere {
                    cands.push(v);
                }
            }
        }
        if recipient && cands.is_empty() {
            // no mask at all: can only be justified as a reveal message (the Lean checker decides)
            reveals.push(m);
            continue;
        }
        open.push((m, cands));
    }
    let mut pivoted: Vec<(usize, usize)> = vec![];
    // order search: pick the LAST message among the remaining ones
    while !open.is_empty() {
        let mut pick = None;
        'outer: for (i, (_, cands)) in open.iter().enumerate() {
            for v in cands {
                if open.iter().enumerate().all(|(j, (m2, _))| j == i || !c.vars[*m2].contains(v)) {
                    pick = Some((i, *v));
                    break 'outer;
                }
            }
        }
        match pick {
            Some((i, v)) => {
                pivoted.push((open[i].0, v));
                open.remove(i);
            }
            None if recipient => {
                // stuck: the latest remaining message is claimed to be a reveal message (its mask is shared
                // with another message, as for the missing output share z + (f − f')); Lean decides
                let (i, _) = open.iter().enumerate().max_by_key(|(_, (m, _))| *m).unwrap();
                reveals.push(open[i].0);
                open.remove(i);
            }
            None => {
                let (m, cands) = &open[0];
                let all: Vec<String> = open.iter().filter(|(_, cands)| cands.is_empty()).take(6).map(|(m, cands)| format!("{}:{:?}/{:?}", m, cands, c.vars[*m])).collect();
                return Err(format!("no admissible pivot: e.g. message node {} ({}) has candidate masks {:?}, unknown masks in its cone {:?}, depends on hidden input: {}; stuck messages (node:candidates/cone) {}", m, op_tag(&ir[*m].op), cands, c.vars[*m], c.hidden[*m], all.join(" ")));
            }
        }
    }
    Ok(Certificate { pivoted, computable, reveals })
}

fn shared_input_nodes(ir: &[IrNode], ins: &[IOStatus]) -> Vec<usize> {
    let mut v = vec![];
    let mut input_id = 0;
    for (i, n) in ir.iter().enumerate() {
        if let Operation::Input(_) = &n.op {
            if matches!(ins[input_id], IOStatus::Shared) {
                v.push(i);
            }
            input_id += 1;
        }
    }
    v
}

/// the compiled graph as `List CCV.Mask.Node`, classified for observer p
fn export_mask(ir: &[IrNode], ins: &[IOStatus], p: usize) -> Option<(String, String, String)> {
    let mut ty_tags: Vec<String> = vec![];
    let mut tys: Vec<usize> = vec![];
    let mut vty: Vec<Option<usize>> = vec![];
    let c = cones(ir, ins, p)?;
    let holders = ir_key_holders(ir);
    let mut s = String::new();
    let mut input_id = 0;
    let mut known_id = 0;
    let mut tags: Vec<String> = vec![];
    for (i, n) in ir.iter().enumerate() {
        // type tag of the node
        let tkey = format!("{:?}", n.ty);
        let tt = match ty_tags.iter().position(|t| *t == tkey) {
            Some(x) => x,
            None => {
                ty_tags.push(tkey);
                ty_tags.len() - 1
            }
        };
        tys.push(tt);
        if let Some(v) = c.own[i] {
            if vty.len() <= v {
                vty.resize(v + 1, None);
            }
            if vty[v].is_none() {
                vty[v] = Some(tt);
            }
        }
        let same = |d: u64| ir[d as usize].ty == n.ty;
        let mut deps: Vec<u64> = n.deps.clone();
        let kind = match &n.op {
            Operation::Input(_) => {
                input_id += 1;
                deps.clear();
                if c.hidden[i] { format!(".hid {}", input_id - 1) } else { format!(".own {}", input_id - 1) }
            }
            Operation::PRF(_, _) | Operation::PermutationFromPRF(_, _) => {
                deps.clear();
                match c.own[i] {
                    Some(v) => format!(".tapeU {}", v),
                    None => {
                        // known mask: identified by (key node, counter)
                        let k = ir_key_of(ir, n.deps[0] as usize)?;
                        let _ = holders.get(&k);
                        known_id += 1;
                        format!(".tapeK {}", 1_000_000 * (k + 1) + match &n.op { Operation::PRF(iv, _) | Operation::PermutationFromPRF(iv, _) => *iv as usize, _ => 0 } + 0 * known_id)
                    }
                }
            }
            Operation::Random(_) => {
                deps.clear();
                format!(".tapeK {}", 900_000_000 + i)
            }
            // share j of a pre-shared input: a leaf the observer holds (own) or does not hold (hidden)
            Operation::TupleGet(j) if matches!(ir[n.deps[0] as usize].op, Operation::Input(_)) && matches!(ir[n.deps[0] as usize].ty, Type::Tuple(_)) && c.hidden[n.deps[0] as usize] && shared_input_nodes(ir, ins).contains(&(n.deps[0] as usize)) => {
                let src = n.deps[0] as usize;
                deps.clear();
                if share_held(p, *j) { format!(".own {}", 1000 + 3 * src + *j as usize) } else { format!(".hid {}", 1000 + 3 * src + *j as usize) }
            }
            Operation::NOP if same(n.deps[0]) => ".nop".to_owned(),
            Operation::Add if same(n.deps[0]) && same(n.deps[1]) => ".add".to_owned(),
            Operation::Subtract if same(n.deps[0]) && same(n.deps[1]) => ".sub".to_owned(),
            op => {
                // the tag identifies operation AND result type (one tag, one type)
                let key = format!("{:?} : {:?}", op, n.ty);
                let tag = match tags.iter().position(|t| *t == key) {
                    Some(x) => x,
                    None => {
                        tags.push(key);
                        tags.len() - 1
                    }
                };
                format!(".op {}", tag)
            }
        };
        s += &format!("  ⟨{}, [{}]⟩{}\n", kind, deps.iter().map(|d| d.to_string()).collect::<Vec<_>>().join(", "), if i + 1 == ir.len() { "" } else { "," });
    }
    let tys_s = tys.iter().map(|t| t.to_string()).collect::<Vec<_>>().join(", ");
    let vty_s = vty.iter().map(|t| t.unwrap_or(0).to_string()).collect::<Vec<_>>().join(", ");
    Some((s, tys_s, vty_s))
}

pub fn discipline_stream(run: &mut Run) {
    let mut rng = run.rng("discipline");
    let n = run.tier.scale(120, 1500);
    for it in 0..n {
        let fam = match catch(|| match it % 8 { 0 | 3 => tensor_family(&mut rng, 4), 5 => truncate_family(&mut rng), 6 => conversion_family(&mut rng), 7 => compare_family(&mut rng), _ => arith_family(&mut rng, 6) }) {
            Ok(Ok(f)) => f,
            _ => continue,
        };
        let ins: Vec<IOStatus> = fam.in_types.iter().map(|_| gen_status(&mut rng)).collect();
        // pre-shared inputs: the two shares the observer holds are its own inputs, the third is hidden
        let outs = gen_outputs(&mut rng);
        let mode = rng.below(3) as u8;
        let cc = match catch(|| compile(&fam.ctx, &ins, &outs, mode)) {
            Ok(Ok(c)) => c,
            _ => continue,
        };
        let (ir, _out) = match cc.get_main_graph().and_then(|g| ir_of_graph(&g)) {
            Ok(x) => x,
            _ => continue,
        };
        let descr = format!("{} [{}] {}", fam.name, fam.descr, config_name(&ins, &outs, mode));
        for p in 0..3usize {
            if outs.iter().any(|o| *o == IOStatus::Party(p as u64)) {
                continue; // recipients: reveal messages are handled by the enumeration stream
            }
            if !ins.iter().any(|s| matches!(s, IOStatus::Shared) || matches!(s, IOStatus::Party(o) if *o as usize != p)) {
                continue;
            }
            run.oracle_case(&format!("discipline {} observer {}", descr, p), true);
            match discipline_for(&ir, &ins, p) {
                Ok(cert) => {
                    run.count(&format!("discipline:proved:{}", fam.name));
                    run.count_n("discipline:messages-computable", cert.computable.len() as u64);
                    run.count_n("discipline:messages-pivoted", cert.pivoted.len() as u64);
                }
                Err(why) => {
                    if fam.name == "arith" || fam.name == "truncate" || fam.ops.iter().all(|o| ["Add", "Subtract", "Multiply", "Sum", "Get", "GetSlice", "Reshape", "PermuteAxes", "Stack", "Concatenate", "CumSum", "CreateTuple/TupleGet", "Matmul", "Dot", "Gemm"].contains(&o.as_str())) {
                        run.oracle_fail(&format!("C03:mask-discipline:{}", fam.name), format!("{} : observer party {} (not an output party): {}", descr, p, why));
                    } else {
                        run.count(&format!("discipline:unknown:{}:{}", fam.name, why.split(':').next().unwrap_or("").chars().take(24).collect::<String>()));
                        if std::env::var("CCV_C03_WHY").is_ok() {
                            eprintln!("WHY {} observer {} : {}", descr, p, why);
                        }
                    }
                }
            }
        }
    }
}


// ------------------------------------------------------------------------------------------------
// Search for a concrete leak (failing input) on arithmetic graphs: a ±1 combination of at most four
// entries of a NON-RECIPIENT observer's view (messages delivered to it, PRF outputs whose key it holds,
// its own inputs) whose value does not depend on the tape but does depend on the other parties' secrets.
// Such a combination is a deterministic function of the view that distinguishes two secret vectors:
// a genuine violation (sound: nothing is reported unless the values really differ).
// ------------------------------------------------------------------------------------------------

/// first element of every value observer p sees or can compute from what it sees (messages delivered to
/// it, PRF outputs whose key it holds, its own and the public inputs, constants, and every operation on
/// such values), grouped by type: (type, [(node, value)])
fn view_entries(ir: &[IrNode], vals: &[Value], ins: &[IOStatus], p: usize) -> Vec<(Type, Vec<(usize, u128)>)> {
    let holders = ir_key_holders(ir);
    let mut groups: Vec<(Type, Vec<(usize, u128)>)> = vec![];
    let mut input_id = 0;
    let mut known: Vec<bool> = vec![];
    for (i, n) in ir.iter().enumerate() {
        let mut inview = n.sends.iter().any(|(_, r)| *r as usize == p);
        match &n.op {
            Operation::Input(_) => {
                let st = &ins[input_id];
                input_id += 1;
                inview |= matches!(st, IOStatus::Public) || matches!(st, IOStatus::Party(o) if *o as usize == p);
            }
            Operation::PRF(_, _) | Operation::PermutationFromPRF(_, _) => {
                if let Some(k) = ir_key_of(ir, n.deps[0] as usize) {
                    inview |= holders.get(&k).map(|x| x[p]).unwrap_or(false);
                }
            }
            Operation::Random(_) => {}
            _ => {
                // computable from known values (constants have no dependencies)
                inview |= n.deps.iter().all(|d| known[*d as usize]);
            }
        }
        known.push(inview);
        if !inview {
            continue;
        }
        let (st, at) = match &n.ty {
            Type::Scalar(st) => (*st, array_type(vec![1], *st)),
            Type::Array(_, st) => (*st, n.ty.clone()),
            _ => continue,
        };
        if scalar_size_in_bits(st) < 32 {
            continue;
        }
        let x = match vals[i].to_flattened_array_u128(at) {
            Ok(a) if !a.is_empty() => a[0],
            _ => continue,
        };
        match groups.iter_mut().find(|(t, _)| *t == n.ty) {
            Some((_, g)) => g.push((i, x)),
            None => groups.push((n.ty.clone(), vec![(i, x)])),
        }
    }
    groups
}

pub fn leak_stream(run: &mut Run) {
    let mut rng = run.rng("leak-search");
    let n = run.tier.scale(60, 600);
    const TAPES: usize = 16;
    for it in 0..n {
        let fam = match catch(|| match it % 3 { 0 => truncate_family(&mut rng), 1 => tensor_family(&mut rng, 3), _ => arith_family(&mut rng, 5) }) {
            Ok(Ok(f)) => f,
            _ => continue,
        };
        let ins: Vec<IOStatus> = fam.in_types.iter().map(|_| match rng.below(5) { 0 => IOStatus::Public, x => IOStatus::Party(x % 3) }).collect();
        let outs = gen_outputs(&mut rng);
        let mode = rng.below(3) as u8;
        let cc = match catch(|| compile(&fam.ctx, &ins, &outs, mode)) {
            Ok(Ok(c)) => c,
            _ => continue,
        };
        let (ir, _out) = match cc.get_main_graph().and_then(|g| ir_of_graph(&g)) {
            Ok(x) => x,
            _ => continue,
        };
        if ir.len() > 400 {
            continue;
        }
        let cfg = config_name(&ins, &outs, mode);
        for p in 0..3usize {
            if outs.iter().any(|o| *o == IOStatus::Party(p as u64)) {
                continue;
            }
            let hidden: Vec<usize> = (0..ins.len()).filter(|i| matches!(&ins[*i], IOStatus::Party(o) if *o as usize != p)).collect();
            if hidden.is_empty() {
                continue;
            }
            // two secret vectors that differ exactly in the inputs hidden from p
            let alt = gen_inputs_for(&mut rng, &fam.in_types);
            let sec_a = fam.inputs.clone();
            let mut sec_b = fam.inputs.clone();
            for i in &hidden {
                sec_b[*i] = alt[*i].clone();
            }
            if sec_a == sec_b {
                continue;
            }
            // 16 tapes per secret vector, all different. A value gated by one random bit (a product with a
            // mask bit) is constant over 16 tapes with probability 2^-15; a combination is reported only if it
            // is constant under BOTH secret vectors, with different constants (chance below 2^-30 per candidate)
            let seeds: Vec<Vec<[u8; 16]>> = (0..2).map(|_| (0..TAPES).map(|_| rng.seed16()).collect()).collect();
            let mut views: Vec<Vec<Vec<(Type, Vec<(usize, u128)>)>>> = vec![];
            let mut ok = true;
            for (si, sec) in [&sec_a, &sec_b].into_iter().enumerate() {
                let mut per_tape = vec![];
                for seed in &seeds[si] {
                    let r = catch(|| -> ciphercore_base::errors::Result<Vec<Value>> {
                        let mut prng = PRNG::new(Some(*seed))?;
                        let gin = global_inputs(&ins, &fam.in_types, sec, &mut prng)?;
                        global_run(&cc, gin, *seed)
                    });
                    match r {
                        Ok(Ok(vals)) => per_tape.push(view_entries(&ir, &vals, &ins, p)),
                        _ => {
                            ok = false;
                            break;
                        }
                    }
                }
                views.push(per_tape);
            }
            if !ok {
                continue;
            }
            let descr = format!("leak-search {} [{}] {} observer {} (not a recipient)", fam.name, fam.descr, cfg, p);
            run.oracle_case(&descr, true);
            run.count(&format!("leak-search:{}", fam.name));
            let n_groups = views[0][0].len();
            let mut found: Option<String> = None;
            'groups: for gi in 0..n_groups {
                let ty = views[0][0][gi].0.clone();
                let bits = match &ty { Type::Scalar(st) | Type::Array(_, st) => scalar_size_in_bits(*st), _ => 64 };
                let mask: u128 = if bits >= 128 { u128::MAX } else { (1u128 << bits) - 1 };
                // distinct entries only (copies made by NOP / reshaping add nothing), latest first, at most 48
                let all = views[0][0][gi].1.len();
                let sig_of = |j: usize| -> Vec<u128> { (0..2).flat_map(|s| (0..TAPES).map(move |t| (s, t))).map(|(s, t)| views[s][t][gi].1[j].1).collect() };
                let mut seen: Vec<Vec<u128>> = vec![];
                let mut sel: Vec<usize> = vec![];
                for j in (0..all).rev() {
                    let sg = sig_of(j);
                    if sg.iter().all(|x| *x == sg[0]) && sg[0] == 0 {
                        continue;
                    }
                    if !seen.contains(&sg) {
                        seen.push(sg);
                        sel.push(j);
                    }
                    if sel.len() == 48 {
                        break;
                    }
                }
                let m = sel.len();
                run.count_n("leak-search:view-entries", m as u64);
                let val = |s: usize, t: usize, j: usize| views[s][t][gi].1[sel[j]].1;
                // combination: indices (ascending) with signs
                let mut idx: Vec<usize> = vec![];
                fn rec(depth: usize, start: usize, m: usize, idx: &mut Vec<usize>, f: &mut dyn FnMut(&[usize]) -> bool) -> bool {
                    if !idx.is_empty() && f(idx) {
                        return true;
                    }
                    if depth == 4 {
                        return false;
                    }
                    for j in start..m {
                        idx.push(j);
                        if rec(depth + 1, j + 1, m, idx, f) {
                            return true;
                        }
                        idx.pop();
                    }
                    false
                }
                let mut hit: Option<(Vec<usize>, u32, u128, u128)> = None;
                let mut test = |ix: &[usize]| -> bool {
                    for signs in 0..(1u32 << (ix.len() - 1)) {
                        let comb = |s: usize, t: usize| -> u128 {
                            let mut acc: u128 = 0;
                            for (k, j) in ix.iter().enumerate() {
                                let neg = k > 0 && (signs >> (k - 1)) & 1 == 1;
                                let v = val(s, t, *j);
                                acc = if neg { acc.wrapping_sub(v) } else { acc.wrapping_add(v) } & mask;
                            }
                            acc
                        };
                        let a0 = comb(0, 0);
                        if (1..TAPES).all(|t| comb(0, t) == a0) {
                            // tape-invariant under the first secret vector: compare with the second
                            let b0 = comb(1, 0);
                            if b0 != a0 && (1..TAPES).all(|t| comb(1, t) == b0) {
                                hit = Some((ix.to_vec(), signs, a0, b0));
                                return true;
                            }
                        }
                    }
                    false
                };
                if rec(0, 0, m, &mut idx, &mut test) {
                    let (ix, signs, a0, b0) = hit.unwrap();
                    let terms: Vec<String> = ix.iter().enumerate().map(|(k, j)| format!("{}node{}", if k > 0 && (signs >> (k - 1)) & 1 == 1 { "-" } else { "+" }, views[0][0][gi].1[sel[*j]].0)).collect();
                    let what: Vec<String> = ix.iter().map(|j| { let i = views[0][0][gi].1[sel[*j]].0; format!("node{}={}{:?}{}", i, op_tag(&ir[i].op), ir[i].deps, if ir[i].sends.is_empty() { String::new() } else { format!("sends{:?}", ir[i].sends) }) }).collect();
                    let under_b: Vec<u128> = (0..TAPES).map(|t| { let mut acc: u128 = 0; for (k, j) in ix.iter().enumerate() { let neg = k > 0 && (signs >> (k - 1)) & 1 == 1; let v = views[1][t][gi].1[sel[*j]].1; acc = if neg { acc.wrapping_sub(v) } else { acc.wrapping_add(v) } & mask; } acc }).collect();
                    found = Some(format!("the combination {} of view entries (element 0, type {:?}) is the same for all tapes ({} tapes per secret vector, all different) but equals {} for inputs {:?} and {:?} (per tape) for inputs {:?} ; {}", terms.join(" "), ty, TAPES, a0, sec_a.iter().map(crate::vals::bytes_of).collect::<Vec<_>>(), under_b, sec_b.iter().map(crate::vals::bytes_of).collect::<Vec<_>>(), what.join(" ")));
                    break 'groups;
                }
            }
            if let Some(why) = found {
                run.oracle_fail(&format!("C03:leak:{}:{}", fam.name, fam.ops.first().cloned().unwrap_or_default()), format!("{} : {}", descr, why));
            }
        }
    }
}

/// Search for a concrete leak in the sorting protocol: the parties open shuffled permutations σ∘π; each
/// opening must use a fresh π.  For a NON-RECIPIENT observer, take every permutation-valued array it
/// sees or can compute and test, for every ordered pair (a, b), whether a∘b⁻¹ or a⁻¹∘b is the same for
/// all tapes but different for two different key columns (the signature of a reused shuffle).
pub fn perm_leak_stream(run: &mut Run) {
    use ciphercore_base::graphs::util::simple_context;
    let mut rng = run.rng("perm-leak-search");
    let n = run.tier.scale(4, 24);
    const TAPES: usize = 8;
    for it in 0..n {
        let rows = 5 + rng.below(2);
        let kb = 5 + rng.below(3);
        let owner = rng.below(3);
        let two_cols = it % 2 == 1;
        let ctx = match catch(|| simple_context(|g| {
            let k = g.input(array_type(vec![rows, kb], BIT))?;
            if two_cols {
                let v = g.input(array_type(vec![rows], UINT64))?;
                g.create_named_tuple(vec![("v".to_owned(), v), ("k".to_owned(), k)])?.sort("k".to_owned())
            } else {
                g.create_named_tuple(vec![("k".to_owned(), k)])?.sort("k".to_owned())
            }
        })) {
            Ok(Ok(c)) => c,
            _ => continue,
        };
        let in_types: Vec<Type> = if two_cols { vec![array_type(vec![rows, kb], BIT), array_type(vec![rows], UINT64)] } else { vec![array_type(vec![rows, kb], BIT)] };
        let ins: Vec<IOStatus> = in_types.iter().map(|_| IOStatus::Party(owner)).collect();
        let outs = vec![IOStatus::Party(owner)];
        let mode = rng.below(3) as u8;
        let cc = match catch(|| compile(&ctx, &ins, &outs, mode)) {
            Ok(Ok(c)) => c,
            _ => continue,
        };
        let (ir, _out) = match cc.get_main_graph().and_then(|g| ir_of_graph(&g)) {
            Ok(x) => x,
            _ => continue,
        };
        let sec_a = gen_inputs_for(&mut rng, &in_types);
        let sec_b = gen_inputs_for(&mut rng, &in_types);
        if sec_a[0] == sec_b[0] {
            continue;
        }
        // different tapes for the two key columns; a quotient is reported only if it is constant under both
        // key columns, with different constants
        let seeds: Vec<Vec<[u8; 16]>> = (0..2).map(|_| (0..TAPES).map(|_| rng.seed16()).collect()).collect();
        let mut all_vals: Vec<Vec<Vec<Value>>> = vec![];
        let mut ok = true;
        for (si, sec) in [&sec_a, &sec_b].into_iter().enumerate() {
            let mut per_tape = vec![];
            for seed in &seeds[si] {
                let r = catch(|| -> ciphercore_base::errors::Result<Vec<Value>> {
                    let mut prng = PRNG::new(Some(*seed))?;
                    let gin = global_inputs(&ins, &in_types, sec, &mut prng)?;
                    global_run(&cc, gin, *seed)
                });
                match r {
                    Ok(Ok(vals)) => per_tape.push(vals),
                    _ => {
                        ok = false;
                        break;
                    }
                }
            }
            all_vals.push(per_tape);
        }
        if !ok {
            continue;
        }
        let cfg = config_name(&ins, &outs, mode);
        for p in 0..3usize {
            if p as u64 == owner {
                continue;
            }
            let descr = format!("perm-leak-search sort rows={} keybits={} columns={} {} ({} nodes) observer {} (not a recipient)", rows, kb, if two_cols { 2 } else { 1 }, cfg, ir.len(), p);
            run.oracle_case(&descr, true);
            // nodes the observer sees or can compute
            let holders = ir_key_holders(&ir);
            let mut known: Vec<bool> = vec![];
            let mut input_id = 0;
            let mut cands: Vec<usize> = vec![];
            for (i, nd) in ir.iter().enumerate() {
                let mut inview = nd.sends.iter().any(|(_, r)| *r as usize == p);
                match &nd.op {
                    Operation::Input(_) => {
                        let st = &ins[input_id];
                        input_id += 1;
                        inview |= matches!(st, IOStatus::Public) || matches!(st, IOStatus::Party(o) if *o as usize == p);
                    }
                    Operation::PRF(_, _) | Operation::PermutationFromPRF(_, _) => {
                        if let Some(k) = ir_key_of(&ir, nd.deps[0] as usize) {
                            inview |= holders.get(&k).map(|x| x[p]).unwrap_or(false);
                        }
                    }
                    Operation::Random(_) => {}
                    _ => inview |= nd.deps.iter().all(|d| known[*d as usize]),
                }
                known.push(inview);
                if inview && matches!(&nd.ty, Type::Array(s, st) if s.len() == 1 && s[0] == rows && !st.is_signed() && scalar_size_in_bits(*st) >= 8) {
                    cands.push(i);
                }
            }
            // permutation-valued in every run
            let as_perm = |s: usize, t: usize, i: usize| -> Option<Vec<usize>> {
                let a = all_vals[s][t][i].to_flattened_array_u128(ir[i].ty.clone()).ok()?;
                let mut seen = vec![false; rows as usize];
                for x in &a {
                    if *x >= rows as u128 || seen[*x as usize] {
                        return None;
                    }
                    seen[*x as usize] = true;
                }
                Some(a.into_iter().map(|x| x as usize).collect())
            };
            let mut perms: Vec<(usize, Vec<Vec<Vec<usize>>>)> = vec![];
            for i in cands.iter().rev() {
                let mut per: Vec<Vec<Vec<usize>>> = vec![];
                let mut good = true;
                for s in 0..2 {
                    let mut row = vec![];
                    for t in 0..TAPES {
                        match as_perm(s, t, *i) {
                            Some(pm) => row.push(pm),
                            None => {
                                good = false;
                                break;
                            }
                        }
                    }
                    if !good {
                        break;
                    }
                    per.push(row);
                }
                if good && !perms.iter().any(|(_, q)| *q == per) {
                    perms.push((*i, per));
                }
                if perms.len() == 64 {
                    break;
                }
            }
            run.count_n("perm-leak-search:permutation-valued-entries", perms.len() as u64);
            let inv = |a: &Vec<usize>| -> Vec<usize> {
                let mut r = vec![0; a.len()];
                for (i, x) in a.iter().enumerate() {
                    r[*x] = i;
                }
                r
            };
            let comp = |a: &Vec<usize>, b: &Vec<usize>| -> Vec<usize> { b.iter().map(|x| a[*x]).collect() }; // a∘b
            let mut found: Option<String> = None;
            'pairs: for (ia, pa) in &perms {
                for (ib, pb) in &perms {
                    if ia == ib {
                        continue;
                    }
                    for form in 0..2 {
                        let f = |s: usize, t: usize| -> Vec<usize> {
                            if form == 0 { comp(&pa[s][t], &inv(&pb[s][t])) } else { comp(&inv(&pa[s][t]), &pb[s][t]) }
                        };
                        let a0 = f(0, 0);
                        if (1..TAPES).all(|t| f(0, t) == a0) {
                            let b0 = f(1, 0);
                            if b0 != a0 && (1..TAPES).all(|t| f(1, t) == b0) {
                                found = Some(format!("{} of the permutations at nodes {} and {} does not depend on the tape ({} tapes) but equals {:?} for key column {:?} and {:?} for key column {:?}", if form == 0 { "a∘b⁻¹" } else { "a⁻¹∘b" }, ia, ib, TAPES, a0, crate::vals::bytes_of(&sec_a[0]), b0, crate::vals::bytes_of(&sec_b[0])));
                                break 'pairs;
                            }
                        }
                    }
                }
            }
            if let Some(why) = found {
                run.oracle_fail("C03:leak:sort:opened-permutations", format!("{} : {}", descr, why));
            }
        }
    }
}

// ------------------------------------------------------------------------------------------------
// (T) the sort-protocol skeleton: the graph `RadixSortMPC::instantiate` builds NOW (hook
// mpc::verif_hooks::radix_sort_protocol_graph), exported as `List CCV.Shuffle.Node` with the list of
// its shuffle_and_reveal nodes; Lean decides `freshOk`.
// ------------------------------------------------------------------------------------------------

struct SortSkeleton {
    nodes: String,
    cert: String,
    n_nodes: usize,
    n_open: usize,
    n_mask: usize,
}

fn sort_skeleton(rows: u64, kb: u64, key_first: bool, payload: bool) -> std::result::Result<SortSkeleton, String> {
    use ciphercore_base::graphs::create_context;
    let e = |x: ciphercore_base::errors::Error| format!("{}", x);
    let c = create_context().map_err(e)?;
    let mut cols = vec![("k".to_owned(), array_type(vec![rows, kb], BIT))];
    if payload {
        let v = ("v".to_owned(), array_type(vec![rows], UINT64));
        if key_first { cols.push(v) } else { cols.insert(0, v) }
    }
    let nt = named_tuple_type(cols);
    let keys = tuple_type(vec![array_type(vec![128], BIT); 3]);
    let g = ciphercore_base::mpc::verif_hooks::radix_sort_protocol_graph(c.clone(), "k".to_owned(), vec![tuple_type(vec![nt; 3]), keys]).map_err(e)?;
    let nodes = g.get_nodes();
    let mut s = String::new();
    let mut tags: Vec<String> = vec![];
    let mut opens: Vec<(usize, usize)> = vec![];
    let mut input_id = 0;
    let mut n_mask = 0;
    let is_mask = |n: &ciphercore_base::graphs::Node| -> bool {
        matches!(n.get_operation(), Operation::CreateTuple)
            && !n.get_node_dependencies().is_empty()
            && n.get_node_dependencies().iter().all(|d| matches!(d.get_operation(), Operation::PermutationFromPRF(_, _)))
    };
    for (i, n) in nodes.iter().enumerate() {
        if n.get_id() as usize != i {
            return Err("node ids are not consecutive".into());
        }
        let mut deps: Vec<u64> = n.get_node_dependencies().iter().map(|d| d.get_id()).collect();
        let kind = match n.get_operation() {
            Operation::Input(_) => {
                input_id += 1;
                format!(".hid {}", input_id - 1)
            }
            _ if is_mask(n) => {
                // a fresh secret-shared random permutation: tape variable = node id
                deps.clear();
                n_mask += 1;
                format!(".mask {}", i)
            }
            Operation::Custom(cop) if cop.get_name().contains("ApplyPermutationMPC") && cop.get_name().contains("reveal_output=true") => {
                // shuffle_and_reveal(data, permutation, prf_keys): the opened value data∘permutation
                if deps.len() != 3 {
                    return Err(format!("revealing ApplyPermutationMPC node {} has {} operands", i, deps.len()));
                }
                let m = deps[1] as usize;
                if !is_mask(&nodes[m]) {
                    return Err(format!("revealing ApplyPermutationMPC node {} is not masked by a secret_shared_permutation node", i));
                }
                opens.push((i, m));
                deps.truncate(2);
                ".mul".to_owned()
            }
            op => {
                let key = match &op {
                    Operation::Custom(cop) => format!("Custom:{}", cop.get_name()),
                    o => format!("{:?}", o),
                };
                let tag = match tags.iter().position(|t| *t == key) {
                    Some(x) => x,
                    None => {
                        tags.push(key);
                        tags.len() - 1
                    }
                };
                // Call nodes: the callee is part of the tag by position only; its body opens nothing (checked below)
                format!(".op {}", tag)
            }
        };
        s += &format!("  ⟨{}, [{}]⟩{}\n", kind, deps.iter().map(|d| d.to_string()).collect::<Vec<_>>().join(", "), if i + 1 == nodes.len() { "" } else { "," });
    }
    // the called sub-graphs (gen_multi_bit_sort) must not open anything themselves
    for cg in g.get_context().get_graphs() {
        if cg.get_id() == g.get_id() {
            continue;
        }
        for n in cg.get_nodes() {
            if let Operation::Custom(cop) = n.get_operation() {
                if cop.get_name().contains("reveal_output=true") {
                    return Err(format!("sub-graph {} contains a revealing operation", cg.get_id()));
                }
            }
        }
    }
    opens.reverse();
    drop(c); // the context had to stay alive while its graphs were inspected
    Ok(SortSkeleton {
        nodes: s,
        cert: opens.iter().map(|(o, m)| format!("({}, {})", o, m)).collect::<Vec<_>>().join(", "),
        n_nodes: nodes.len(),
        n_open: opens.len(),
        n_mask,
    })
}

fn gen_sort_skeletons(run: &mut Run, out_dir: &str, obligations: &mut Vec<serde_json::Value>) -> bool {
    use std::fmt::Write as _;
    let mut body = String::from("import CCV.Model.Shuffle\nset_option maxRecDepth 1000000\nnamespace CCV.Generated.C03Sort\nopen CCV.Shuffle\n\n");
    let configs: Vec<(u64, u64, bool, bool)> = if run.tier == Tier::Quick {
        vec![(4, 1, true, false), (5, 2, true, true), (5, 5, false, true), (6, 7, true, true), (3, 9, false, true)]
    } else {
        let mut v = vec![];
        for kb in 1..=12u64 {
            v.push((3 + kb % 4, kb, kb % 2 == 0, kb % 3 != 0));
        }
        // (the list-based class analysis is quadratic per opening: 64 key bits = 32 openings over ~1200
        // nodes took more than half an hour of kernel time; 24 bits is the largest configuration kept)
        v.push((8, 16, false, true));
        v.push((2, 24, true, false));
        v
    };
    let mut k = 0;
    for (rows, kb, key_first, payload) in configs {
        match sort_skeleton(rows, kb, key_first, payload) {
            Ok(sk) => {
                let name = format!("s{}", k);
                writeln!(body, "/-- RadixSortMPC protocol graph: {} rows, {} key bits, key column {}, {} ; {} nodes, {} fresh shared permutations, {} opened values -/", rows, kb, if key_first { "first" } else { "last" }, if payload { "with a payload column" } else { "key only" }, sk.n_nodes, sk.n_mask, sk.n_open).unwrap();
                writeln!(body, "def {} : List Node := [\n{}]", name, sk.nodes).unwrap();
                writeln!(body, "def {}_cert : Cert := [{}]", name, sk.cert).unwrap();
                writeln!(body, "theorem {}_ok : freshOk {} {}_cert = true := by decide +kernel\n", name, name, name).unwrap();
                obligations.push(serde_json::json!({"name": format!("CCV.Generated.C03Sort.{}_ok", name),
                    "says": format!("sort protocol graph built by RadixSortMPC::instantiate for {} rows × {} key bits (key column {}, {}): {} nodes; all {} shuffle_and_reveal nodes are certified, each opens its operand under a fresh shared permutation that neither the operand nor any earlier opening depends on", rows, kb, if key_first { "first" } else { "last" }, if payload { "payload column" } else { "key only" }, sk.n_nodes, sk.n_open)}));
                run.count("gen:sort-skeletons");
                run.count_n("gen:sort-openings", sk.n_open as u64);
                k += 1;
            }
            Err(why) => {
                // export an obligation that fails visibly
                let name = format!("s{}", k);
                writeln!(body, "/-- RadixSortMPC protocol graph for {} rows, {} key bits could not be exported as a skeleton: {} -/\ntheorem {}_ok : freshOk [] [(0, 0)] = true := by decide +kernel\n", rows, kb, why.replace("-/", ""), name).unwrap();
                obligations.push(serde_json::json!({"name": format!("CCV.Generated.C03Sort.{}_ok", name), "says": format!("NOT EXPORTABLE: {}", why)}));
                k += 1;
            }
        }
    }
    body += "end CCV.Generated.C03Sort\n";
    std::fs::write(format!("{}/C03Sort.lean", out_dir), body).expect("write");
    true
}

/// Search for a concrete leak through an oblivious-transfer step (integer × bit, both private): a
/// non-recipient observer must not be able to decide the other party's bit.  Candidates are predicates
/// "[F = 0] = β" where F is a ±1 combination of at most five integer values the observer sees or can
/// compute and β one of the bits it knows (its own share of the bit, a constant …).  Reported iff the
/// predicate has one truth value for ALL tapes under one secret bit and the opposite one for all tapes
/// under the flipped bit (8 tapes each: chance 2^-16 per candidate on a sound protocol).
pub fn ot_leak_stream(run: &mut Run) {
    use ciphercore_base::graphs::util::simple_context;
    let mut rng = run.rng("ot-leak-search");
    let n = run.tier.scale(6, 36);
    const TAPES: usize = 16;
    for it in 0..n {
        let st = *rng.pick(&[UINT64, INT64, UINT32, INT32]);
        let owner_a = (it % 3) as u64;
        let owner_b = ((it / 3) % 3) as u64;
        let ctx = match catch(|| simple_context(|g| {
            let a = g.input(array_type(vec![2], st))?;
            let b = g.input(array_type(vec![2], BIT))?;
            a.mixed_multiply(b)
        })) {
            Ok(Ok(c)) => c,
            _ => continue,
        };
        let in_types = vec![array_type(vec![2], st), array_type(vec![2], BIT)];
        let ins = vec![IOStatus::Party(owner_a), IOStatus::Party(owner_b)];
        let outs: Vec<IOStatus> = if it % 2 == 0 { vec![] } else { vec![IOStatus::Party(owner_a)] };
        let mode = rng.below(3) as u8;
        let cc = match catch(|| compile(&ctx, &ins, &outs, mode)) {
            Ok(Ok(c)) => c,
            _ => continue,
        };
        let (ir, _out) = match cc.get_main_graph().and_then(|g| ir_of_graph(&g)) {
            Ok(x) => x,
            _ => continue,
        };
        let base = gen_inputs_for(&mut rng, &in_types);
        let bit0 = rng.below(2);
        let mk = |b0: u64| -> Vec<Value> { vec![base[0].clone(), Value::from_flattened_array(&[b0, 1 - b0], BIT).unwrap()] };
        let secs = [mk(bit0), mk(1 - bit0)];
        // DIFFERENT tapes for the two secrets: a predicate gated by a single mask bit is constant over 16
        // tapes with probability 2^-15, and must then be the opposite constant over 16 other tapes
        let seeds: Vec<Vec<[u8; 16]>> = (0..2).map(|_| (0..TAPES).map(|_| rng.seed16()).collect()).collect();
        let mut vals: Vec<Vec<Vec<Value>>> = vec![];
        let mut ok = true;
        for (si, sec) in secs.iter().enumerate() {
            let mut per = vec![];
            for seed in &seeds[si] {
                match catch(|| -> ciphercore_base::errors::Result<Vec<Value>> {
                    let mut prng = PRNG::new(Some(*seed))?;
                    let gin = global_inputs(&ins, &in_types, sec, &mut prng)?;
                    global_run(&cc, gin, *seed)
                }) {
                    Ok(Ok(v)) => per.push(v),
                    _ => {
                        ok = false;
                        break;
                    }
                }
            }
            vals.push(per);
        }
        if !ok {
            continue;
        }
        let cfg = config_name(&ins, &outs, mode);
        if std::env::var("CCV_C03_DUMP").is_ok() && it == 0 {
            for (i, nd) in ir.iter().enumerate().take(40) {
                let v0 = crate::vals::bytes_of(&vals[0][0][i]);
                let v1 = crate::vals::bytes_of(&vals[0][1][i]);
                eprintln!("DUMP node{} {}{:?} sends{:?} ty={:?} tape0={:?} tape1={:?}", i, op_tag(&nd.op), nd.deps, nd.sends, nd.ty, &v0[..v0.len().min(6)], &v1[..v1.len().min(6)]);
            }
        }
        for p in 0..3usize {
            if p as u64 == owner_b || outs.iter().any(|o| *o == IOStatus::Party(p as u64)) {
                continue;
            }
            let descr = format!("ot-leak-search {}[2] (party {}) mixed_multiply bit[2] (party {}) {} observer {} (not a recipient, does not own the bits)", crate::vals::st_name(st), owner_a, owner_b, cfg, p);
            run.oracle_case(&descr, true);
            // what the observer sees or can compute
            let holders = ir_key_holders(&ir);
            let mut known: Vec<bool> = vec![];
            let mut input_id = 0;
            let mut ints: Vec<usize> = vec![];
            let mut bits: Vec<usize> = vec![];
            for (i, nd) in ir.iter().enumerate() {
                let mut inview = nd.sends.iter().any(|(_, r)| *r as usize == p);
                match &nd.op {
                    Operation::Input(_) => {
                        let s = &ins[input_id];
                        input_id += 1;
                        inview |= matches!(s, IOStatus::Party(o) if *o as usize == p);
                    }
                    Operation::PRF(_, _) | Operation::PermutationFromPRF(_, _) => {
                        if let Some(k) = ir_key_of(&ir, nd.deps[0] as usize) {
                            inview |= holders.get(&k).map(|x| x[p]).unwrap_or(false);
                        }
                    }
                    Operation::Random(_) => {}
                    _ => inview |= nd.deps.iter().all(|d| known[*d as usize]),
                }
                known.push(inview);
                if !inview {
                    continue;
                }
                match &nd.ty {
                    Type::Array(s, t) if s.len() == 1 && s[0] == 2 && *t == st => ints.push(i),
                    Type::Array(s, t) if s.len() == 1 && s[0] == 2 && *t == BIT => bits.push(i),
                    _ => {}
                }
            }
            let bits_w = scalar_size_in_bits(st);
            let mask: u128 = (1u128 << bits_w) - 1;
            let at = |s: usize, t: usize, i: usize| -> u128 { vals[s][t][i].to_flattened_array_u128(ir[i].ty.clone()).map(|a| a[0]).unwrap_or(0) };
            // distinct integer entries (by their values in all 16 runs), latest first, at most 30
            let mut sel: Vec<(usize, Vec<u128>)> = vec![];
            for i in ints.iter().rev() {
                let sig: Vec<u128> = (0..2).flat_map(|s| (0..TAPES).map(move |t| (s, t))).map(|(s, t)| at(s, t, *i)).collect();
                if sig.iter().all(|x| *x == 0) || sel.iter().any(|(_, q)| *q == sig) {
                    continue;
                }
                sel.push((*i, sig));
                if sel.len() == 30 {
                    break;
                }
            }
            let mut bsel: Vec<(usize, Vec<u128>)> = vec![(usize::MAX, vec![1; 2 * TAPES])];
            for i in bits.iter().rev() {
                let sig: Vec<u128> = (0..2).flat_map(|s| (0..TAPES).map(move |t| (s, t))).map(|(s, t)| at(s, t, *i)).collect();
                if !bsel.iter().any(|(_, q)| *q == sig) {
                    bsel.push((*i, sig));
                }
                if bsel.len() == 24 {
                    break;
                }
            }
            if std::env::var("CCV_C03_WHY").is_ok() {
                for (i, sig) in &bsel {
                    if *i != usize::MAX {
                        eprintln!("BIT {} node{} {}{:?} sends{:?} : {:?}", descr.chars().take(60).collect::<String>(), i, op_tag(&ir[*i].op), ir[*i].deps, ir[*i].sends, sig);
                    }
                }
            }
            run.count_n("ot-leak-search:integer-entries", sel.len() as u64);
            run.count_n("ot-leak-search:bit-entries", bsel.len() as u64);
            let m = sel.len();
            let mut found: Option<String> = None;
            let mut idx: Vec<usize> = vec![];
            fn rec(depth: usize, start: usize, m: usize, idx: &mut Vec<usize>, f: &mut dyn FnMut(&[usize]) -> bool) -> bool {
                if idx.len() >= 2 && f(idx) {
                    return true;
                }
                if depth == 5 {
                    return false;
                }
                for j in start..m {
                    idx.push(j);
                    if rec(depth + 1, j + 1, m, idx, f) {
                        return true;
                    }
                    idx.pop();
                }
                false
            }
            let mut test = |ix: &[usize]| -> bool {
                for signs in 0..(1u32 << (ix.len() - 1)) {
                    let mut zero = [false; 2 * TAPES];
                    let mut any = false;
                    let mut all = true;
                    for r in 0..2 * TAPES {
                        let mut acc: u128 = 0;
                        for (k, j) in ix.iter().enumerate() {
                            let neg = k > 0 && (signs >> (k - 1)) & 1 == 1;
                            let v = sel[*j].1[r];
                            acc = if neg { acc.wrapping_sub(v) } else { acc.wrapping_add(v) } & mask;
                        }
                        zero[r] = acc == 0;
                        any |= zero[r];
                        all &= zero[r];
                    }
                    if !any || all {
                        continue;
                    }
                    for (bi, bsig) in &bsel {
                        // predicate [F = 0] == β
                        let pr = |r: usize| zero[r] == (bsig[r] & 1 == 1);
                        let a0 = pr(0);
                        if (1..TAPES).all(|t| pr(t) == a0) && (TAPES..2 * TAPES).all(|r| pr(r) != a0) {
                            let terms: Vec<String> = ix.iter().enumerate().map(|(k, j)| format!("{}node{}", if k > 0 && (signs >> (k - 1)) & 1 == 1 { "-" } else { "+" }, sel[*j].0)).collect();
                            let what: Vec<String> = ix.iter().map(|j| { let i = sel[*j].0; format!("node{}={}{:?}{}", i, op_tag(&ir[i].op), ir[i].deps, if ir[i].sends.is_empty() { String::new() } else { format!("sends{:?}", ir[i].sends) }) }).collect();
                            found = Some(format!("the predicate [{} = 0] = {} (element 0) is {} for all {} tapes when the hidden bit is {} and {} for all {} tapes when it is {} ; {}", terms.join(" "), if *bi == usize::MAX { "true".to_owned() } else { format!("bit node{}", bi) }, a0, TAPES, bit0, !a0, TAPES, 1 - bit0, what.join(" ")));
                            return true;
                        }
                    }
                }
                false
            };
            rec(0, 0, m, &mut idx, &mut test);
            if let Some(why) = found {
                run.oracle_fail("C03:leak:mixed-multiply:oblivious-transfer", format!("{} : {} ; integer input {:?}", descr, why, crate::vals::bytes_of(&base[0])));
            }
        }
    }
}

/// (T) export classified graphs + certificates of a fixed corpus; Lean decides `discOk ∧ compOk`.
pub fn gen(run: &mut Run, out_dir: &str) {
    use std::fmt::Write as _;
    let mut rng = Rng::new(0xC03, "C03/gen");
    let n_graphs = run.tier.scale(30, 120);
    let max_nodes = std::env::var("CCV_C03_MAXNODES").ok().and_then(|v| v.parse().ok()).unwrap_or(run.tier.scale(160, 400));
    let chunk = 5;
    let header = "import CCV.Model.MaskRev\nimport CCV.Model.MaskTy\nset_option maxRecDepth 1000000\nnamespace CCV.Generated.C03\nopen CCV.Mask\n\n";
    let mut files: Vec<String> = vec![];
    let mut cur = String::new();
    let mut in_cur = 0;
    let mut obligations = vec![];
    let mut k = 0;
    let mut attempts = 0;
    while k < n_graphs && attempts < n_graphs * 40 {
        attempts += 1;
        let fam = match catch(|| match attempts % 6 { 0 => tensor_family(&mut rng, 3), 1 | 2 => truncate_family(&mut rng), 4 => conversion_family(&mut rng), _ => arith_family(&mut rng, 5) }) {
            Ok(Ok(f)) => f,
            _ => continue,
        };
        let ins: Vec<IOStatus> = fam.in_types.iter().map(|_| gen_status(&mut rng)).collect();
        let outs = gen_outputs(&mut rng);
        let mode = rng.below(3) as u8;
        let cc = match catch(|| compile(&fam.ctx, &ins, &outs, mode)) {
            Ok(Ok(c)) => c,
            _ => continue,
        };
        let (ir, _out) = match cc.get_main_graph().and_then(|g| ir_of_graph(&g)) {
            Ok(x) => x,
            _ => continue,
        };
        if ir.len() > max_nodes {
            continue;
        }
        for p in 0..3usize {
            let recipient = outs.iter().any(|o| *o == IOStatus::Party(p as u64));
            if !ins.iter().any(|s| matches!(s, IOStatus::Shared) || matches!(s, IOStatus::Party(o) if *o as usize != p)) {
                continue;
            }
            // only families for which the discipline is known to be provable are in the corpus
            if fam.name != "arith" && fam.name != "truncate" {
                if recipient || discipline_for(&ir, &ins, p).is_err() {
                    continue;
                }
            }
            let cert = match discipline_with(&ir, &ins, p, recipient) {
                Ok(c) => c,
                // arithmetic family: export anyway with a best-effort (empty) certificate so that the
                // obligation fails visibly
                Err(_) => Certificate { pivoted: vec![], computable: vec![], reveals: vec![] },
            };
            let (nodes, tys_s, vty_s) = match export_mask(&ir, &ins, p) {
                Some(s) => s,
                None => continue,
            };
            // every message delivered to p must be covered by the certificate
            let delivered: Vec<usize> = (0..ir.len()).filter(|i| ir[*i].sends.iter().any(|(_, r)| *r as usize == p)).collect();
            let covered = delivered.iter().all(|m| cert.computable.contains(m) || cert.reveals.contains(m) || cert.pivoted.iter().any(|(x, _)| x == m));
            let name = format!("v{}", k);
            let cfg = config_name(&ins, &outs, mode);
            writeln!(cur, "/-- {} [{}] {} ; observer party {} ({}) ; {} nodes ; messages delivered at nodes {:?} -/", fam.name, fam.descr.replace("-/", ""), cfg, p, if recipient { "output recipient" } else { "not a recipient" }, ir.len(), delivered).unwrap();
            writeln!(cur, "def {} : List Node := [\n{}]", name, nodes).unwrap();
            writeln!(cur, "def {}_tys : List Nat := [{}]", name, tys_s).unwrap();
            writeln!(cur, "def {}_vty : List Nat := [{}]", name, vty_s).unwrap();
            writeln!(cur, "def {}_cert : Cert := [{}]", name, cert.pivoted.iter().map(|(m, v)| format!("({}, {})", m, v)).collect::<Vec<_>>().join(", ")).unwrap();
            writeln!(cur, "def {}_comp : List Nat := [{}]", name, cert.computable.iter().map(|m| m.to_string()).collect::<Vec<_>>().join(", ")).unwrap();
            writeln!(cur, "def {}_delivered : List Nat := [{}]", name, delivered.iter().map(|m| m.to_string()).collect::<Vec<_>>().join(", ")).unwrap();
            writeln!(cur, "def {}_revs : List Nat := [{}]", name, cert.reveals.iter().map(|m| m.to_string()).collect::<Vec<_>>().join(", ")).unwrap();
            if recipient {
                writeln!(cur, "theorem {}_ok : (discOk {} {}_cert && compOk {} {}_comp && tyOk {} {}_tys {}_vty {}_cert && revOk {} ({}_cert.map (·.1) ++ {}_comp) {} {}_revs && {}_delivered.all (fun m => {}_comp.contains m || {}_revs.contains m || {}_cert.any (fun c => c.1 == m))) = true := by decide +kernel\n", name, name, name, name, name, name, name, name, name, name, name, name, _out, name, name, name, name, name).unwrap();
            } else {
                writeln!(cur, "theorem {}_ok : (discOk {} {}_cert && compOk {} {}_comp && tyOk {} {}_tys {}_vty {}_cert && {}_delivered.all (fun m => {}_comp.contains m || {}_cert.any (fun c => c.1 == m))) = true := by decide +kernel\n", name, name, name, name, name, name, name, name, name, name, name, name).unwrap();
            }
            let _ = covered;
            obligations.push(serde_json::json!({"name": format!("CCV.Generated.C03.{}_ok", name),
                "says": format!("mask discipline certificate accepted for observer {} ({}) of the compiled graph of {} [{}] {} ({} nodes; {} pivoted, {} computable, {} reveal messages; every delivered message covered)", p, if recipient { "output recipient" } else { "non-recipient" }, fam.name, fam.descr, cfg, ir.len(), cert.pivoted.len(), cert.computable.len(), cert.reveals.len())}));
            run.count(&format!("gen:family:{}", fam.name));
            k += 1;
            in_cur += 1;
            if in_cur == chunk {
                files.push(std::mem::take(&mut cur));
                in_cur = 0;
            }
        }
    }
    if in_cur > 0 {
        files.push(cur);
    }
    let mut imports = String::new();
    for (i, body) in files.iter().enumerate() {
        std::fs::write(format!("{}/C03_{}.lean", out_dir, i), format!("{}{}end CCV.Generated.C03\n", header, body)).expect("write");
        imports += &format!("import CCV.Generated.C03_{}\n", i);
    }
    for i in files.len()..400 {
        let _ = std::fs::remove_file(format!("{}/C03_{}.lean", out_dir, i));
    }
    if gen_sort_skeletons(run, out_dir, &mut obligations) {
        imports += "import CCV.Generated.C03Sort\n";
    }
    std::fs::write(format!("{}/C03.lean", out_dir), imports).expect("write");
    std::fs::write(format!("{}/C03_obligations.json", out_dir), serde_json::to_string_pretty(&obligations).unwrap()).expect("write");
    println!("generated {} observer views in {} files", k, files.len());
}
