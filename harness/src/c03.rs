//! C03 — a party's view reveals nothing beyond its own inputs and outputs.
//! corr: bit-typed source programs are compiled; the compiled main graph is interpreted over GF(2)
//! with every PRF output idealised as an independent uniform bit (one variable per (key, counter));
//! for every observer party the multiset of views over ALL tapes is compared for every pair of
//! assignments of the other parties' private inputs that give the observer the same output.
//! The GF(2) interpreter is cross-checked against the real evaluator on every program.
use crate::c01::config_name;
use crate::mpc_common::*;
use crate::util::*;
use ciphercore_base::data_types::*;
use ciphercore_base::data_values::Value;
use ciphercore_base::graphs::Operation;
use ciphercore_base::mpc::mpc_compiler::IOStatus;
use ciphercore_base::random::PRNG;
use std::collections::HashMap;

#[derive(Clone, Debug)]
enum B {
    Input(usize),
    /// idealised PRF output / Random bit: tape variable
    Tape(usize),
    /// PRF key (Random of key type): carries the index of the Random node
    Key(usize),
    Nop(usize),
    Xor(usize, usize),
    And(usize, usize),
    Const(bool),
    Tuple(Vec<usize>),
    TupleGet(usize, usize),
}

struct BitGraph {
    nodes: Vec<B>,
    sends: Vec<Vec<(u64, u64)>>,
    out: usize,
    n_tape: usize,
    /// tape variable -> key Random node index (None for Random bit nodes), for "who knows it"
    tape_key: Vec<Option<usize>>,
    /// tape variable of each PRF node id
    prf_nodes: Vec<(usize, usize)>,
}

fn key_of(nodes: &[B], mut i: usize) -> Option<usize> {
    loop {
        match &nodes[i] {
            B::Key(k) => return Some(*k),
            B::Nop(j) => i = *j,
            _ => return None,
        }
    }
}

fn to_bitgraph(ir: &[IrNode], out: u64) -> Option<BitGraph> {
    let mut nodes = vec![];
    let mut sends = vec![];
    let mut vars: HashMap<(usize, u64), usize> = HashMap::new();
    let mut tape_key = vec![];
    let mut prf_nodes = vec![];
    let mut input_id = 0;
    let bit_scalar = |t: &Type| matches!(t, Type::Scalar(st) if *st == BIT);
    for (i, n) in ir.iter().enumerate() {
        let d = |j: usize| n.deps[j] as usize;
        let b = match &n.op {
            Operation::Input(t) => {
                if !bit_scalar(t) {
                    return None;
                }
                input_id += 1;
                B::Input(input_id - 1)
            }
            Operation::Random(t) => {
                if *t == array_type(vec![128], BIT) {
                    B::Key(i)
                } else if bit_scalar(t) {
                    tape_key.push(None);
                    B::Tape(tape_key.len() - 1)
                } else {
                    return None;
                }
            }
            Operation::NOP => B::Nop(d(0)),
            Operation::PRF(iv, t) => {
                if !bit_scalar(t) {
                    return None;
                }
                let k = key_of(&nodes, d(0))?;
                let next = tape_key.len();
                let v = *vars.entry((k, *iv)).or_insert(next);
                if v == next {
                    tape_key.push(Some(k));
                }
                prf_nodes.push((i, v));
                B::Tape(v)
            }
            Operation::Add | Operation::Subtract => B::Xor(d(0), d(1)),
            Operation::Multiply | Operation::MixedMultiply => B::And(d(0), d(1)),
            Operation::Zeros(_) => B::Const(false),
            Operation::Ones(_) => B::Const(true),
            Operation::Constant(t, v) => {
                if !bit_scalar(t) {
                    return None;
                }
                B::Const(crate::vals::bytes_of(v).first().map(|b| b & 1 == 1).unwrap_or(false))
            }
            Operation::CreateTuple => B::Tuple(n.deps.iter().map(|x| *x as usize).collect()),
            Operation::TupleGet(j) => B::TupleGet(d(0), *j as usize),
            _ => return None,
        };
        nodes.push(b);
        sends.push(n.sends.clone());
    }
    Some(BitGraph { nodes, sends, out: out as usize, n_tape: tape_key.len(), tape_key, prf_nodes })
}

#[derive(Clone, PartialEq, Eq, Hash, Debug)]
enum BV {
    Bit(bool),
    Key,
    Tup(Vec<BV>),
}

impl BV {
    fn bit(&self) -> bool {
        matches!(self, BV::Bit(true))
    }
    fn flat(&self, out: &mut Vec<bool>) {
        match self {
            BV::Bit(b) => out.push(*b),
            BV::Key => {}
            BV::Tup(v) => v.iter().for_each(|x| x.flat(out)),
        }
    }
}

/// one-evaluator interpretation: values of all nodes
fn interp(g: &BitGraph, inputs: &[bool], tape: u64) -> Vec<BV> {
    let mut vals: Vec<BV> = Vec::with_capacity(g.nodes.len());
    for n in &g.nodes {
        let v = match n {
            B::Input(i) => BV::Bit(inputs[*i]),
            B::Tape(v) => BV::Bit((tape >> v) & 1 == 1),
            B::Key(_) => BV::Key,
            B::Nop(j) => vals[*j].clone(),
            B::Xor(a, b) => BV::Bit(vals[*a].bit() ^ vals[*b].bit()),
            B::And(a, b) => BV::Bit(vals[*a].bit() & vals[*b].bit()),
            B::Const(c) => BV::Bit(*c),
            B::Tuple(d) => BV::Tup(d.iter().map(|x| vals[*x].clone()).collect()),
            B::TupleGet(a, j) => match &vals[*a] {
                BV::Tup(v) => v.get(*j).cloned().unwrap_or(BV::Bit(false)),
                x => x.clone(),
            },
        };
        vals.push(v);
    }
    vals
}

/// which parties hold each key (owner = first sender on the NOP chain, plus receivers)
fn key_holders(g: &BitGraph) -> HashMap<usize, [bool; 3]> {
    let mut h: HashMap<usize, [bool; 3]> = HashMap::new();
    for (i, n) in g.nodes.iter().enumerate() {
        if let B::Key(k) = n {
            h.insert(*k, [false; 3]);
            let _ = i;
        }
    }
    // NOP chains with sends
    for (i, n) in g.nodes.iter().enumerate() {
        if let B::Nop(_) = n {
            if let Some(k) = key_of(&g.nodes, i) {
                let e = h.entry(k).or_insert([false; 3]);
                for (s, r) in &g.sends[i] {
                    e[*s as usize] = true;
                    e[*r as usize] = true;
                }
            }
        }
    }
    for (_, e) in h.iter_mut() {
        if !e.iter().any(|x| *x) {
            e[0] = true;
        }
    }
    h
}

pub fn corr(run: &mut Run) {
    run.rule = "bit-typed straight-line programs (1-3 scalar inputs, 1-3 operations of xor/and, constants) × owner vector in \
                {0,1,2,public}^n × output subset × 3 inlining modes: the compiled main graph is interpreted over GF(2) with one \
                independent uniform tape bit per distinct (PRF key, counter) (and per Random bit node); for each observer party \
                p the multiset over ALL tapes of (messages delivered to p at Send(_,p) nodes, PRF values whose key p holds) is \
                compared between every two assignments of the private inputs p does not own that leave p's output unchanged \
                (p not an output party: all assignments). Exhaustive in tapes and inputs per program. The interpreter is \
                cross-checked node by node against SimpleEvaluator. Non-trivial: at least one private input not owned by the observer."
        .to_owned();
    let mut rng = run.rng("views");
    let n_prog = run.tier.scale(60, 500);
    let max_tape = run.tier.scale(13, 18) as usize;
    let mut done = 0;
    let mut attempts = 0;
    while done < n_prog && attempts < n_prog * 20 {
        attempts += 1;
        // bit program
        let n_in = 1 + rng.below(3) as usize;
        let mut ops: Vec<AOp> = (0..n_in).map(|_| AOp::Input).collect();
        let n_ops = 1 + rng.below(3) as usize;
        for k in 0..n_ops {
            let n = ops.len();
            let a = if rng.chance(1, 2) { n - 1 } else { rng.below(n as u64) as usize };
            let b = rng.below(n as u64) as usize;
            ops.push(match rng.below(6) {
                0 if k + 1 < n_ops => AOp::Const(rng.below(2) as i64),
                1 | 2 => AOp::Add(a, b),
                _ => AOp::Mul(a, b),
            });
        }
        if matches!(ops.last(), Some(AOp::Const(_))) {
            continue;
        }
        let prog = AProg { st: BIT, shape: vec![], ops };
        let ctx = match prog.build() {
            Ok(c) => c,
            Err(_) => continue,
        };
        let ins: Vec<IOStatus> = (0..n_in).map(|_| match rng.below(5) { 0 => IOStatus::Public, x => IOStatus::Party(x % 3) }).collect();
        let outs = gen_outputs(&mut rng);
        let mode = rng.below(3) as u8;
        let cc = match catch(|| compile(&ctx, &ins, &outs, mode)) {
            Ok(Ok(c)) => c,
            _ => continue,
        };
        let (ir, out) = match cc.get_main_graph().and_then(|g| ir_of_graph(&g)) {
            Ok(x) => x,
            _ => continue,
        };
        let g = match to_bitgraph(&ir, out) {
            Some(g) => g,
            None => {
                run.count("outside-fragment");
                continue;
            }
        };
        if g.n_tape > max_tape {
            run.count("too-many-tape-bits");
            continue;
        }
        let descr = format!("{} ; {} ; {} nodes, {} tape bits", prog.describe(), config_name(&ins, &outs, mode), ir.len(), g.n_tape);
        // cross-check the interpreter against the real evaluator (one run)
        {
            let inputs_b: Vec<bool> = (0..n_in).map(|_| rng.chance(1, 2)).collect();
            let inputs_v: Vec<Value> = inputs_b.iter().map(|b| Value::from_scalar(*b as u8, BIT).unwrap()).collect();
            let r = catch(|| -> ciphercore_base::errors::Result<Vec<Value>> {
                let mut prng = PRNG::new(Some(rng.clone().seed16()))?;
                let types: Vec<Type> = vec![scalar_type(BIT); n_in];
                let gin = global_inputs(&ins, &types, &inputs_v, &mut prng)?;
                global_run(&cc, gin, rng.clone().seed16())
            });
            match r {
                Ok(Ok(vals)) => {
                    let mut tape = 0u64;
                    for (node, var) in &g.prf_nodes {
                        if crate::vals::bytes_of(&vals[*node]).first().map(|b| b & 1 == 1).unwrap_or(false) {
                            tape |= 1 << var;
                        }
                    }
                    for (i, n) in g.nodes.iter().enumerate() {
                        if let B::Tape(v) = n {
                            if g.tape_key[*v].is_none() && crate::vals::bytes_of(&vals[i]).first().map(|b| b & 1 == 1).unwrap_or(false) {
                                tape |= 1 << v;
                            }
                        }
                    }
                    let mine = interp(&g, &inputs_b, tape);
                    for (i, v) in mine.iter().enumerate() {
                        if let BV::Bit(b) = v {
                            let real = crate::vals::bytes_of(&vals[i]).first().map(|x| x & 1 == 1).unwrap_or(false);
                            if *b != real {
                                run.oracle_fail("C03:interpreter-mismatch", format!("{} : node {} ({}) real {} interpreted {} — two PRF nodes with equal (key,counter) gave different values, or the GF(2) interpreter misreads the graph", descr, i, op_tag(&ir[i].op), real, b));
                                break;
                            }
                        }
                    }
                    run.count("interpreter-crosschecked");
                }
                _ => {
                    run.oracle_fail("C03:eval-error", format!("{} : compiled graph does not evaluate", descr));
                    continue;
                }
            }
        }
        let holders = key_holders(&g);
        done += 1;
        run.count(&format!("tape-bits:{}", g.n_tape));
        // enumerate
        for p in 0..3usize {
            let is_out = outs.iter().any(|o| *o == IOStatus::Party(p as u64));
            // inputs the observer does not know
            let hidden: Vec<usize> = (0..n_in).filter(|i| matches!(&ins[*i], IOStatus::Party(o) if *o as usize != p)).collect();
            if hidden.is_empty() {
                continue;
            }
            let known_tape: Vec<usize> = (0..g.n_tape).filter(|v| match g.tape_key[*v] { Some(k) => holders.get(&k).map(|h| h[p]).unwrap_or(false), None => false }).collect();
            let recv_nodes: Vec<usize> = (0..g.nodes.len()).filter(|i| g.sends[*i].iter().any(|(_, r)| *r as usize == p)).collect();
            run.count(&format!("observer:{}", if is_out { "output-party" } else { "non-recipient" }));
            // fixed values for inputs the observer knows (two variants)
            for fixed in 0..2u64 {
                let mut dists: Vec<(Vec<bool>, bool, HashMap<Vec<bool>, u32>)> = vec![];
                for h in 0..(1u64 << hidden.len()) {
                    let mut inputs_b = vec![false; n_in];
                    for i in 0..n_in {
                        inputs_b[i] = (fixed.wrapping_mul(0x9E37) >> i) & 1 == 1;
                    }
                    for (j, i) in hidden.iter().enumerate() {
                        inputs_b[*i] = (h >> j) & 1 == 1;
                    }
                    let mut dist: HashMap<Vec<bool>, u32> = HashMap::new();
                    let mut outv = false;
                    for tape in 0..(1u64 << g.n_tape) {
                        let vals = interp(&g, &inputs_b, tape);
                        let mut view: Vec<bool> = vec![];
                        for r in &recv_nodes {
                            vals[*r].flat(&mut view);
                        }
                        for v in &known_tape {
                            view.push((tape >> v) & 1 == 1);
                        }
                        *dist.entry(view).or_insert(0) += 1;
                        if tape == 0 {
                            // revealed output value (for shared outputs: xor of the shares)
                            let mut f = vec![];
                            vals[g.out].flat(&mut f);
                            outv = f.iter().fold(false, |a, b| a ^ b);
                        }
                    }
                    dists.push((inputs_b, outv, dist));
                }
                run.oracle_case(&format!("{} observer {} fixed {}", descr, p, fixed), true);
                run.count_n("view-evaluations", (dists.len() as u64) << g.n_tape);
                'pairs: for a in 0..dists.len() {
                    for b in (a + 1)..dists.len() {
                        if is_out && dists[a].1 != dists[b].1 {
                            continue;
                        }
                        if dists[a].2 != dists[b].2 {
                            run.oracle_fail(
                                &format!("C03:view-distribution:{}", if is_out { "output-party" } else { "non-recipient" }),
                                format!("{} : observer party {} distinguishes inputs {:?} from {:?} (same own inputs{}): the distributions of its view over all {} tapes differ; received at nodes {:?}", descr, p, dists[a].0, dists[b].0, if is_out { " and same output" } else { "" }, 1u64 << g.n_tape, recv_nodes),
                            );
                            break 'pairs;
                        }
                    }
                }
            }
        }
    }
    run.extra.insert("programs".into(), serde_json::json!(done));
}
