//! (c) mutational robustness: text- and structure-level mutations of valid serializations.
use super::*;

fn mutate_bytes(text: &str, rng: &mut Rng) -> (String, &'static str) {
    let mut b: Vec<u8> = text.as_bytes().to_vec();
    if b.is_empty() {
        return ("x".into(), "bytes:empty");
    }
    let i = rng.below(b.len() as u64) as usize;
    let kind = match rng.below(9) {
        0 => {
            b.truncate(i);
            "bytes:truncate"
        }
        1 => {
            b.remove(i);
            "bytes:delete"
        }
        2 => {
            b[i] ^= 1 << rng.below(7);
            "bytes:bitflip"
        }
        3 => {
            b.insert(i, *rng.pick(b"\"\\{}[],:0-9e.n tfu"));
            "bytes:insert"
        }
        4 => {
            b[i] = *rng.pick(b"\"\\{}[],:0-9 ");
            "bytes:replace"
        }
        5 => {
            // replace a digit run by a boundary number
            if let Some(s) = (i..b.len()).find(|k| b[*k].is_ascii_digit()) {
                let e = (s..b.len()).find(|k| !b[*k].is_ascii_digit()).unwrap_or(b.len());
                let repl: &[u8] = *rng.pick(&[&b"18446744073709551615"[..], b"18446744073709551616", b"-1", b"1.5", b"4294967296", b"0", b"99", b"1e30", b"340282366920938463463374607431768211456"]);
                b.splice(s..e, repl.iter().cloned());
            }
            "bytes:number"
        }
        6 => {
            let j = rng.below(b.len() as u64) as usize;
            let (lo, hi) = (i.min(j), i.max(j));
            b.drain(lo..hi.min(lo + 1 + rng.below(40) as usize));
            "bytes:cut-range"
        }
        7 => {
            let j = (i + 1 + rng.below(30) as usize).min(b.len());
            let chunk: Vec<u8> = b[i..j].to_vec();
            b.splice(i..i, chunk);
            "bytes:duplicate-range"
        }
        _ => {
            b.swap(i, rng.below(text.len() as u64) as usize);
            "bytes:swap"
        }
    };
    (String::from_utf8_lossy(&b).into_owned(), kind)
}

fn paths(j: &J, cur: &mut Vec<String>, out: &mut Vec<Vec<String>>) {
    out.push(cur.clone());
    match j {
        J::Array(v) => {
            for (i, x) in v.iter().enumerate() {
                cur.push(i.to_string());
                paths(x, cur, out);
                cur.pop();
            }
        }
        J::Object(m) => {
            for (k, x) in m {
                cur.push(k.clone());
                paths(x, cur, out);
                cur.pop();
            }
        }
        _ => {}
    }
}

fn at<'a>(j: &'a mut J, path: &[String]) -> Option<&'a mut J> {
    let mut cur = j;
    for p in path {
        cur = match cur {
            J::Array(v) => v.get_mut(p.parse::<usize>().ok()?)?,
            J::Object(m) => m.get_mut(p)?,
            _ => return None,
        };
    }
    Some(cur)
}

/// one structural mutation of a JSON document
fn mutate_json(doc: &J, rng: &mut Rng) -> Option<(J, String)> {
    let mut all = vec![];
    paths(doc, &mut vec![], &mut all);
    // bias towards deep paths (tables, dependencies, operations) by picking uniformly over all paths
    let path = rng.pick(&all).clone();
    let mut d = doc.clone();
    let field = path.iter().rev().find(|p| p.parse::<usize>().is_err()).cloned().unwrap_or_else(|| "root".into());
    let kind;
    if !path.is_empty() && rng.chance(1, 5) {
        // delete / rename / duplicate at the parent
        let (parent_path, last) = path.split_at(path.len() - 1);
        let parent = at(&mut d, parent_path)?;
        match parent {
            J::Array(v) => {
                let i: usize = last[0].parse().ok()?;
                if rng.chance(1, 2) {
                    v.remove(i);
                    kind = "delete-element";
                } else {
                    let x = v[i].clone();
                    v.insert(i, x);
                    kind = "duplicate-element";
                }
            }
            J::Object(m) => {
                let x = m.remove(&last[0])?;
                if rng.chance(1, 2) {
                    m.insert(format!("{}_x", last[0]), x);
                    kind = "rename-field";
                } else {
                    kind = "delete-field";
                }
            }
            _ => return None,
        }
    } else {
        let target = at(&mut d, &path)?;
        let new = match target.clone() {
            J::Number(n) => {
                kind = "number";
                let x = n.as_u64().unwrap_or(0);
                match rng.below(9) {
                    0 => json!(x + 1),
                    1 => json!(x.saturating_sub(1)),
                    2 => json!(u64::MAX),
                    3 => json!(-1),
                    4 => json!(1.5),
                    5 => json!(x.wrapping_add(rng.below(100))),
                    6 => json!(x.to_string()),
                    7 => J::Null,
                    _ => serde_json::from_str("18446744073709551616").unwrap_or(J::Null),
                }
            }
            J::String(s) => {
                kind = "string";
                match rng.below(6) {
                    0 => json!(""),
                    1 => json!("Unknown"),
                    2 => json!(format!("{}x", s)),
                    3 => json!(7),
                    4 => json!([s]),
                    _ => {
                        // a string that itself holds JSON (nested Value payload): mutate its bytes
                        let (m, _) = mutate_bytes(&s, rng);
                        json!(m)
                    }
                }
            }
            J::Bool(b) => {
                kind = "bool";
                if rng.chance(3, 4) {
                    json!(!b)
                } else {
                    json!(b as u8)
                }
            }
            J::Null => {
                kind = "null";
                json!(rng.below(6))
            }
            J::Array(v) => {
                kind = "array";
                match rng.below(5) {
                    0 => json!([]),
                    1 => J::Null,
                    2 => json!({}),
                    3 => {
                        let mut w = v.clone();
                        w.reverse();
                        J::Array(w)
                    }
                    _ => {
                        let mut w = v.clone();
                        w.push(json!(rng.below(4)));
                        J::Array(w)
                    }
                }
            }
            J::Object(m) => {
                kind = "object";
                match rng.below(4) {
                    0 => json!({}),
                    1 => J::Null,
                    2 => json!([]),
                    _ => {
                        let mut w = m.clone();
                        w.insert("extra".into(), json!(1));
                        J::Object(w)
                    }
                }
            }
        };
        *target = new;
    }
    Some((d, format!("{}@{}", kind, field)))
}

/// an accepted Context text must re-serialize, be well-formed and round-trip
/// the harness's OWN table of fixed arities (node dependencies, graph dependencies); None = variable
fn own_arity(op: &Operation) -> (Option<usize>, usize) {
    use Operation::*;
    let nodes = match op {
        Input(_) | Zeros(_) | Ones(_) | Random(_) | Constant(_, _) | RandomPermutation(_) => Some(0),
        Truncate(_) | Sum(_) | CumSum(_) | PermuteAxes(_) | InversePermutation | CuckooToPermutation | Sort(_) | Get(_) | GetSlice(_)
        | Reshape(_) | NOP | PRF(_, _) | PermutationFromPRF(_, _) | A2B | B2A(_) | TupleGet(_) | NamedTupleGet(_) | Repeat(_)
        | ArrayToVector | VectorToArray | DecomposeSwitchingMap(_) => Some(1),
        Add | Subtract | Multiply | MixedMultiply | Dot | Matmul | VectorGet | Gather(_) | Iterate | CuckooHash | ApplyPermutation(_)
        | Join(_, _) | JoinWithColumnMasks(_, _) | Gemm(_, _) => Some(2),
        SegmentCumSum => Some(3),
        _ => None,
    };
    let graphs = if matches!(op, Call | Iterate) { 1 } else { 0 };
    (nodes, graphs)
}

/// first node of the context whose number of dependencies contradicts its operation
fn arity_violation(c: &Context) -> Option<String> {
    for g in c.get_graphs() {
        for n in g.get_nodes() {
            let op = n.get_operation();
            let (an, ag) = own_arity(&op);
            let nd = n.get_node_dependencies().len();
            let gd = n.get_graph_dependencies().len();
            if an.map_or(false, |a| a != nd) || ag != gd {
                return Some(format!("graph {} node {} ({}) has {} node dependencies and {} graph dependencies", g.get_id(), n.get_id(), format!("{:?}", op).chars().take(40).collect::<String>(), nd, gd));
            }
        }
    }
    None
}

fn check_accepted_context(run: &mut Run, c: &Context, kind: &str, text: &str) {
    let d = || format!("mutation {} text={}", kind, trunc(text, 2000));
    if let Some(why) = arity_violation(c) {
        return fail(run, "C12:accepted-ill-formed:arity", format!("{} : {}", d(), why));
    }
    let s = match ser_ctx(c) {
        Ok(s) => s,
        Err(e) => return fail(run, "C12:accepted-but-unserializable", format!("{} : {}", d(), e)),
    };
    match payload_of(&s).map(|p| wf_check(&p)) {
        Some(Ok(())) => {}
        Some(Err(rule)) => return fail(run, &format!("C12:accepted-ill-formed:{}", rule), d()),
        None => return fail(run, "C12:envelope-shape", d()),
    }
    match de_ctx(&s) {
        Ok(Ok(c2)) => {
            if !contexts_deep_equal(c, &c2) || ser_ctx(&c2).ok().as_deref() != Some(&s) {
                fail(run, "C12:accepted-does-not-roundtrip", d());
            }
        }
        Ok(Err(e)) => fail(run, "C12:accepted-does-not-roundtrip", format!("{} : {}", d(), trunc(&e, 200))),
        Err(p) => fail(run, &panic_sig(&p, Some(&s)), format!("{} : re-deserialization: {}", d(), p)),
    }
}

fn try_context_text(run: &mut Run, text: &str, original: &str, kind: &str, must_fail: bool) {
    run.oracle_case(&format!("ctx-mutant {} {}", kind, trunc(text, 200)), text != original);
    let class = kind.split('@').next().unwrap_or(kind).to_owned();
    match de_ctx(text) {
        Err(p) => {
            run.count(&format!("robust:ctx:{}:PANIC", class));
            fail(run, &panic_sig(&p, Some(text)), format!("mutation {} at {}: {} ; text={}", kind, last_panic_loc(), trunc(&p, 200), trunc(text, 2000)));
        }
        Ok(Err(_)) => run.count(&format!("robust:ctx:{}:err", class)),
        Ok(Ok(c)) => {
            run.count(&format!("robust:ctx:{}:ok", class));
            if must_fail {
                fail(run, &format!("C12:accepted-invalid-envelope:{}", class), format!("text={}", trunc(text, 600)));
            }
            check_accepted_context(run, &c, kind, text);
        }
    }
}

fn corpus(rng: &mut Rng, run: &mut Run) -> Vec<String> {
    let mut v = vec![];
    for (_, c) in prov::hand_built(rng) {
        if let Ok(c) = c {
            if let Ok(s) = ser_ctx(&c) {
                v.push(s);
            }
        }
    }
    for (name, c) in prov::custom_op_contexts() {
        if ["Mux", "Clip2K", "LongDivision(true)", "SortByIntegerKey", "FixedMultiply(debug=true)", "AucScore", "GreaterThan(true)"].contains(&name.as_str()) {
            if let Ok(c) = c {
                if let Ok(s) = ser_ctx(&c) {
                    v.push(s);
                }
                if name == "Mux" || name == "Clip2K" {
                    if let Ok(Ok(m)) = catch(|| run_instantiation_pass(c.clone())) {
                        if let Ok(s) = ser_ctx(&m.get_context()) {
                            v.push(s);
                        }
                    }
                }
            }
        }
    }
    for _ in 0..12 {
        let a = gen_actx(rng);
        if let Ok(Ok(c)) = catch(|| build(&a)) {
            if let Ok(s) = ser_ctx(&c) {
                v.push(s);
            }
        }
    }
    // Call and Iterate nodes (graph dependencies, fixed arity 2 of Iterate)
    for _ in 0..3 {
        if let Ok(Ok(fam)) = catch(|| call_iterate_family(rng)) {
            if let Ok(s) = ser_ctx(&fam.ctx) {
                v.push(s);
            }
        }
    }
    // one small compiled context
    for _ in 0..20 {
        if let Ok(Ok(fam)) = catch(|| arith_family(rng, 2)) {
            let ins: Vec<IOStatus> = fam.in_types.iter().map(|_| IOStatus::Party(0)).collect();
            if let Ok(Ok(cc)) = catch(|| compile(&fam.ctx, &ins, &[IOStatus::Party(1)], 0)) {
                if let Ok(s) = ser_ctx(&cc) {
                    if s.len() < 60_000 {
                        v.push(s);
                        break;
                    }
                }
            }
        }
    }
    run.count_n("robust:corpus-texts", v.len() as u64);
    v
}

fn envelope_mutants(text: &str, rng: &mut Rng) -> Vec<(String, &'static str, bool)> {
    let outer: J = serde_json::from_str(text).unwrap_or(J::Null);
    let data = outer.get("data").cloned().unwrap_or(J::Null);
    let mut v: Vec<(String, &'static str, bool)> = vec![];
    for ver in [json!(0), json!(1), json!(3), json!(-2), json!(u64::MAX), json!("2"), J::Null, json!(2.5), json!([2])] {
        v.push((json!({"version": ver, "data": data}).to_string(), "envelope:version", true));
    }
    v.push((json!({"data": data}).to_string(), "envelope:no-version", true));
    v.push((json!({"version": 2}).to_string(), "envelope:no-data", true));
    v.push((json!({"version": 2, "data": null}).to_string(), "envelope:data-null", true));
    v.push((json!({"version": 2, "data": 17}).to_string(), "envelope:data-number", true));
    v.push((json!({"version": 2, "data": ""}).to_string(), "envelope:data-empty", true));
    v.push((json!({"version": 2, "data": "null"}).to_string(), "envelope:data-json-null", true));
    v.push((json!({"version": 2, "data": "{}"}).to_string(), "envelope:data-empty-object", true));
    v.push((json!({"version": 2, "data": "[]"}).to_string(), "envelope:data-array", true));
    v.push((json!({"version": 2, "data": "{\"finalized\":false}"}).to_string(), "envelope:data-partial", true));
    v.push((json!([2, data]).to_string(), "envelope:array", false));
    v.push((json!({"version": 2, "data": data, "extra": 1}).to_string(), "envelope:extra-field", false));
    v.push((json!({"version": 2, "data": payload_of(text).unwrap_or(J::Null)}).to_string(), "envelope:data-not-a-string", true));
    v.push((String::new(), "envelope:empty-text", true));
    v.push(("null".into(), "envelope:null", true));
    v.push((format!("{} ", text), "envelope:trailing-space", false));
    v.push((format!("{}x", text), "envelope:trailing-garbage", true));
    v.push((format!("{}{}", text, text), "envelope:twice", true));
    for _ in 0..4 {
        let cut = rng.below(text.len() as u64) as usize;
        let mut e = cut;
        while !text.is_char_boundary(e) {
            e -= 1;
        }
        v.push((text[..e].to_owned(), "envelope:truncated", true));
    }
    v
}

fn stream_context_robustness(run: &mut Run) {
    let mut rng = run.rng("robust");
    let texts = corpus(&mut rng, run);
    for t in &texts {
        for (m, kind, must_fail) in envelope_mutants(t, &mut rng) {
            try_context_text(run, &m, t, kind, must_fail);
        }
    }
    let n = run.tier.scale(8000, 60000);
    for _ in 0..n {
        let t = rng.pick(&texts);
        let payload_text = match serde_json::from_str::<J>(t).ok().and_then(|o| o.get("data").and_then(|d| d.as_str().map(|s| s.to_owned()))) {
            Some(p) => p,
            None => continue,
        };
        match rng.below(10) {
            0 | 1 => {
                let (m, kind) = mutate_bytes(t, &mut rng);
                try_context_text(run, &m, t, &format!("outer-{}", kind), false);
            }
            2 | 3 | 4 => {
                let (m, kind) = mutate_bytes(&payload_text, &mut rng);
                let text = json!({"version": 2, "data": m}).to_string();
                try_context_text(run, &text, t, &format!("inner-{}", kind), false);
            }
            _ => {
                let p: J = match serde_json::from_str(&payload_text) {
                    Ok(p) => p,
                    Err(_) => continue,
                };
                let mut cur = p;
                let mut kinds = vec![];
                for _ in 0..(1 + rng.below(2)) {
                    if let Some((d, k)) = mutate_json(&cur, &mut rng) {
                        cur = d;
                        kinds.push(k);
                    }
                }
                if kinds.is_empty() {
                    continue;
                }
                try_context_text(run, &wrap(&cur), t, &format!("json:{}", kinds.join("+")), false);
            }
        }
    }
}

fn gen_value(rng: &mut Rng, depth: u32) -> Value {
    if depth == 0 || rng.chance(1, 2) {
        let n = rng.below(20) as usize;
        Value::from_bytes((0..n).map(|_| rng.below(256) as u8).collect())
    } else {
        let n = rng.below(4) as usize;
        Value::from_vector((0..n).map(|_| gen_value(rng, depth - 1)).collect())
    }
}

fn stream_value_robustness(run: &mut Run) {
    let mut rng = run.rng("robust-value");
    let n = run.tier.scale(4000, 30000);
    for it in 0..n {
        let v = gen_value(&mut rng, 3);
        let text = match catch(|| serde_json::to_string(&v)) {
            Ok(Ok(t)) => t,
            _ => {
                fail(run, "C12:value:serialize-failed", format!("{:?}", v));
                continue;
            }
        };
        if it % 5 == 0 {
            run.oracle_case(&format!("value roundtrip {}", trunc(&text, 200)), true);
            match catch(|| serde_json::from_str::<Value>(&text)) {
                Ok(Ok(v2)) if v2 == v && serde_json::to_string(&v2).ok().as_deref() == Some(&text) => run.count("value:roundtrip:ok"),
                Ok(_) => fail(run, "C12:value:roundtrip", text.clone()),
                Err(p) => fail(run, &panic_sig(&p, None), format!("valid Value text: {} : {}", p, text)),
            }
        }
        let (m, kind) = match rng.below(4) {
            0 => {
                let (m, k) = mutate_bytes(&text, &mut rng);
                (m, format!("outer-{}", k))
            }
            1 => {
                let ms = envelope_mutants(&text, &mut rng);
                let (m, k, _) = rng.pick(&ms).clone();
                (m, k.to_owned())
            }
            x => {
                let inner = serde_json::from_str::<J>(&text).ok().and_then(|o| o.get("data").and_then(|d| d.as_str().map(|s| s.to_owned()))).unwrap_or_default();
                if x == 2 {
                    let (m, k) = mutate_bytes(&inner, &mut rng);
                    (json!({"version": 2, "data": m}).to_string(), format!("inner-{}", k))
                } else {
                    match serde_json::from_str::<J>(&inner).ok().and_then(|p| mutate_json(&p, &mut rng)) {
                        Some((d, k)) => (wrap(&d), format!("json:{}", k)),
                        None => continue,
                    }
                }
            }
        };
        run.oracle_case(&format!("value-mutant {} {}", kind, trunc(&m, 200)), m != text);
        let class = kind.split('@').next().unwrap_or(&kind).to_owned();
        match catch(|| serde_json::from_str::<Value>(&m)) {
            Err(p) => {
                run.count(&format!("robust:value:{}:PANIC", class));
                fail(run, &panic_sig(&p, None), format!("Value mutation {} at {}: {} ; text={}", kind, last_panic_loc(), trunc(&p, 200), trunc(&m, 1000)));
            }
            Ok(Err(_)) => run.count(&format!("robust:value:{}:err", class)),
            Ok(Ok(v2)) => {
                run.count(&format!("robust:value:{}:ok", class));
                match catch(|| serde_json::to_string(&v2).ok().and_then(|t| serde_json::from_str::<Value>(&t).ok())) {
                    Ok(Some(v3)) if v3 == v2 => {}
                    _ => fail(run, "C12:value:accepted-does-not-roundtrip", trunc(&m, 1000)),
                }
            }
        }
    }
}

fn gen_typed(rng: &mut Rng, depth: u32) -> Option<TypedValue> {
    let st = *rng.pick(&[BIT, UINT8, INT8, INT16, UINT32, INT32, UINT64, INT64, UINT128, INT128]);
    let t = match rng.below(if depth == 0 { 2 } else { 5 }) {
        0 => scalar_type(st),
        1 => array_type(crate::vals::gen_shape(rng, 2, 3, 6), st),
        2 => tuple_type(vec![scalar_type(st), array_type(vec![2], INT32)]),
        3 => vector_type(2, scalar_type(st)),
        _ => named_tuple_type(vec![("a".to_owned(), scalar_type(st)), ("b".to_owned(), array_type(vec![2, 2], BIT))]),
    };
    let mut prng = PRNG::new(Some(rng.seed16())).ok()?;
    let v = prng.get_random_value(t.clone()).ok()?;
    TypedValue::new(t, v).ok()
}

fn stream_typed_value_robustness(run: &mut Run) {
    let mut rng = run.rng("robust-typed");
    let n = run.tier.scale(4000, 30000);
    for it in 0..n {
        let tv = match gen_typed(&mut rng, 1) {
            Some(t) => t,
            None => continue,
        };
        let text = match catch(|| serde_json::to_string(&tv)) {
            Ok(Ok(t)) => t,
            Ok(Err(_)) => {
                run.count("typed:serialize-error");
                continue;
            }
            Err(p) => {
                fail(run, "C12:panic:typed-value-serialize", format!("{:?}: {}", tv.t, p));
                continue;
            }
        };
        if it % 5 == 0 {
            run.oracle_case(&format!("typed roundtrip {}", trunc(&text, 200)), true);
            match catch(|| serde_json::from_str::<TypedValue>(&text)) {
                Ok(Ok(t2)) if t2.t == tv.t && t2.value == tv.value => run.count("typed:roundtrip:ok"),
                Ok(Ok(_)) => fail(run, "C12:typed:roundtrip-differs", text.clone()),
                Ok(Err(e)) => fail(run, "C12:typed:roundtrip-error", format!("{} : {}", text, e)),
                Err(p) => fail(run, "C12:panic:typed-value-deserialize", format!("valid text {} : {} at {}", text, p, last_panic_loc())),
            }
        }
        let (m, kind) = if rng.chance(1, 3) {
            let (m, k) = mutate_bytes(&text, &mut rng);
            (m, k.to_owned())
        } else {
            match serde_json::from_str::<J>(&text).ok().and_then(|p| mutate_json(&p, &mut rng)) {
                Some((d, k)) => (d.to_string(), format!("json:{}", k)),
                None => continue,
            }
        };
        run.oracle_case(&format!("typed-mutant {} {}", kind, trunc(&m, 200)), m != text);
        let class = kind.split('@').next().unwrap_or(&kind).to_owned();
        match catch(|| serde_json::from_str::<TypedValue>(&m)) {
            Err(p) => {
                run.count(&format!("robust:typed:{}:PANIC", class));
                let loc = last_panic_loc();
                let site = loc.rsplit('/').next().unwrap_or("").split(':').next().unwrap_or("").replace(".rs", "");
                fail(run, &format!("C12:panic:typed-value:{}", site), format!("TypedValue mutation {} at {}: {} ; text={}", kind, loc, trunc(&p, 200), trunc(&m, 1000)));
            }
            Ok(Err(_)) => run.count(&format!("robust:typed:{}:err", class)),
            Ok(Ok(t2)) => {
                run.count(&format!("robust:typed:{}:ok", class));
                match catch(|| t2.value.check_type(t2.t.clone())) {
                    Ok(Ok(true)) => {}
                    _ => fail(run, "C12:typed:accepted-ill-typed", trunc(&m, 1000)),
                }
                if catch(|| serde_json::to_string(&t2)).is_err() {
                    fail(run, "C12:panic:typed-value-serialize", format!("accepted text {}", trunc(&m, 1000)));
                }
            }
        }
    }
}

/// directed: change the NUMBER of node / graph dependencies of every node of every corpus text (drop the
/// last one, repeat the first one, append node 0, drop all); the result must be rejected, or accepted as a
/// well-formed context — never a panic, never a node whose arity contradicts its operation
fn stream_arity(run: &mut Run) {
    let mut rng = run.rng("arity");
    let texts = corpus(&mut rng, run);
    let per_text = run.tier.scale(60, 400) as usize;
    for t in &texts {
        let payload: J = match payload_of(t) {
            Some(p) => p,
            None => continue,
        };
        let mut sites: Vec<(usize, usize)> = vec![];
        if let Some(gs) = payload.get("graphs").and_then(|g| g.as_array()) {
            for (gi, g) in gs.iter().enumerate() {
                if let Some(ns) = g.get("nodes").and_then(|n| n.as_array()) {
                    for k in 0..ns.len() {
                        sites.push((gi, k));
                    }
                }
            }
        }
        rng.shuffle(&mut sites);
        // nodes with graph dependencies (Call / Iterate) first
        sites.sort_by_key(|(gi, k)| payload["graphs"][*gi]["nodes"][*k]["graph_dependencies"].as_array().map_or(1, |a| if a.is_empty() { 1 } else { 0 }));
        for (gi, k) in sites.into_iter().take(per_text) {
            for field in ["node_dependencies", "graph_dependencies"] {
                for variant in 0..4 {
                    let mut p = payload.clone();
                    let arr = match p["graphs"][gi]["nodes"][k][field].as_array_mut() {
                        Some(a) => a,
                        None => continue,
                    };
                    let name = match variant {
                        0 => {
                            if arr.is_empty() {
                                continue;
                            }
                            arr.pop();
                            "drop-last"
                        }
                        1 => {
                            if arr.is_empty() {
                                continue;
                            }
                            let x = arr[0].clone();
                            arr.push(x);
                            "repeat-first"
                        }
                        2 => {
                            if k == 0 && field == "node_dependencies" || gi == 0 && field == "graph_dependencies" {
                                continue;
                            }
                            arr.push(json!(0));
                            "append-0"
                        }
                        _ => {
                            if arr.len() < 2 {
                                continue;
                            }
                            arr.clear();
                            "drop-all"
                        }
                    };
                    let op = payload["graphs"][gi]["nodes"][k]["operation"].to_string();
                    let opname: String = op.chars().filter(|c| c.is_alphanumeric()).take(16).collect();
                    run.count(&format!("arity:{}:{}", field, name));
                    run.count(&format!("arity:op:{}", opname));
                    try_context_text(run, &wrap(&p), t, &format!("arity:{}:{}@{}", field, name, opname), false);
                }
            }
        }
    }
}

pub fn stream_robustness(run: &mut Run) {
    run.rule.push_str(" Arity stream: for every node of every corpus text the number of node / graph dependencies is changed (drop last, repeat first, append 0, drop all): must be rejected or accepted as a context whose every node has the arity of its operation (own table).");
    stream_arity(run);
    stream_context_robustness(run);
    stream_value_robustness(run);
    stream_typed_value_robustness(run);
}
