//! C04 — every pseudo-random mask is fresh.
//! corr: (a) model of uniquify_prf_id vs the real function on generated contexts;
//!       (b) oracle: PRF counters pairwise distinct in the final compiled main graph (all families, modes);
//!       (c) oracle: optimize_context on generated inlined graphs with Random/PRF nodes never folds,
//!           merges or duplicates a randomising / PRF node and only drops it when the output does not
//!           depend on it.
//! gen: op classification tables executed from the code + PRF counter lists of compiled graphs.
use crate::c01::config_name;
use crate::families::*;
use crate::mpc_common::*;
use crate::util::*;
use ciphercore_base::data_types::*;
use ciphercore_base::data_values::Value;
use ciphercore_base::errors::Result;
use ciphercore_base::evaluators::simple_evaluator::SimpleEvaluator;
use ciphercore_base::graphs::*;
use ciphercore_base::mpc::mpc_compiler::{uniquify_prf_id, IOStatus};
use ciphercore_base::optimizer::optimize::optimize_context;
use std::collections::{HashMap, HashSet};

fn key_type() -> Type {
    array_type(vec![128], BIT)
}

fn prf_iv(op: &Operation) -> Option<u64> {
    match op {
        Operation::PRF(iv, _) | Operation::PermutationFromPRF(iv, _) => Some(*iv),
        _ => None,
    }
}

/// context with several graphs containing PRF nodes with arbitrary placeholder counters
fn gen_prf_context(rng: &mut Rng) -> Result<Context> {
    let c = create_context()?;
    let n_graphs = 1 + rng.below(3);
    let mut last = None;
    for _ in 0..n_graphs {
        let g = c.create_graph()?;
        let k = g.input(key_type())?;
        let t = array_type(vec![2], INT32);
        let mut acc = g.input(t.clone())?;
        let n = rng.below(6);
        for _ in 0..n {
            match rng.below(4) {
                0 => {
                    acc = acc.add(k.prf(rng.below(3), t.clone())?)?;
                }
                1 => {
                    let p = k.permutation_from_prf(rng.below(3), 2)?;
                    acc = acc.apply_permutation(p)?;
                }
                2 => {
                    let k2 = g.random(key_type())?;
                    acc = acc.subtract(k2.prf(0, t.clone())?)?;
                }
                _ => {
                    acc = acc.multiply(acc.clone())?;
                }
            }
        }
        acc.set_as_output()?;
        g.finalize()?;
        last = Some(g);
    }
    c.set_main_graph(last.unwrap())?;
    c.finalize()?;
    Ok(c)
}

fn show_ctx_prf(c: &Context) -> String {
    c.get_graphs()
        .iter()
        .map(|g| {
            let v: Vec<String> = g.get_nodes().iter().map(|n| match prf_iv(&n.get_operation()) { Some(iv) => iv.to_string(), None => "n".to_owned() }).collect();
            if v.is_empty() { "_".to_owned() } else { v.join(",") }
        })
        .collect::<Vec<_>>()
        .join("|")
}

/// inlined single-graph context with Random / PRF / duplicate / dangling / constant / annotated nodes
fn gen_opt_graph(rng: &mut Rng) -> Result<(Context, Vec<String>)> {
    let c = create_context()?;
    let g = c.create_graph()?;
    let t = array_type(vec![2], UINT64);
    let mut feats = vec![];
    let mut vals: Vec<Node> = vec![g.input(t.clone())?];
    let mut keys: Vec<Node> = vec![];
    let n = 3 + rng.below(10);
    for _ in 0..n {
        match rng.below(12) {
            0 => {
                keys.push(g.random(key_type())?);
                feats.push("random-key".to_owned());
            }
            1 => {
                let bits: Vec<u8> = (0..128).map(|_| rng.below(2) as u8).collect();
                keys.push(g.constant(key_type(), Value::from_flattened_array(&bits, BIT)?)?);
                feats.push("constant-key".to_owned());
            }
            2 => {
                keys.push(g.input(key_type())?);
                feats.push("input-key".to_owned());
            }
            3 | 4 | 5 if !keys.is_empty() => {
                let k = rng.pick(&keys).clone();
                // same counter on purpose in some cases: two PRF nodes with equal (key, iv) are still two nodes
                vals.push(k.prf(rng.below(2), t.clone())?);
                feats.push("prf".to_owned());
            }
            6 => {
                vals.push(g.random(t.clone())?);
                feats.push("random-value".to_owned());
            }
            7 => {
                let a = rng.pick(&vals).clone();
                let b = rng.pick(&vals).clone();
                vals.push(a.add(b)?);
            }
            8 => {
                // duplicate sub-expression
                let a = rng.pick(&vals).clone();
                let b = rng.pick(&vals).clone();
                vals.push(a.multiply(b.clone())?);
                vals.push(a.multiply(b)?);
                feats.push("duplicate".to_owned());
            }
            9 => {
                let a = rng.pick(&vals).clone();
                let nop = a.nop()?;
                nop.add_annotation(NodeAnnotation::Send(rng.below(3), rng.below(3)))?;
                vals.push(nop);
                feats.push("send".to_owned());
            }
            10 => {
                vals.push(g.constant(t.clone(), Value::from_flattened_array(&[rng.below(5), 7], UINT64)?)?);
                feats.push("constant".to_owned());
            }
            _ => {
                if !keys.is_empty() {
                    let k = rng.pick(&keys).clone();
                    let p = k.permutation_from_prf(rng.below(2), 2)?;
                    let a = rng.pick(&vals).clone();
                    vals.push(a.apply_permutation(p)?);
                    feats.push("permutation-from-prf".to_owned());
                }
            }
        }
    }
    // randomising permutation helpers (CuckooToPermutation, DecomposeSwitchingMap, RandomPermutation):
    // twice on the same node (must not be merged) or on a constant (must not be folded)
    if rng.chance(1, 3) {
        let tt = array_type(vec![16], UINT64);
        let mut table = vec![u64::MAX; 16];
        table[1] = 2;
        table[6] = 0;
        table[7] = 3;
        table[12] = 1;
        let smap: Vec<u64> = vec![1, 4, 4, 5, 7, 2, 4, 1];
        let which = rng.below(3);
        let src = if rng.chance(1, 2) {
            feats.push("randomising-on-constant".to_owned());
            if which == 0 { g.constant(tt.clone(), Value::from_flattened_array(&table, UINT64)?)? } else { g.constant(array_type(vec![8], UINT64), Value::from_flattened_array(&smap, UINT64)?)? }
        } else {
            feats.push("randomising-on-input".to_owned());
            if which == 0 { g.input(tt.clone())? } else { g.input(array_type(vec![8], UINT64))? }
        };
        let mk = |n: &Node| -> Result<Node> {
            match which {
                0 => n.cuckoo_to_permutation()?.get_slice(vec![SliceElement::SubArray(Some(0), Some(2), None)]),
                1 => n.decompose_switching_map(16)?.tuple_get(0)?.get_slice(vec![SliceElement::SubArray(Some(0), Some(2), None)]),
                _ => n.get_graph().random_permutation(2),
            }
        };
        let a = mk(&src)?;
        let b = mk(&src)?;
        vals.push(a.add(b)?);
    }
    // output depends on a random subset: sum of some values
    let mut out = vals[rng.below(vals.len() as u64) as usize].clone();
    for v in vals.iter() {
        if rng.chance(1, 2) {
            out = out.add(v.clone())?;
        }
    }
    out.set_as_output()?;
    g.finalize()?;
    c.set_main_graph(g)?;
    c.finalize()?;
    Ok((c, feats))
}

fn reachable(g: &Graph) -> Result<HashSet<u64>> {
    let mut seen = HashSet::new();
    let mut stack = vec![g.get_output_node()?];
    while let Some(n) = stack.pop() {
        if seen.insert(n.get_id()) {
            for d in n.get_node_dependencies() {
                stack.push(d);
            }
        }
    }
    Ok(seen)
}

/// the oracle's OWN classification (independent of graphs.rs predicates, which are under test)
fn is_rand_or_prf(op: &Operation) -> bool {
    matches!(
        op,
        Operation::Random(_)
            | Operation::RandomPermutation(_)
            | Operation::CuckooToPermutation
            | Operation::DecomposeSwitchingMap(_)
            | Operation::PRF(_, _)
            | Operation::PermutationFromPRF(_, _)
    )
}

pub fn corr(run: &mut Run) {
    run.rule = "(a) contexts with 1-3 graphs containing PRF / PermutationFromPRF nodes with placeholder counters: model's uniquify vs \
                uniquify_prf_id (model request per context); (b) compile_context output for generated programs (all families incl. sort \
                and join, 3 inlining modes, random owner/output configs): PRF counters of the final main graph pairwise distinct; \
                (c) optimize_context on generated inlined graphs with Random/PRF/constant-key/duplicate/dangling/annotated nodes: \
                no randomising or PRF node becomes a constant, is merged or duplicated; dropped only if the output does not depend on it. \
                Non-trivial: context contains at least one PRF or Random node."
        .to_owned();
    // (a)
    let mut rng = run.rng("uniquify");
    for _ in 0..run.tier.scale(150, 1500) {
        let c = match gen_prf_context(&mut rng) {
            Ok(c) => c,
            Err(_) => {
                run.count("a:gen-failed");
                continue;
            }
        };
        let before = show_ctx_prf(&c);
        match catch(|| uniquify_prf_id(c.clone())) {
            Ok(Ok(m)) => {
                let after = show_ctx_prf(&m.get_context());
                run.case(format!("uniquify {}", before), after.clone(), before.chars().any(|ch| ch.is_ascii_digit()));
                let ivs: Vec<u64> = m.get_context().get_graphs().iter().flat_map(|g| g.get_nodes()).filter_map(|n| prf_iv(&n.get_operation())).collect();
                let want: Vec<u64> = (1..=ivs.len() as u64).collect();
                if ivs != want {
                    run.oracle_fail("C04:uniquify:not-1..n", format!("uniquify_prf_id on [{}] gives [{}]", before, after));
                }
                run.count("a:ok");
            }
            _ => run.oracle_fail("C04:uniquify:error", format!("uniquify_prf_id failed on [{}]", before)),
        }
    }
    // (b)
    let mut rng = run.rng("compiled");
    let n = run.tier.scale(60, 600);
    for it in 0..n {
        let heavy = it % 6 == 0;
        let fam = match catch(|| gen_family(&mut rng, heavy)) {
            Ok(Ok(f)) => f,
            _ => continue,
        };
        let ins: Vec<IOStatus> = fam.in_types.iter().map(|_| gen_status(&mut rng)).collect();
        let outs = gen_outputs(&mut rng);
        let mode = rng.below(3) as u8;
        let cc = match catch(|| compile(&fam.ctx, &ins, &outs, mode)) {
            Ok(Ok(c)) => c,
            _ => {
                run.count("b:compile-rejected");
                continue;
            }
        };
        let g = cc.get_main_graph().unwrap();
        let ivs: Vec<u64> = g.get_nodes().iter().filter_map(|n| prf_iv(&n.get_operation())).collect();
        let descr = format!("{} [{}] {}", fam.name, fam.descr, config_name(&ins, &outs, mode));
        run.oracle_case(&descr, !ivs.is_empty());
        run.count(&format!("b:family:{}", fam.name));
        run.count_n("b:prf-nodes", ivs.len() as u64);
        let set: HashSet<u64> = ivs.iter().cloned().collect();
        if set.len() != ivs.len() {
            let mut seen = HashSet::new();
            let dup = ivs.iter().find(|x| !seen.insert(**x)).unwrap();
            run.oracle_fail(&format!("C04:duplicate-counter:{}", fam.name), format!("{} : counter {} carried by two PRF nodes of the compiled graph", descr, dup));
        }
        if it % 10 == 0 && ivs.len() < 400 {
            run.case(format!("distinct {}", show_list(&ivs)), if set.len() == ivs.len() { "1".into() } else { "0".into() }, true);
        }
    }
    // (c)
    let mut rng = run.rng("optimizer");
    for _ in 0..run.tier.scale(300, 4000) {
        let (c, feats) = match gen_opt_graph(&mut rng) {
            Ok(x) => x,
            Err(_) => {
                run.count("c:gen-failed");
                continue;
            }
        };
        for f in &feats {
            run.count(&format!("c:feature:{}", f));
        }
        let g = c.get_main_graph().unwrap();
        let descr = format!("optimizer graph: {}", g.get_nodes().iter().map(|n| format!("{}{:?}", op_tag(&n.get_operation()), n.get_node_dependencies().iter().map(|d| d.get_id()).collect::<Vec<_>>())).collect::<Vec<_>>().join(" "));
        let has = g.get_nodes().iter().any(|n| is_rand_or_prf(&n.get_operation()));
        run.oracle_case(&descr, has);
        let m = match catch(|| optimize_context(&c, SimpleEvaluator::new(None)?)) {
            Ok(Ok(m)) => m,
            Ok(Err(e)) => {
                run.oracle_fail("C04:optimizer:error", format!("{} : {}", descr, trunc(&format!("{}", e), 160)));
                continue;
            }
            Err(p) => {
                run.oracle_fail("C04:optimizer:panic", format!("{} : {}", descr, p));
                continue;
            }
        };
        let ng = m.get_context().get_main_graph().unwrap();
        let reach = reachable(&g).unwrap();
        let mut targets: HashMap<u64, u64> = HashMap::new();
        for n in g.get_nodes() {
            let op = n.get_operation();
            if !is_rand_or_prf(&op) {
                continue;
            }
            let kind = if matches!(op, Operation::PRF(_, _) | Operation::PermutationFromPRF(_, _)) { "prf" } else { "random" };
            if !m.mappings.contains_node(&n) {
                if reach.contains(&n.get_id()) {
                    run.oracle_fail(&format!("C04:optimizer:dropped-needed:{}", kind), format!("{} : node {} is needed by the output but has no image", descr, n.get_id()));
                }
                continue;
            }
            let t = m.mappings.get_node(&n);
            if format!("{:?}", t.get_operation()) != format!("{:?}", op) {
                let sig = if matches!(t.get_operation(), Operation::Constant(_, _)) { format!("C04:optimizer:folded-to-constant:{}", kind) } else { format!("C04:optimizer:changed-op:{}", kind) };
                run.oracle_fail(&sig, format!("{} : node {} ({}) is mapped to {}", descr, n.get_id(), op_tag(&op), op_tag(&t.get_operation())));
                continue;
            }
            if let Some(prev) = targets.insert(t.get_id(), n.get_id()) {
                run.oracle_fail(&format!("C04:optimizer:merged:{}", kind), format!("{} : nodes {} and {} are mapped to the same node", descr, prev, n.get_id()));
            }
        }
        let old_count = g.get_nodes().iter().filter(|n| is_rand_or_prf(&n.get_operation())).count();
        let new_count = ng.get_nodes().iter().filter(|n| is_rand_or_prf(&n.get_operation())).count();
        if new_count > old_count || new_count != targets.len() {
            run.oracle_fail("C04:optimizer:duplicated", format!("{} : {} randomising/PRF nodes before, {} after, {} images", descr, old_count, new_count, targets.len()));
        }
    }
}

/// representatives of every Operation variant that can occur in an inlined graph
fn op_representatives() -> Vec<(String, Operation)> {
    let t = array_type(vec![2], UINT64);
    let s = |x: &str| x.to_owned();
    vec![
        (s("Input"), Operation::Input(t.clone())),
        (s("Zeros"), Operation::Zeros(t.clone())),
        (s("Ones"), Operation::Ones(t.clone())),
        (s("Add"), Operation::Add),
        (s("Subtract"), Operation::Subtract),
        (s("Multiply"), Operation::Multiply),
        (s("MixedMultiply"), Operation::MixedMultiply),
        (s("Dot"), Operation::Dot),
        (s("Matmul"), Operation::Matmul),
        (s("Gemm"), Operation::Gemm(false, true)),
        (s("Truncate"), Operation::Truncate(4)),
        (s("Sum"), Operation::Sum(vec![0])),
        (s("CumSum"), Operation::CumSum(0)),
        (s("PermuteAxes"), Operation::PermuteAxes(vec![0])),
        (s("Get"), Operation::Get(vec![0])),
        (s("GetSlice"), Operation::GetSlice(vec![SliceElement::Ellipsis])),
        (s("Reshape"), Operation::Reshape(t.clone())),
        (s("NOP"), Operation::NOP),
        (s("Random"), Operation::Random(t.clone())),
        (s("PRF"), Operation::PRF(0, t.clone())),
        (s("PermutationFromPRF"), Operation::PermutationFromPRF(0, 4)),
        (s("Stack"), Operation::Stack(vec![2])),
        (s("Concatenate"), Operation::Concatenate(0)),
        (s("Constant"), Operation::Constant(t.clone(), Value::zero_of_type(t.clone()))),
        (s("A2B"), Operation::A2B),
        (s("B2A"), Operation::B2A(UINT64)),
        (s("CreateTuple"), Operation::CreateTuple),
        (s("CreateNamedTuple"), Operation::CreateNamedTuple(vec![s("a")])),
        (s("CreateVector"), Operation::CreateVector(t.clone())),
        (s("TupleGet"), Operation::TupleGet(0)),
        (s("NamedTupleGet"), Operation::NamedTupleGet(s("a"))),
        (s("VectorGet"), Operation::VectorGet),
        (s("Zip"), Operation::Zip),
        (s("Repeat"), Operation::Repeat(2)),
        (s("ArrayToVector"), Operation::ArrayToVector),
        (s("VectorToArray"), Operation::VectorToArray),
        (s("RandomPermutation"), Operation::RandomPermutation(4)),
        (s("Gather"), Operation::Gather(0)),
        (s("CuckooHash"), Operation::CuckooHash),
        (s("InversePermutation"), Operation::InversePermutation),
        (s("CuckooToPermutation"), Operation::CuckooToPermutation),
        (s("DecomposeSwitchingMap"), Operation::DecomposeSwitchingMap(4)),
        (s("SegmentCumSum"), Operation::SegmentCumSum),
        (s("ApplyPermutation"), Operation::ApplyPermutation(false)),
        (s("Sort"), Operation::Sort(s("k"))),
        (s("Print"), Operation::Print(s("m"))),
        (s("Assert"), Operation::Assert(s("m"))),
    ]
}

/// (T) classification tables + PRF counter lists of compiled graphs
pub fn gen(run: &mut Run, out_dir: &str) {
    use std::fmt::Write as _;
    let mut s = String::from("import CCV.Model.PrfIds\nset_option maxRecDepth 1000000\nnamespace CCV.Generated.C04\nopen CCV.PrfIds\n\n");
    s += "/-- (name, is_prf_operation, is_randomizing, is_const_optimizable, is_input) obtained by EXECUTING the predicates of graphs.rs -/\n";
    s += "def opTable : List (String × Bool × Bool × Bool × Bool) := [\n";
    let reps = op_representatives();
    for (i, (name, op)) in reps.iter().enumerate() {
        let r = op.is_randomizing().unwrap_or(false);
        let c = op.is_const_optimizable().unwrap_or(false);
        writeln!(s, "  (\"{}\", {}, {}, {}, {}){}", name, op.is_prf_operation(), r, c, op.is_input(), if i + 1 == reps.len() { "" } else { "," }).unwrap();
    }
    s += "]\n\n";
    s += "/-- the operations that draw fresh randomness -/\ndef randomisingOps : List String := [\"Random\", \"RandomPermutation\", \"CuckooToPermutation\", \"DecomposeSwitchingMap\"]\n";
    s += "/-- the operations that evaluate a PRF -/\ndef prfOps : List String := [\"PRF\", \"PermutationFromPRF\"]\n\n";
    s += "/-- every randomising operation is classified as randomising and is never constant-folded;\n    every PRF operation is classified as PRF and is never constant-folded; inputs are never folded -/\n";
    s += "theorem opTable_ok : opTable.all (fun (n, prf, rnd, cst, inp) =>\n    (!(randomisingOps.contains n) || (rnd && !cst)) && (!(prfOps.contains n) || (prf && !cst)) && (!inp || !cst)\n    && (randomisingOps.contains n || prfOps.contains n || (!rnd && !prf))) = true := by decide\n";
    s += "theorem opTable_complete : (randomisingOps ++ prfOps).all (fun n => opTable.any (fun r => r.1 == n)) = true := by decide\n\n";
    let mut obligations = vec![
        serde_json::json!({"name": "CCV.Generated.C04.opTable_ok", "says": "is_randomizing / is_prf_operation / is_const_optimizable / is_input, executed on a representative of every Operation variant: randomising ops and PRF ops are classified as such and are not constant-optimizable"}),
        serde_json::json!({"name": "CCV.Generated.C04.opTable_complete", "says": "the table contains every randomising and PRF operation"}),
    ];
    // compiled graphs: fixed corpus incl. heavy families
    let mut rng = Rng::new(0xC04, "C04/gen");
    let n_graphs = run.tier.scale(30, 120);
    let mut k = 0;
    let mut attempts = 0;
    while k < n_graphs && attempts < n_graphs * 10 {
        attempts += 1;
        let heavy = attempts % 4 == 0;
        let fam = match catch(|| gen_family(&mut rng, heavy)) {
            Ok(Ok(f)) => f,
            _ => continue,
        };
        let ins: Vec<IOStatus> = fam.in_types.iter().map(|_| gen_status(&mut rng)).collect();
        let outs = gen_outputs(&mut rng);
        let mode = rng.below(3) as u8;
        let cc = match catch(|| compile(&fam.ctx, &ins, &outs, mode)) {
            Ok(Ok(c)) => c,
            _ => continue,
        };
        let g = cc.get_main_graph().unwrap();
        let ivs: Vec<u64> = g.get_nodes().iter().filter_map(|n| prf_iv(&n.get_operation())).collect();
        if ivs.is_empty() || ivs.len() > 3000 {
            continue;
        }
        let inc = ivs.windows(2).all(|w| w[0] < w[1]);
        writeln!(s, "/-- PRF counters, in node order, of the compiled main graph of {} [{}] {} ({} nodes) -/", fam.name, fam.descr.replace("-/", ""), config_name(&ins, &outs, mode), g.get_num_nodes()).unwrap();
        writeln!(s, "def ivs{} : List Nat := [{}]", k, ivs.iter().map(|x| x.to_string()).collect::<Vec<_>>().join(", ")).unwrap();
        if inc {
            writeln!(s, "theorem ivs{}_distinct : strictInc ivs{} = true := by decide +kernel\n", k, k).unwrap();
        } else {
            writeln!(s, "theorem ivs{}_distinct : nodupB ivs{} = true := by decide +kernel\n", k, k).unwrap();
        }
        obligations.push(serde_json::json!({"name": format!("CCV.Generated.C04.ivs{}_distinct", k),
            "says": format!("the {} PRF counters of the compiled graph of {} [{}] {} are pairwise distinct ({})", ivs.len(), fam.name, fam.descr, config_name(&ins, &outs, mode), if inc { "strictly increasing" } else { "pairwise check" })}));
        run.count(&format!("gen:family:{}", fam.name));
        k += 1;
    }
    s += "end CCV.Generated.C04\n";
    std::fs::write(format!("{}/C04.lean", out_dir), s).expect("write");
    std::fs::write(format!("{}/C04_obligations.json", out_dir), serde_json::to_string_pretty(&obligations).unwrap()).expect("write");
    println!("generated op table ({} ops) and {} counter lists", reps.len(), k);
}
