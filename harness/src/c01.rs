//! C01 — compiled protocol computes the source function.
//! corr: differential run source vs compiled under ONE evaluator (all owner vectors, output subsets,
//! inlining modes, PRNG seeds) over the family generator; gen: ring obligations for Lean.
use crate::families::*;
use crate::mpc_common::*;
use crate::util::*;
use ciphercore_base::data_values::Value;
use ciphercore_base::mpc::mpc_compiler::IOStatus;
use ciphercore_base::random::PRNG;

pub fn config_name(ins: &[IOStatus], outs: &[IOStatus], mode: u8) -> String {
    format!(
        "in=[{}] out=[{}] mode={}",
        ins.iter().map(status_name).collect::<Vec<_>>().join(","),
        outs.iter().map(status_name).collect::<Vec<_>>().join(","),
        mode
    )
}

pub fn corr(run: &mut Run) {
    run.rule = "generated source programs (families: straight-line arithmetic, tensor op walks incl. matmul/dot/gemm/sum/cumsum/\
                permute/reshape/get/slice/stack/concatenate/tuples/mixed multiply, comparisons/min/max/mux, A2B/B2A, call/iterate, \
                sort, join) × random owner vector in {0,1,2,public,shared}^n × random output subset (incl. empty = shared) × 3 inlining \
                modes × PRNG seeds; compiled graph evaluated by one SimpleEvaluator and compared with the plaintext result (shared \
                outputs summed). Non-trivial: compile succeeded and at least one input is private; distinct by (program, config)."
        .to_owned();
    let mut rng = run.rng("corr");
    let n = run.tier.scale(140, 1500);
    for it in 0..n {
        let heavy = it % 12 == 0;
        let fam = match catch(|| gen_family(&mut rng, heavy)) {
            Ok(Ok(f)) => f,
            _ => {
                run.count("gen:failed");
                continue;
            }
        };
        run.count(&format!("family:{}", fam.name));
        for o in &fam.ops {
            run.count(&format!("op:{}", o));
        }
        let expected = match catch(|| plain_eval(&fam.ctx, fam.inputs.clone(), [7; 16])) {
            Ok(Ok(v)) => v,
            _ => {
                run.count("plain:error");
                continue;
            }
        };
        let n_cfg = if heavy { 1 } else { 2 };
        for _ in 0..n_cfg {
            let ins: Vec<IOStatus> = fam.in_types.iter().map(|_| gen_status(&mut rng)).collect();
            let outs = gen_outputs(&mut rng);
            let mode = rng.below(3) as u8;
            let cfg = config_name(&ins, &outs, mode);
            let cc = match catch(|| compile(&fam.ctx, &ins, &outs, mode)) {
                Ok(Ok(c)) => c,
                Ok(Err(_)) => {
                    run.count("compile:rejected");
                    continue;
                }
                Err(p) => {
                    run.oracle_fail(&format!("C01:panic:compile:{}", fam.name), format!("{} [{}] {}: {}", fam.name, fam.descr, cfg, p));
                    continue;
                }
            };
            let private = ins.iter().any(|s| !matches!(s, IOStatus::Public));
            let descr = format!("{} [{}] {} inputs={:?}", fam.name, fam.descr, cfg, fam.inputs.iter().map(|v| format!("{:?}", crate::vals::bytes_of(v))).collect::<Vec<_>>());
            run.oracle_case(&descr, private);
            run.count(&format!("nodes:{}", match cc.get_main_graph().map(|g| g.get_num_nodes()).unwrap_or(0) { 0..=99 => "<100", 100..=999 => "<1000", _ => ">=1000" }));
            for _s in 0..2 {
                let seed = rng.seed16();
                let r = catch(|| -> ciphercore_base::errors::Result<Value> {
                    let mut prng = PRNG::new(Some(rng.clone().seed16()))?;
                    let gin = global_inputs(&ins, &fam.in_types, &fam.inputs, &mut prng)?;
                    let vals = global_run(&cc, gin, seed)?;
                    let oid = cc.get_main_graph()?.get_output_node()?.get_id() as usize;
                    reveal_if_shared(vals[oid].clone(), &fam.out_type, &outs)
                });
                let sig = format!("C01:wrong-result:{}:{}", fam.name, fam.ops.first().cloned().unwrap_or_default());
                match r {
                    Ok(Ok(v)) => {
                        if fam.exact && v != expected {
                            run.oracle_fail(&sig, format!("{} : compiled graph returns a different value than the source graph", descr));
                            break;
                        }
                    }
                    Ok(Err(e)) => {
                        run.oracle_fail(&format!("C01:runtime-error:{}:{}", fam.name, fam.ops.first().cloned().unwrap_or_default()), format!("{} : {}", descr, trunc(&format!("{}", e), 200)));
                        break;
                    }
                    Err(p) => {
                        run.oracle_fail(&format!("C01:panic:eval:{}", fam.name), format!("{} : {}", descr, p));
                        break;
                    }
                }
            }
        }
    }
}
