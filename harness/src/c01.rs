//! C01 — compiled protocol computes the source function.
//! corr: differential run source vs compiled under ONE evaluator (all owner vectors, output subsets,
//! inlining modes, PRNG seeds) over the family generator; gen: ring obligations for Lean.
use crate::families::*;
use crate::mpc_common::*;
use crate::util::*;
use ciphercore_base::data_values::Value;
use ciphercore_base::mpc::mpc_compiler::IOStatus;
use ciphercore_base::random::PRNG;

pub fn config_name(ins: &[IOStatus], outs: &[IOStatus], mode: u8) -> String {
    format!(
        "in=[{}] out=[{}] mode={}",
        ins.iter().map(status_name).collect::<Vec<_>>().join(","),
        outs.iter().map(status_name).collect::<Vec<_>>().join(","),
        mode
    )
}

pub fn corr(run: &mut Run) {
    run.rule = "generated source programs (families: straight-line arithmetic, tensor op walks incl. matmul/dot/gemm/sum/cumsum/\
                permute/reshape/get/slice/stack/concatenate/tuples/mixed multiply, comparisons/min/max/mux, A2B/B2A, call/iterate, \
                sort, join) × random owner vector in {0,1,2,public,shared}^n × random output subset (incl. empty = shared) × 3 inlining \
                modes × PRNG seeds; compiled graph evaluated by one SimpleEvaluator and compared with the plaintext result (shared \
                outputs summed). Non-trivial: compile succeeded and at least one input is private; distinct by (program, config)."
        .to_owned();
    let mut rng = run.rng("corr");
    let n = run.tier.scale(140, 1500);
    let jts = [ciphercore_base::graphs::JoinType::Inner, ciphercore_base::graphs::JoinType::Left, ciphercore_base::graphs::JoinType::Union, ciphercore_base::graphs::JoinType::Full];
    let n_dir = run.tier.scale(8, 48);
    let n_heavy = n_dir + run.tier.scale(20, 120);
    for it in 0..(n + n_heavy) {
        let heavy = it % 12 == 0 || it < n_dir;
        let fam = match catch(|| if it < n_heavy { match it % 8 { _ if it >= n_dir => bilinear_family(&mut rng), 0..=3 => join_family(&mut rng, &jts[it % 8..it % 8 + 1]), 4 => sort_family(&mut rng), 5 => sort_wide_family(&mut rng), _ => assoc_iterate_family(&mut rng) } } else { gen_family(&mut rng, heavy) }) {
            Ok(Ok(f)) => f,
            _ => {
                run.count("gen:failed");
                continue;
            }
        };
        run.count(&format!("family:{}", fam.name));
        for o in &fam.ops {
            run.count(&format!("op:{}", o));
        }
        let expected = match catch(|| plain_eval(&fam.ctx, fam.inputs.clone(), [7; 16])) {
            Ok(Ok(v)) => v,
            _ => {
                run.count("plain:error");
                continue;
            }
        };
        let all_modes = fam.name == "assoc_iterate" || fam.name == "call_iterate";
        let n_cfg = if all_modes { 3 } else if fam.name == "bilinear" { 4 } else if heavy { 1 } else { 2 };
        for ci in 0..n_cfg {
            let mut ins: Vec<IOStatus> = fam.in_types.iter().map(|_| gen_status(&mut rng)).collect();
            if fam.name == "bilinear" {
                // public x private, private x public, private x private, shared x public
                let pr = IOStatus::Party(rng.below(3));
                ins = match ci { 0 => vec![IOStatus::Public, pr], 1 => vec![pr, IOStatus::Public], 2 => vec![pr, IOStatus::Party(rng.below(3))], _ => vec![IOStatus::Public, IOStatus::Shared] };
            }
            let outs = gen_outputs(&mut rng);
            let mode = if all_modes { ci as u8 } else { rng.below(3) as u8 };
            let cfg = config_name(&ins, &outs, mode);
            let cc = match catch(|| compile(&fam.ctx, &ins, &outs, mode)) {
                Ok(Ok(c)) => c,
                Ok(Err(_)) => {
                    run.count("compile:rejected");
                    continue;
                }
                Err(p) => {
                    run.oracle_fail(&format!("C01:panic:compile:{}", fam.name), format!("{} [{}] {}: {}", fam.name, fam.descr, cfg, p));
                    continue;
                }
            };
            let private = ins.iter().any(|s| !matches!(s, IOStatus::Public));
            let descr = format!("{} [{}] {} inputs={:?}", fam.name, fam.descr, cfg, fam.inputs.iter().map(|v| format!("{:?}", crate::vals::bytes_of(v))).collect::<Vec<_>>());
            run.oracle_case(&descr, private);
            run.count(&format!("nodes:{}", match cc.get_main_graph().map(|g| g.get_num_nodes()).unwrap_or(0) { 0..=99 => "<100", 100..=999 => "<1000", _ => ">=1000" }));
            for _s in 0..2 {
                let seed = rng.seed16();
                let r = catch(|| -> ciphercore_base::errors::Result<Value> {
                    let mut prng = PRNG::new(Some(rng.clone().seed16()))?;
                    let gin = global_inputs(&ins, &fam.in_types, &fam.inputs, &mut prng)?;
                    let vals = global_run(&cc, gin, seed)?;
                    let oid = cc.get_main_graph()?.get_output_node()?.get_id() as usize;
                    reveal_if_shared(vals[oid].clone(), &fam.out_type, &outs)
                });
                let sig = format!("C01:wrong-result:{}:{}", fam.name, fam.ops.first().cloned().unwrap_or_default());
                match r {
                    Ok(Ok(v)) => {
                        if !fam_close(&fam, &v, &expected) {
                            run.oracle_fail(&sig, format!("{} : compiled graph returns a different value than the source graph", descr));
                            break;
                        }
                    }
                    Ok(Err(e)) => {
                        run.oracle_fail(&format!("C01:runtime-error:{}:{}", fam.name, fam.ops.first().cloned().unwrap_or_default()), format!("{} : {}", descr, trunc(&format!("{}", e), 200)));
                        break;
                    }
                    Err(p) => {
                        run.oracle_fail(&format!("C01:panic:eval:{}", fam.name), format!("{} : {}", descr, p));
                        break;
                    }
                }
            }
        }
    }
    reshare_stream(run);
}

// ------------------------------------------------------------------------------------------------
// (T) ring obligations: the compiled graph of an arithmetic program, printed as a let-chain over an
// arbitrary commutative ring, must reveal the source polynomial.
// ------------------------------------------------------------------------------------------------

use ciphercore_base::data_types::*;
use ciphercore_base::graphs::Operation;

#[derive(Clone, Debug)]
enum Sh {
    /// a ring-valued node: the name of its let-variable
    Val(String),
    /// a PRF key: identity = index of the Random node that created it
    Key(usize),
    Tup(Vec<Sh>),
}

/// all elements of a constant must be equal and small; returns the integer
fn small_const(v: &Value, t: &Type) -> Option<i128> {
    let st = t.get_scalar_type();
    let shape = match t {
        Type::Array(s, _) => s.clone(),
        _ => vec![1],
    };
    let xs = crate::vals::elems_of(v, &shape, st).ok()?;
    let first = match xs.first()? {
        crate::vals::Z::I(x) => *x,
        _ => return None,
    };
    if xs.iter().all(|z| matches!(z, crate::vals::Z::I(x) if *x == first)) && (0..64).contains(&first) {
        Some(first)
    } else {
        None
    }
}

/// Print a graph as a Lean let-chain. `shared_inputs[i]`: input i is a 3-tuple of shares.
/// Returns (lets, expression of the revealed output) or None if an operation is outside the fragment.
fn shallow(ir: &[IrNode], out: u64, prefix: &str, reveal_sum: bool) -> Option<(String, String)> {
    let mut sh: Vec<Sh> = vec![];
    let mut lets = String::new();
    let mut input_id = 0;
    for (i, n) in ir.iter().enumerate() {
        let name = format!("{}{}", prefix, i);
        let dep = |j: usize| -> &Sh { &sh[n.deps[j] as usize] };
        let val = |s: &Sh| -> Option<String> { if let Sh::Val(x) = s { Some(x.clone()) } else { None } };
        let s = match &n.op {
            Operation::Input(t) => {
                input_id += 1;
                let k = input_id - 1;
                if let Type::Tuple(_) = t {
                    Sh::Tup((0..3).map(|j| Sh::Val(format!("(sh {} {})", k, j))).collect())
                } else {
                    lets += &format!("  let {} := inp {}\n", name, k);
                    Sh::Val(name)
                }
            }
            Operation::Random(t) => {
                if *t == array_type(vec![128], BIT) {
                    Sh::Key(i)
                } else {
                    lets += &format!("  let {} := rnd {}\n", name, i);
                    Sh::Val(name)
                }
            }
            Operation::NOP => dep(0).clone(),
            Operation::PRF(iv, _) => {
                if let Sh::Key(k) = dep(0) {
                    lets += &format!("  let {} := prf {} {}\n", name, k, iv);
                    Sh::Val(name)
                } else {
                    return None;
                }
            }
            Operation::Add | Operation::Subtract | Operation::Multiply => {
                let a = val(dep(0))?;
                let b = val(dep(1))?;
                let o = match n.op {
                    Operation::Add => "+",
                    Operation::Subtract => "-",
                    _ => "*",
                };
                lets += &format!("  let {} := {} {} {}\n", name, a, o, b);
                Sh::Val(name)
            }
            Operation::Constant(t, v) => {
                let c = small_const(v, t)?;
                lets += &format!("  let {} := ({} : R)\n", name, c);
                Sh::Val(name)
            }
            Operation::Zeros(_) => {
                lets += &format!("  let {} := (0 : R)\n", name);
                Sh::Val(name)
            }
            Operation::Ones(_) => {
                lets += &format!("  let {} := (1 : R)\n", name);
                Sh::Val(name)
            }
            Operation::CreateTuple => Sh::Tup(n.deps.iter().map(|d| sh[*d as usize].clone()).collect()),
            Operation::TupleGet(j) => {
                if let Sh::Tup(v) = dep(0) {
                    v.get(*j as usize)?.clone()
                } else {
                    return None;
                }
            }
            _ => return None,
        };
        sh.push(s);
    }
    let o = &sh[out as usize];
    let expr = if reveal_sum {
        if let Sh::Tup(v) = o {
            if v.len() != 3 {
                return None;
            }
            let parts: Option<Vec<String>> = v.iter().map(|s| if let Sh::Val(x) = s { Some(x.clone()) } else { None }).collect();
            let p = parts?;
            format!("{} + {} + {}", p[0], p[1], p[2])
        } else {
            return None;
        }
    } else if let Sh::Val(x) = o {
        x.clone()
    } else {
        return None;
    };
    Some((lets, expr))
}

pub fn gen(run: &mut Run, out_dir: &str) {
    use std::fmt::Write as _;
    let mut rng = run.rng("gen");
    let n_graphs = run.tier.scale(40, 240);
    let chunk = run.tier.scale(5, 15);
    let header = "import Mathlib.Tactic.Ring\nimport Mathlib.Data.UInt\nopen scoped UInt64.CommRing\nset_option maxRecDepth 100000\nset_option linter.unusedVariables false\nset_option linter.unusedTactic false\nnamespace CCV.Generated.C01\n\n";
    let mut files: Vec<String> = vec![];
    let mut cur = String::new();
    let mut in_cur = 0;
    let mut obligations = vec![];
    let mut k = 0;
    let mut attempts = 0;
    while k < n_graphs && attempts < n_graphs * 30 {
        attempts += 1;
        let mut prog = gen_aprog(&mut rng, 5, false);
        if rng.chance(1, 2) {
            // 64-bit programs additionally get the translator cross-check against one real evaluation
            prog.st = if rng.chance(1, 2) { UINT64 } else { INT64 };
        }
        if prog.st == BIT && prog.ops.iter().any(|o| matches!(o, AOp::Const(_))) {
            continue;
        }
        // keep the polynomial small enough for `ring` to normalise quickly: total degree <= 4
        let mut deg: Vec<u32> = vec![];
        for o in &prog.ops {
            deg.push(match o {
                AOp::Input => 1,
                AOp::Const(_) => 0,
                AOp::Add(a, b) | AOp::Sub(a, b) => deg[*a].max(deg[*b]),
                AOp::Mul(a, b) => deg[*a] + deg[*b],
            });
        }
        if *deg.last().unwrap() > 4 || deg.iter().any(|d| *d > 4) {
            continue;
        }
        let ctx = match prog.build() {
            Ok(c) => c,
            Err(_) => continue,
        };
        let ins: Vec<IOStatus> = (0..prog.n_inputs()).map(|_| gen_status(&mut rng)).collect();
        if ins.iter().all(|s| matches!(s, IOStatus::Public)) {
            continue;
        }
        let outs = gen_outputs(&mut rng);
        let mode = rng.below(3) as u8;
        let cc = match catch(|| compile(&ctx, &ins, &outs, mode)) {
            Ok(Ok(c)) => c,
            _ => continue,
        };
        let (ir, out) = match cc.get_main_graph().and_then(|g| ir_of_graph(&g)) {
            Ok(x) => x,
            _ => continue,
        };
        if ir.len() > 160 {
            continue;
        }
        let (clets, cexpr) = match shallow(&ir, out, "n", outs.is_empty()) {
            Some(x) => x,
            None => {
                run.count("gen:outside-fragment");
                continue;
            }
        };
        // source side: plain inputs; a shared input is the sum of its shares
        let mut slets = String::new();
        let mut input_id = 0;
        for (i, o) in prog.ops.iter().enumerate() {
            let e = match o {
                AOp::Input => {
                    input_id += 1;
                    let j = input_id - 1;
                    if matches!(ins[j], IOStatus::Shared) {
                        format!("(sh {} 0) + (sh {} 1) + (sh {} 2)", j, j, j)
                    } else {
                        format!("inp {}", j)
                    }
                }
                AOp::Const(c) => format!("({} : R)", if prog.st == BIT { c & 1 } else { *c }),
                AOp::Add(a, b) => format!("s{} + s{}", a, b),
                AOp::Sub(a, b) => format!("s{} - s{}", a, b),
                AOp::Mul(a, b) => format!("s{} * s{}", a, b),
            };
            slets += &format!("  let s{} := {}\n", i, e);
        }
        if prog.ops.iter().any(|o| matches!(o, AOp::Const(c) if *c < 0)) {
            continue;
        }
        let cfg = config_name(&ins, &outs, mode);
        writeln!(cur, "/-- {} ; {} ; compiled graph: {} nodes -/", prog.describe(), cfg, ir.len()).unwrap();
        writeln!(cur, "def p{}_lhs {{R : Type}} [CommRing R] (inp : Nat → R) (sh : Nat → Nat → R) (prf : Nat → Nat → R) (rnd : Nat → R) : R :=\n{}  {}", k, clets, cexpr).unwrap();
        writeln!(cur, "theorem p{} {{R : Type}} [CommRing R] (inp : Nat → R) (sh : Nat → Nat → R) (prf : Nat → Nat → R) (rnd : Nat → R) :\n  p{}_lhs inp sh prf rnd = (\n{}  s{}) := by\n  unfold p{}_lhs; intros; ring\n", k, k, slets, prog.ops.len() - 1, k).unwrap();
        // cross-check of the translator against the real evaluator: for 64-bit programs the let-chain,
        // instantiated in UInt64 with the input shares and PRF outputs of one real evaluation, must
        // evaluate (in the kernel) to the value the real evaluator revealed
        if matches!(prog.st, UINT64 | INT64) {
            if let Some(line) = sample_check(&mut rng, &cc, &ir, out, &ins, &outs, &prog, k) {
                cur += &line;
                obligations.push(serde_json::json!({"name": format!("CCV.Generated.C01.p{}_sample", k),
                    "says": "translator cross-check: the let-chain instantiated in UInt64 with the inputs, shares and PRF outputs of one real evaluation of this compiled graph equals the value the real evaluator revealed (element 0)"}));
                run.count("gen:sample-cross-checks");
            }
        }
        obligations.push(serde_json::json!({"name": format!("CCV.Generated.C01.p{}", k),
            "says": format!("compiled graph of [{}] {} ({} nodes) reveals the source polynomial, in every commutative ring, for all inputs / shares / PRF outputs", prog.describe(), cfg, ir.len())}));
        run.count(&format!("gen:type:{}", crate::vals::st_name(prog.st)));
        k += 1;
        in_cur += 1;
        if in_cur == chunk {
            files.push(std::mem::take(&mut cur));
            in_cur = 0;
        }
    }
    if in_cur > 0 {
        files.push(cur);
    }
    let mut imports = String::new();
    for (i, body) in files.iter().enumerate() {
        std::fs::write(format!("{}/C01_{}.lean", out_dir, i), format!("{}{}end CCV.Generated.C01\n", header, body)).expect("write");
        imports += &format!("import CCV.Generated.C01_{}\n", i);
    }
    for i in files.len()..400 {
        let _ = std::fs::remove_file(format!("{}/C01_{}.lean", out_dir, i));
    }
    std::fs::write(format!("{}/C01.lean", out_dir), imports).expect("write");
    std::fs::write(format!("{}/C01_obligations.json", out_dir), serde_json::to_string_pretty(&obligations).unwrap()).expect("write");
    println!("generated {} ring obligations in {} files ({} attempts)", k, files.len(), attempts);
}


fn at0(v: &Value, t: &Type) -> Option<u64> {
    match t {
        Type::Scalar(st) => v.to_u64(*st).ok(),
        Type::Array(_, _) => v.to_flattened_array_u64(t.clone()).ok().and_then(|a| a.first().cloned()),
        _ => None,
    }
}

/// one real evaluation of the compiled graph; returns a Lean theorem stating that the let-chain evaluates to the
/// revealed value in UInt64 (flat element 0 of every array)
fn sample_check(rng: &mut Rng, cc: &ciphercore_base::graphs::Context, ir: &[IrNode], out: u64, ins: &[IOStatus], outs: &[IOStatus], prog: &AProg, k: usize) -> Option<String> {
    let t = prog.ty();
    let n_in = prog.n_inputs();
    let types: Vec<Type> = vec![t.clone(); n_in];
    let inputs = gen_inputs_for(rng, &types);
    let mut prng = PRNG::new(Some(rng.seed16())).ok()?;
    let gin = global_inputs(ins, &types, &inputs, &mut prng).ok()?;
    let vals = catch(|| global_run(cc, gin.clone(), rng.seed16())).ok()?.ok()?;
    // inputs / shares
    let mut inp_cases = vec![];
    let mut sh_cases = vec![];
    for i in 0..n_in {
        if matches!(ins[i], IOStatus::Shared) {
            let parts = gin[i].to_vector().ok()?;
            for j in 0..3 {
                sh_cases.push(format!("if i = {} ∧ j = {} then {} else", i, j, at0(&parts[j], &t)?));
            }
        } else {
            inp_cases.push(format!("if i = {} then {} else", i, at0(&gin[i], &t)?));
        }
    }
    // PRF outputs by (key node, counter)
    let mut prf_cases = vec![];
    let mut seen = std::collections::HashSet::new();
    for (i, n) in ir.iter().enumerate() {
        if let Operation::PRF(iv, pt) = &n.op {
            let mut kn = n.deps[0] as usize;
            while let Operation::NOP = ir[kn].op {
                kn = ir[kn].deps[0] as usize;
            }
            if seen.insert((kn, *iv)) {
                prf_cases.push(format!("if k = {} ∧ iv = {} then {} else", kn, iv, at0(&vals[i], pt)?));
            }
        }
    }
    let revealed = reveal_if_shared(vals[out as usize].clone(), &t, outs).ok()?;
    let want = at0(&revealed, &t)?;
    Some(format!(
        "theorem p{}_sample : p{}_lhs (R := UInt64) (fun i => {} 0) (fun i j => {} 0) (fun k iv => {} 0) (fun _ => 0) = {} := by decide\n\n",
        k, k, inp_cases.join(" "), sh_cases.join(" "), prf_cases.join(" "), want
    ))
}

// ------------------------------------------------------------------------------------------------
// (T9) the resharing planner: `mpc::resharing::get_nodes_to_reshare` against the Lean model
// `CCV.Reshare.plan` (exact node set) and against the planner-safety oracle computed here.
// ------------------------------------------------------------------------------------------------

use ciphercore_base::graphs::{create_context, Context, Graph, Node};
use std::collections::HashSet;

/// which match arm of `compute_graph_resharing` the operation belongs to (own table), and whether the
/// planner treats the operation as broadcasting
fn reshare_class(op: &Operation) -> (char, bool) {
    match op {
        Operation::Input(_) => ('I', false),
        Operation::Add | Operation::Subtract | Operation::Stack(_) => ('L', true),
        Operation::Sum(_)
        | Operation::CumSum(_)
        | Operation::Get(_)
        | Operation::Concatenate(_)
        | Operation::Reshape(_)
        | Operation::PermuteAxes(_)
        | Operation::Zip
        | Operation::Repeat(_)
        | Operation::TupleGet(_)
        | Operation::CreateNamedTuple(_)
        | Operation::NamedTupleGet(_)
        | Operation::VectorToArray
        | Operation::VectorGet
        | Operation::CreateTuple
        | Operation::ArrayToVector
        | Operation::CreateVector(_) => ('L', false),
        Operation::Multiply | Operation::Matmul | Operation::Gemm(_, _) => ('P', true),
        Operation::Dot => ('P', false),
        Operation::Join(_, _)
        | Operation::JoinWithColumnMasks(_, _)
        | Operation::Truncate(_)
        | Operation::A2B
        | Operation::B2A(_)
        | Operation::Sort(_)
        | Operation::GetSlice(_) => ('N', false),
        Operation::MixedMultiply => ('C', true),
        Operation::ApplyPermutation(_) => ('C', false),
        _ => ('X', false),
    }
}

struct PlanGraph {
    cls: Vec<(char, bool)>,
    deps: Vec<Vec<usize>>,
    size: Vec<u64>,
    out: usize,
    tags: Vec<String>,
}

fn plan_graph(g: &Graph) -> Result<PlanGraph, String> {
    let nodes = g.get_nodes();
    let mut pg = PlanGraph { cls: vec![], deps: vec![], size: vec![], out: 0, tags: vec![] };
    for (i, n) in nodes.iter().enumerate() {
        if n.get_id() as usize != i {
            return Err("node ids are not positions".into());
        }
        let op = n.get_operation();
        pg.cls.push(reshare_class(&op));
        pg.tags.push(op_tag(&op));
        pg.deps.push(n.get_node_dependencies().iter().map(|d| d.get_id() as usize).collect());
        let t = n.get_type().map_err(|e| format!("{}", e))?;
        pg.size.push(get_size_in_bits(t).map_err(|e| format!("{}", e))?);
    }
    pg.out = g.get_output_node().map_err(|e| format!("{}", e))?.get_id() as usize;
    Ok(pg)
}

/// the obvious propagation: inputs as annotated; any other node is private iff an operand is private
/// (VectorGet: iff the vector is; constants have no operands). `None` = the compiler rejects
/// (private VectorGet index, or an operation the MPC compiler does not take).
fn propagate_private(g: &Graph, pg: &PlanGraph, is_input_private: &[bool]) -> Option<Vec<bool>> {
    let mut p = vec![false; pg.cls.len()];
    let mut k = 0;
    for (i, n) in g.get_nodes().iter().enumerate() {
        match n.get_operation() {
            Operation::Input(_) => {
                p[i] = *is_input_private.get(k)?;
                k += 1;
            }
            Operation::VectorGet => {
                if p[pg.deps[i][1]] {
                    return None;
                }
                p[i] = p[pg.deps[i][0]];
            }
            Operation::Constant(_, _) | Operation::Zeros(_) | Operation::Ones(_) => {}
            op => {
                if reshare_class(&op).0 == 'X' {
                    return None;
                }
                p[i] = pg.deps[i].iter().any(|d| p[*d]);
            }
        }
    }
    Some(p)
}

fn encode_plan_graph(pg: &PlanGraph, p: &[bool]) -> String {
    let mut s = String::new();
    for i in 0..pg.cls.len() {
        if i > 0 {
            s.push('|');
        }
        let ds: Vec<u64> = pg.deps[i].iter().map(|d| *d as u64).collect();
        s += &format!("{}{}{}:{}:{}", pg.cls[i].0, pg.cls[i].1 as u8, p[i] as u8, pg.size[i], show_list(&ds));
    }
    s
}

/// "3-out-of-3 and not reshared", recomputed from the plan the code returned: a private node outside
/// the plan whose translation is the ABY3 product of two shared operands, or a share-wise (local)
/// translation of an operand that is itself unreshared.
fn native_unreshared(pg: &PlanGraph, p: &[bool], plan: &HashSet<usize>) -> Vec<bool> {
    let mut u = vec![false; p.len()];
    for i in 0..p.len() {
        let all_priv_product = pg.cls[i].0 == 'P' && pg.deps[i].iter().all(|d| p[*d]);
        u[i] = p[i] && !plan.contains(&i) && (all_priv_product || pg.deps[i].iter().any(|d| u[*d]));
    }
    u
}

/// does node i run an interactive protocol that reads replicated (2-out-of-3) operands?
fn needs_replicated(pg: &PlanGraph, p: &[bool], i: usize) -> bool {
    p[i] && match pg.cls[i].0 {
        'N' => true,
        'P' => pg.deps[i].iter().all(|d| p[*d]),
        'C' => p[pg.deps[i][1]],
        _ => false,
    }
}

/// one planner case: hook vs model (exact set) + safety oracle on the real graph
fn reshare_case(run: &mut Run, g: &Graph, pg: &PlanGraph, p: &[bool], descr: &str, consistent: bool) {
    let nodes = g.get_nodes();
    let shared: HashSet<Node> = nodes.iter().enumerate().filter(|(i, _)| p[*i]).map(|(_, n)| n.clone()).collect();
    let enc = encode_plan_graph(pg, p);
    let r = catch(|| ciphercore_base::mpc::verif_hooks::get_nodes_to_reshare(g, &shared));
    let plan: HashSet<usize> = match r {
        Ok(Ok(s)) => s.iter().map(|n| n.get_id() as usize).collect(),
        Ok(Err(e)) => {
            run.case(format!("plan {} {}", pg.out, enc), "ERR".into(), false);
            run.count("reshare:hook-err");
            if consistent {
                run.oracle_case(descr, false);
                run.oracle_fail("C01:reshare:propagation-rejected", format!("{} : the planner rejects the private set obtained by propagating the input annotations: {} ; graph {} {}", descr, trunc(&format!("{}", e), 120), pg.out, enc));
            }
            return;
        }
        Err(pn) => {
            run.oracle_case(descr, false);
            run.oracle_fail("C01:panic:reshare", format!("{} : {} ; graph {} {}", descr, pn, pg.out, enc));
            return;
        }
    };
    let mut sorted: Vec<u64> = plan.iter().map(|x| *x as u64).collect();
    sorted.sort();
    let u = native_unreshared(pg, p, &plan);
    let u_idx: Vec<u64> = (0..u.len()).filter(|i| u[*i]).map(|i| i as u64).collect();
    let nontrivial = !sorted.is_empty() || !u_idx.is_empty();
    run.case(format!("plan {} {}", pg.out, enc), show_list(&sorted), nontrivial);
    run.case(format!("unres {} {}", pg.out, enc), show_list(&u_idx), nontrivial);
    run.count(&format!("reshare:plan-size:{}", match sorted.len() { 0 => "0", 1 => "1", 2..=3 => "2-3", _ => ">=4" }));
    if !u_idx.is_empty() {
        run.count("reshare:some-node-left-3of3");
    }
    // ---- oracle: planner safety on the real graph, from the code's own plan
    run.oracle_case(descr, nontrivial);
    let ctx = |what: &str, i: usize| format!("{} : {} at node {} ({}) ; plan {:?} ; graph {} {}", descr, what, i, pg.tags[i], sorted, pg.out, enc);
    // hypotheses of the Lean theorems hold for real graphs: operands precede, broadcast operands have a size
    for i in 0..p.len() {
        if pg.deps[i].iter().any(|d| *d >= i) {
            run.oracle_fail("C01:reshare:assumption:order", ctx("operand does not precede the node", i));
        }
        if pg.cls[i].1 && pg.deps[i].iter().any(|d| pg.size[*d] == 0) {
            run.oracle_fail("C01:reshare:assumption:zero-size", ctx("broadcasting operation with an operand of 0 bits", i));
        }
    }
    for i in 0..p.len() {
        if needs_replicated(pg, p, i) {
            run.count(&format!("reshare:needs-2of3:{}", pg.tags[i]));
            if let Some(d) = pg.deps[i].iter().find(|d| u[**d]) {
                run.oracle_fail(&format!("C01:reshare:unreshared-operand:{}", pg.tags[i]), ctx(&format!("operand {} is 3-out-of-3 and not reshared, but the operation reads replicated shares", d), i));
            }
        }
    }
    if u[pg.out] {
        run.oracle_fail(&format!("C01:reshare:output-unreshared:{}", pg.tags[pg.out]), ctx("the output node is left 3-out-of-3", pg.out));
    }
    if let Some(i) = plan.iter().find(|i| !p[**i]) {
        run.oracle_fail("C01:reshare:public-node-in-plan", ctx("a public node is reshared", *i));
    }
    // minimality as the code intends it (sanity_pass): a reshared node would otherwise be 3-out-of-3.
    // Known exception (dead code after the output node) is only counted.
    for i in plan.iter() {
        let all_priv_product = pg.cls[*i].0 == 'P' && pg.deps[*i].iter().all(|d| p[*d]);
        if !(all_priv_product || pg.deps[*i].iter().any(|d| u[*d])) {
            let out_used = pg.deps.iter().any(|ds| ds.contains(&pg.out));
            if out_used {
                run.count("reshare:redundant-reshare-after-output");
            } else {
                run.oracle_fail("C01:reshare:redundant-reshare", ctx("a node whose operands are all replicated is reshared", *i));
            }
        }
    }
}

const RS_SHAPES: [&[u64]; 9] = [&[], &[2], &[3], &[2, 3], &[3, 2], &[1, 3], &[2, 1], &[3, 3], &[2, 2, 3]];

/// small plaintext graphs mixing products, local multi-input ops, broadcasting elementwise ops with
/// operands of different sizes and ops that need replicated operands; the output is any node.
fn gen_reshare_graph(rng: &mut Rng) -> ciphercore_base::errors::Result<(Context, Graph, String)> {
    use ciphercore_base::graphs::SliceElement;
    let c = create_context()?;
    let g = c.create_graph()?;
    let st = *rng.pick(&[INT32, UINT64, UINT8, INT64]);
    let mut descr = String::new();
    let mut nodes: Vec<Node> = vec![];
    let n_in = 2 + rng.below(3) as usize;
    for _ in 0..n_in {
        let s = rng.pick(&RS_SHAPES).to_vec();
        let t = if rng.chance(1, 6) { BIT } else { st };
        nodes.push(g.input(if s.is_empty() { scalar_type(t) } else { array_type(s, t) })?);
    }
    let steps = 2 + rng.below(9) as usize;
    let mut k = 0;
    let mut attempts = 0;
    while k < steps && attempts < 200 {
        attempts += 1;
        let a = if rng.chance(1, 2) { nodes[nodes.len() - 1].clone() } else { rng.pick(&nodes).clone() };
        let b = rng.pick(&nodes).clone();
        let ta = a.get_type()?;
        let sa: Vec<u64> = if let Type::Array(s, _) = &ta { s.clone() } else { vec![] };
        let is_arr = matches!(ta, Type::Array(_, _) | Type::Scalar(_));
        let fresh = |rng: &mut Rng, s: Vec<u64>, t: ScalarType| -> ciphercore_base::errors::Result<Node> {
            let ty = if s.is_empty() { scalar_type(t) } else { array_type(s, t) };
            match rng.below(4) {
                0 => g.zeros(ty),
                1 => g.ones(ty),
                _ => g.input(ty),
            }
        };
        let choice = rng.below(30);
        let r: ciphercore_base::errors::Result<(Node, &str)> = (|| {
            Ok(match choice {
                0 | 1 => (a.add(b.clone())?, "Add"),
                2 => (b.subtract(a.clone())?, "Subtract"),
                3 | 4 | 5 => (a.multiply(b.clone())?, "Multiply"),
                6 if is_arr => {
                    // broadcasting elementwise op with an operand of a different (smaller or larger) size
                    let s2: Vec<u64> = match rng.below(3) { 0 => vec![], 1 => sa.iter().skip(1).cloned().collect(), _ => { let mut s = vec![2]; s.extend(sa.iter()); s } };
                    let o = fresh(rng, s2, ta.get_scalar_type())?;
                    match rng.below(3) { 0 => (a.add(o)?, "Add~"), 1 => (o.subtract(a.clone())?, "Subtract~"), _ => (a.multiply(o)?, "Multiply~") }
                }
                7 => (a.dot(b.clone())?, "Dot"),
                8 => (a.matmul(b.clone())?, "Matmul"),
                9 => (a.gemm(b.clone(), rng.chance(1, 2), rng.chance(1, 2))?, "Gemm"),
                10 if sa.len() >= 1 => {
                    // product with a fresh operand of matching inner dimension
                    let w = 1 + rng.below(3);
                    let o = fresh(rng, vec![*sa.last().unwrap(), w], ta.get_scalar_type())?;
                    if sa.len() >= 2 && rng.chance(1, 2) { (a.matmul(o)?, "Matmul") } else { (a.dot(o)?, "Dot") }
                }
                11 => {
                    let s2 = if rng.chance(1, 2) { sa.clone() } else { vec![] };
                    let o = fresh(rng, s2, BIT)?;
                    (a.mixed_multiply(o)?, "MixedMultiply")
                }
                12 => (a.mixed_multiply(b.clone())?, "MixedMultiply"),
                13 => (g.create_tuple(vec![a.clone(), b.clone()])?.tuple_get(rng.below(2))?, "CreateTuple/TupleGet"),
                14 => (g.create_tuple((0..1 + rng.below(3)).map(|_| rng.pick(&nodes).clone()).collect())?, "CreateTuple"),
                15 => (g.concatenate(vec![a.clone(), b.clone()], if sa.is_empty() { 0 } else { rng.below(sa.len() as u64) })?, "Concatenate"),
                16 => {
                    let same: Vec<Node> = nodes.iter().filter(|n| n.get_type().map(|t| t == ta).unwrap_or(false)).cloned().collect();
                    let m = 1 + rng.below(3) as usize;
                    let v: Vec<Node> = (0..m).map(|_| rng.pick(&same).clone()).collect();
                    (g.stack(v, vec![m as u64])?, "Stack")
                }
                17 => (g.stack(vec![a.clone(), b.clone()], vec![2])?, "Stack"),
                18 => {
                    let v1 = a.repeat(2)?;
                    let v2 = b.repeat(2)?;
                    let z = g.zip(vec![v1, v2])?;
                    let idx = g.constant(scalar_type(UINT64), Value::from_scalar(rng.below(2), UINT64)?)?;
                    (z.vector_get(idx)?, "Repeat/Zip/VectorGet")
                }
                19 => {
                    let same: Vec<Node> = nodes.iter().filter(|n| n.get_type().map(|t| t == ta).unwrap_or(false)).cloned().collect();
                    let v = g.create_vector(ta.clone(), (0..2).map(|_| rng.pick(&same).clone()).collect())?;
                    if rng.chance(1, 2) { (v.vector_to_array()?, "CreateVector/VectorToArray") } else {
                        // the index is usually a constant, sometimes an input (private index: the compiler rejects)
                        let idx = if rng.chance(2, 3) { g.constant(scalar_type(UINT64), Value::from_scalar(rng.below(2), UINT64)?)? } else { g.input(scalar_type(UINT64))? };
                        (v.vector_get(idx)?, "CreateVector/VectorGet")
                    }
                }
                20 if !sa.is_empty() => (a.array_to_vector()?, "ArrayToVector"),
                21 if !sa.is_empty() => {
                    let p = fresh(rng, vec![sa[0]], UINT64)?;
                    (a.apply_permutation(p)?, "ApplyPermutation")
                }
                22 if !sa.is_empty() => (a.sum(vec![rng.below(sa.len() as u64)])?, "Sum"),
                23 if !sa.is_empty() => match rng.below(4) {
                    0 => (a.cum_sum(rng.below(sa.len() as u64))?, "CumSum"),
                    1 => (a.get(vec![rng.below(sa[0])])?, "Get"),
                    2 => { let n: u64 = sa.iter().product(); (a.reshape(array_type(vec![n], ta.get_scalar_type()))?, "Reshape") }
                    _ => { let mut p: Vec<u64> = (0..sa.len() as u64).collect(); rng.shuffle(&mut p); (a.permute_axes(p)?, "PermuteAxes") }
                },
                24 if !sa.is_empty() => (a.get_slice(vec![SliceElement::SubArray(Some(0), Some(1 + rng.below(sa[0]) as i64), None)])?, "GetSlice"),
                25 => (a.a2b()?, "A2B"),
                26 => (a.b2a(st)?, "B2A"),
                27 => (a.truncate(*rng.pick(&[2u128, 8, 3, 10]))?, "Truncate"),
                28 => {
                    let t = g.create_named_tuple(vec![("x".to_owned(), a.clone()), ("y".to_owned(), b.clone())])?;
                    (t.named_tuple_get(if rng.chance(1, 2) { "x" } else { "y" }.to_owned())?, "NamedTuple")
                }
                29 => {
                    // bits of one operand select the other: a2b → get bit → mixed multiply
                    let bits = b.a2b()?;
                    let sb = if let Type::Array(s, _) = bits.get_type()? { s } else { vec![] };
                    let bit = bits.get_slice(vec![SliceElement::Ellipsis, SliceElement::SingleIndex(rng.below(*sb.last().unwrap_or(&1)) as i64)])?;
                    (a.mixed_multiply(bit)?, "A2B/GetSlice/MixedMultiply")
                }
                _ => return Err(ciphercore_base::runtime_error!("not applicable")),
            })
        })();
        if let Ok((n, name)) = r {
            if get_size_in_bits(n.get_type()?)? <= 8192 {
                descr += name;
                descr.push(' ');
                nodes.push(n);
                k += 1;
            }
        }
    }
    // output: usually the last node, sometimes any node (nodes behind the output are dead code)
    let all = g.get_nodes();
    let out = if rng.chance(3, 4) { all[all.len() - 1].clone() } else { rng.pick(&all).clone() };
    out.set_as_output()?;
    g.finalize()?;
    g.set_as_main()?;
    c.finalize()?;
    Ok((c, g, descr))
}

pub fn reshare_stream(run: &mut Run) {
    run.rule += " | reshare stream: plaintext graphs (the generator families after prepare_context, and a dedicated generator mixing \
                 private×private products, local multi-input ops, broadcasting elementwise ops with operands of different sizes, \
                 ops needing replicated operands, any node as output) × random input annotations → private set by re-implemented \
                 propagation → hook get_nodes_to_reshare; compared node-set-for-node-set with the Lean planner model, plus the safety \
                 oracle (no 3-out-of-3 operand where replicated shares are read; output never 3-out-of-3; plan ⊆ private) recomputed \
                 natively from the code's plan; a smaller stream feeds arbitrary (inconsistent) private sets. Non-trivial: the plan or \
                 the set of nodes left 3-out-of-3 is non-empty.";
    let mut rng = run.rng("reshare");
    // (1) dedicated generator
    let n_small = run.tier.scale(1500, 20000);
    for it in 0..n_small {
        let (_c, g, descr) = match catch(|| gen_reshare_graph(&mut rng)) {
            Ok(Ok(x)) => x,
            _ => {
                run.count("reshare:gen-failed");
                continue;
            }
        };
        let pg = match plan_graph(&g) {
            Ok(p) => p,
            Err(_) => {
                run.count("reshare:export-failed");
                continue;
            }
        };
        for t in &pg.tags {
            run.count(&format!("reshare:op:{}", t));
        }
        let n_inputs = pg.cls.iter().filter(|c| c.0 == 'I').count();
        for v in 0..3 {
            let priv_in: Vec<bool> = (0..n_inputs).map(|_| if v == 0 { true } else { rng.chance(2, 3) }).collect();
            let d = format!("reshare small#{} [{}] private_inputs={:?}", it, descr.trim_end(), priv_in.iter().map(|b| *b as u8).collect::<Vec<_>>());
            match propagate_private(&g, &pg, &priv_in) {
                Some(p) => reshare_case(run, &g, &pg, &p, &d, true),
                None => run.count("reshare:propagation-rejects"),
            }
        }
        if it % 4 == 0 {
            // arbitrary private set (the hook takes any set): model must agree, incl. errors
            let p: Vec<bool> = (0..pg.cls.len()).map(|_| rng.chance(1, 2)).collect();
            let d = format!("reshare small#{} [{}] arbitrary private set", it, descr.trim_end());
            reshare_case(run, &g, &pg, &p, &d, false);
        }
    }
    // (2) the C01 families, prepared the way compile_context prepares them
    let n_fam = run.tier.scale(60, 600);
    for it in 0..n_fam {
        let fam = match catch(|| match it % 15 {
            1 => join_family(&mut rng, &[ciphercore_base::graphs::JoinType::Inner, ciphercore_base::graphs::JoinType::Left, ciphercore_base::graphs::JoinType::Union, ciphercore_base::graphs::JoinType::Full]),
            2 => sort_family(&mut rng),
            _ => gen_family(&mut rng, it % 10 == 0),
        }) {
            Ok(Ok(f)) => f,
            _ => {
                run.count("reshare:gen-failed");
                continue;
            }
        };
        let mode = rng.below(3) as u8;
        let prepared = catch(|| -> ciphercore_base::errors::Result<Context> {
            Ok(ciphercore_base::mpc::mpc_compiler::prepare_context(fam.ctx.clone(), inline_cfg(mode), ciphercore_base::evaluators::simple_evaluator::SimpleEvaluator::new(None)?, false)?.get_context())
        });
        let c2 = match prepared {
            Ok(Ok(c)) => c,
            _ => {
                run.count("reshare:prepare-failed");
                continue;
            }
        };
        let g = match c2.get_main_graph() {
            Ok(g) => g,
            _ => continue,
        };
        let pg = match plan_graph(&g) {
            Ok(p) => p,
            Err(_) => {
                run.count("reshare:export-failed");
                continue;
            }
        };
        run.count(&format!("reshare:family:{}", fam.name));
        let n_inputs = pg.cls.iter().filter(|c| c.0 == 'I').count();
        for v in 0..3 {
            let priv_in: Vec<bool> = (0..n_inputs).map(|_| if v == 0 { true } else { rng.chance(2, 3) }).collect();
            let d = format!("reshare family {} [{}] mode={} nodes={} private_inputs={:?}", fam.name, fam.descr, mode, pg.cls.len(), priv_in.iter().map(|b| *b as u8).collect::<Vec<_>>());
            match propagate_private(&g, &pg, &priv_in) {
                Some(p) => reshare_case(run, &g, &pg, &p, &d, true),
                None => run.count("reshare:propagation-rejects"),
            }
        }
    }
}
