//! C01 — compiled protocol computes the source function.
//! corr: differential run source vs compiled under ONE evaluator (all owner vectors, output subsets,
//! inlining modes, PRNG seeds) over the family generator; gen: ring obligations for Lean.
use crate::families::*;
use crate::mpc_common::*;
use crate::util::*;
use ciphercore_base::data_values::Value;
use ciphercore_base::mpc::mpc_compiler::IOStatus;
use ciphercore_base::random::PRNG;

pub fn config_name(ins: &[IOStatus], outs: &[IOStatus], mode: u8) -> String {
    format!(
        "in=[{}] out=[{}] mode={}",
        ins.iter().map(status_name).collect::<Vec<_>>().join(","),
        outs.iter().map(status_name).collect::<Vec<_>>().join(","),
        mode
    )
}

pub fn corr(run: &mut Run) {
    run.rule = "generated source programs (families: straight-line arithmetic, tensor op walks incl. matmul/dot/gemm/sum/cumsum/\
                permute/reshape/get/slice/stack/concatenate/tuples/mixed multiply, comparisons/min/max/mux, A2B/B2A, call/iterate, \
                sort, join) × random owner vector in {0,1,2,public,shared}^n × random output subset (incl. empty = shared) × 3 inlining \
                modes × PRNG seeds; compiled graph evaluated by one SimpleEvaluator and compared with the plaintext result (shared \
                outputs summed). Non-trivial: compile succeeded and at least one input is private; distinct by (program, config)."
        .to_owned();
    let mut rng = run.rng("corr");
    let n = run.tier.scale(140, 1500);
    let jts = [ciphercore_base::graphs::JoinType::Inner, ciphercore_base::graphs::JoinType::Left, ciphercore_base::graphs::JoinType::Union, ciphercore_base::graphs::JoinType::Full];
    let n_dir = run.tier.scale(8, 48);
    let n_heavy = n_dir + run.tier.scale(20, 120);
    for it in 0..(n + n_heavy) {
        let heavy = it % 12 == 0 || it < n_dir;
        let fam = match catch(|| if it < n_heavy { match it % 8 { _ if it >= n_dir => bilinear_family(&mut rng), 0..=3 => join_family(&mut rng, &jts[it % 8..it % 8 + 1]), 4 | 5 => sort_family(&mut rng), _ => assoc_iterate_family(&mut rng) } } else { gen_family(&mut rng, heavy) }) {
            Ok(Ok(f)) => f,
            _ => {
                run.count("gen:failed");
                continue;
            }
        };
        run.count(&format!("family:{}", fam.name));
        for o in &fam.ops {
            run.count(&format!("op:{}", o));
        }
        let expected = match catch(|| plain_eval(&fam.ctx, fam.inputs.clone(), [7; 16])) {
            Ok(Ok(v)) => v,
            _ => {
                run.count("plain:error");
                continue;
            }
        };
        let all_modes = fam.name == "assoc_iterate" || fam.name == "call_iterate";
        let n_cfg = if all_modes { 3 } else if fam.name == "bilinear" { 4 } else if heavy { 1 } else { 2 };
        for ci in 0..n_cfg {
            let mut ins: Vec<IOStatus> = fam.in_types.iter().map(|_| gen_status(&mut rng)).collect();
            if fam.name == "bilinear" {
                // public x private, private x public, private x private, shared x public
                let pr = IOStatus::Party(rng.below(3));
                ins = match ci { 0 => vec![IOStatus::Public, pr], 1 => vec![pr, IOStatus::Public], 2 => vec![pr, IOStatus::Party(rng.below(3))], _ => vec![IOStatus::Public, IOStatus::Shared] };
            }
            let outs = gen_outputs(&mut rng);
            let mode = if all_modes { ci as u8 } else { rng.below(3) as u8 };
            let cfg = config_name(&ins, &outs, mode);
            let cc = match catch(|| compile(&fam.ctx, &ins, &outs, mode)) {
                Ok(Ok(c)) => c,
                Ok(Err(_)) => {
                    run.count("compile:rejected");
                    continue;
                }
                Err(p) => {
                    run.oracle_fail(&format!("C01:panic:compile:{}", fam.name), format!("{} [{}] {}: {}", fam.name, fam.descr, cfg, p));
                    continue;
                }
            };
            let private = ins.iter().any(|s| !matches!(s, IOStatus::Public));
            let descr = format!("{} [{}] {} inputs={:?}", fam.name, fam.descr, cfg, fam.inputs.iter().map(|v| format!("{:?}", crate::vals::bytes_of(v))).collect::<Vec<_>>());
            run.oracle_case(&descr, private);
            run.count(&format!("nodes:{}", match cc.get_main_graph().map(|g| g.get_num_nodes()).unwrap_or(0) { 0..=99 => "<100", 100..=999 => "<1000", _ => ">=1000" }));
            for _s in 0..2 {
                let seed = rng.seed16();
                let r = catch(|| -> ciphercore_base::errors::Result<Value> {
                    let mut prng = PRNG::new(Some(rng.clone().seed16()))?;
                    let gin = global_inputs(&ins, &fam.in_types, &fam.inputs, &mut prng)?;
                    let vals = global_run(&cc, gin, seed)?;
                    let oid = cc.get_main_graph()?.get_output_node()?.get_id() as usize;
                    reveal_if_shared(vals[oid].clone(), &fam.out_type, &outs)
                });
                let sig = format!("C01:wrong-result:{}:{}", fam.name, fam.ops.first().cloned().unwrap_or_default());
                match r {
                    Ok(Ok(v)) => {
                        if fam.exact && v != expected {
                            run.oracle_fail(&sig, format!("{} : compiled graph returns a different value than the source graph", descr));
                            break;
                        }
                    }
                    Ok(Err(e)) => {
                        run.oracle_fail(&format!("C01:runtime-error:{}:{}", fam.name, fam.ops.first().cloned().unwrap_or_default()), format!("{} : {}", descr, trunc(&format!("{}", e), 200)));
                        break;
                    }
                    Err(p) => {
                        run.oracle_fail(&format!("C01:panic:eval:{}", fam.name), format!("{} : {}", descr, p));
                        break;
                    }
                }
            }
        }
    }
}

// ------------------------------------------------------------------------------------------------
// (T) ring obligations: the compiled graph of an arithmetic program, printed as a let-chain over an
// arbitrary commutative ring, must reveal the source polynomial.
// ------------------------------------------------------------------------------------------------

use ciphercore_base::data_types::*;
use ciphercore_base::graphs::Operation;

#[derive(Clone, Debug)]
enum Sh {
    /// a ring-valued node: the name of its let-variable
    Val(String),
    /// a PRF key: identity = index of the Random node that created it
    Key(usize),
    Tup(Vec<Sh>),
}

/// all elements of a constant must be equal and small; returns the integer
fn small_const(v: &Value, t: &Type) -> Option<i128> {
    let st = t.get_scalar_type();
    let shape = match t {
        Type::Array(s, _) => s.clone(),
        _ => vec![1],
    };
    let xs = crate::vals::elems_of(v, &shape, st).ok()?;
    let first = match xs.first()? {
        crate::vals::Z::I(x) => *x,
        _ => return None,
    };
    if xs.iter().all(|z| matches!(z, crate::vals::Z::I(x) if *x == first)) && (0..64).contains(&first) {
        Some(first)
    } else {
        None
    }
}

/// Print a graph as a Lean let-chain. `shared_inputs[i]`: input i is a 3-tuple of shares.
/// Returns (lets, expression of the revealed output) or None if an operation is outside the fragment.
fn shallow(ir: &[IrNode], out: u64, prefix: &str, reveal_sum: bool) -> Option<(String, String)> {
    let mut sh: Vec<Sh> = vec![];
    let mut lets = String::new();
    let mut input_id = 0;
    for (i, n) in ir.iter().enumerate() {
        let name = format!("{}{}", prefix, i);
        let dep = |j: usize| -> &Sh { &sh[n.deps[j] as usize] };
        let val = |s: &Sh| -> Option<String> { if let Sh::Val(x) = s { Some(x.clone()) } else { None } };
        let s = match &n.op {
            Operation::Input(t) => {
                input_id += 1;
                let k = input_id - 1;
                if let Type::Tuple(_) = t {
                    Sh::Tup((0..3).map(|j| Sh::Val(format!("(sh {} {})", k, j))).collect())
                } else {
                    lets += &format!("  let {} := inp {}\n", name, k);
                    Sh::Val(name)
                }
            }
            Operation::Random(t) => {
                if *t == array_type(vec![128], BIT) {
                    Sh::Key(i)
                } else {
                    lets += &format!("  let {} := rnd {}\n", name, i);
                    Sh::Val(name)
                }
            }
            Operation::NOP => dep(0).clone(),
            Operation::PRF(iv, _) => {
                if let Sh::Key(k) = dep(0) {
                    lets += &format!("  let {} := prf {} {}\n", name, k, iv);
                    Sh::Val(name)
                } else {
                    return None;
                }
            }
            Operation::Add | Operation::Subtract | Operation::Multiply => {
                let a = val(dep(0))?;
                let b = val(dep(1))?;
                let o = match n.op {
                    Operation::Add => "+",
                    Operation::Subtract => "-",
                    _ => "*",
                };
                lets += &format!("  let {} := {} {} {}\n", name, a, o, b);
                Sh::Val(name)
            }
            Operation::Constant(t, v) => {
                let c = small_const(v, t)?;
                lets += &format!("  let {} := ({} : R)\n", name, c);
                Sh::Val(name)
            }
            Operation::Zeros(_) => {
                lets += &format!("  let {} := (0 : R)\n", name);
                Sh::Val(name)
            }
            Operation::Ones(_) => {
                lets += &format!("  let {} := (1 : R)\n", name);
                Sh::Val(name)
            }
            Operation::CreateTuple => Sh::Tup(n.deps.iter().map(|d| sh[*d as usize].clone()).collect()),
            Operation::TupleGet(j) => {
                if let Sh::Tup(v) = dep(0) {
                    v.get(*j as usize)?.clone()
                } else {
                    return None;
                }
            }
            _ => return None,
        };
        sh.push(s);
    }
    let o = &sh[out as usize];
    let expr = if reveal_sum {
        if let Sh::Tup(v) = o {
            if v.len() != 3 {
                return None;
            }
            let parts: Option<Vec<String>> = v.iter().map(|s| if let Sh::Val(x) = s { Some(x.clone()) } else { None }).collect();
            let p = parts?;
            format!("{} + {} + {}", p[0], p[1], p[2])
        } else {
            return None;
        }
    } else if let Sh::Val(x) = o {
        x.clone()
    } else {
        return None;
    };
    Some((lets, expr))
}

pub fn gen(run: &mut Run, out_dir: &str) {
    use std::fmt::Write as _;
    let mut rng = run.rng("gen");
    let n_graphs = run.tier.scale(40, 240);
    let chunk = run.tier.scale(5, 15);
    let header = "import Mathlib.Tactic.Ring\nimport Mathlib.Data.UInt\nopen scoped UInt64.CommRing\nset_option maxRecDepth 100000\nset_option linter.unusedVariables false\nset_option linter.unusedTactic false\nnamespace CCV.Generated.C01\n\n";
    let mut files: Vec<String> = vec![];
    let mut cur = String::new();
    let mut in_cur = 0;
    let mut obligations = vec![];
    let mut k = 0;
    let mut attempts = 0;
    while k < n_graphs && attempts < n_graphs * 30 {
        attempts += 1;
        let mut prog = gen_aprog(&mut rng, 5, false);
        if rng.chance(1, 2) {
            // 64-bit programs additionally get the translator cross-check against one real evaluation
            prog.st = if rng.chance(1, 2) { UINT64 } else { INT64 };
        }
        if prog.st == BIT && prog.ops.iter().any(|o| matches!(o, AOp::Const(_))) {
            continue;
        }
        // keep the polynomial small enough for `ring` to normalise quickly: total degree <= 4
        let mut deg: Vec<u32> = vec![];
        for o in &prog.ops {
            deg.push(match o {
                AOp::Input => 1,
                AOp::Const(_) => 0,
                AOp::Add(a, b) | AOp::Sub(a, b) => deg[*a].max(deg[*b]),
                AOp::Mul(a, b) => deg[*a] + deg[*b],
            });
        }
        if *deg.last().unwrap() > 4 || deg.iter().any(|d| *d > 4) {
            continue;
        }
        let ctx = match prog.build() {
            Ok(c) => c,
            Err(_) => continue,
        };
        let ins: Vec<IOStatus> = (0..prog.n_inputs()).map(|_| gen_status(&mut rng)).collect();
        if ins.iter().all(|s| matches!(s, IOStatus::Public)) {
            continue;
        }
        let outs = gen_outputs(&mut rng);
        let mode = rng.below(3) as u8;
        let cc = match catch(|| compile(&ctx, &ins, &outs, mode)) {
            Ok(Ok(c)) => c,
            _ => continue,
        };
        let (ir, out) = match cc.get_main_graph().and_then(|g| ir_of_graph(&g)) {
            Ok(x) => x,
            _ => continue,
        };
        if ir.len() > 160 {
            continue;
        }
        let (clets, cexpr) = match shallow(&ir, out, "n", outs.is_empty()) {
            Some(x) => x,
            None => {
                run.count("gen:outside-fragment");
                continue;
            }
        };
        // source side: plain inputs; a shared input is the sum of its shares
        let mut slets = String::new();
        let mut input_id = 0;
        for (i, o) in prog.ops.iter().enumerate() {
            let e = match o {
                AOp::Input => {
                    input_id += 1;
                    let j = input_id - 1;
                    if matches!(ins[j], IOStatus::Shared) {
                        format!("(sh {} 0) + (sh {} 1) + (sh {} 2)", j, j, j)
                    } else {
                        format!("inp {}", j)
                    }
                }
                AOp::Const(c) => format!("({} : R)", if prog.st == BIT { c & 1 } else { *c }),
                AOp::Add(a, b) => format!("s{} + s{}", a, b),
                AOp::Sub(a, b) => format!("s{} - s{}", a, b),
                AOp::Mul(a, b) => format!("s{} * s{}", a, b),
            };
            slets += &format!("  let s{} := {}\n", i, e);
        }
        if prog.ops.iter().any(|o| matches!(o, AOp::Const(c) if *c < 0)) {
            continue;
        }
        let cfg = config_name(&ins, &outs, mode);
        writeln!(cur, "/-- {} ; {} ; compiled graph: {} nodes -/", prog.describe(), cfg, ir.len()).unwrap();
        writeln!(cur, "def p{}_lhs {{R : Type}} [CommRing R] (inp : Nat → R) (sh : Nat → Nat → R) (prf : Nat → Nat → R) (rnd : Nat → R) : R :=\n{}  {}", k, clets, cexpr).unwrap();
        writeln!(cur, "theorem p{} {{R : Type}} [CommRing R] (inp : Nat → R) (sh : Nat → Nat → R) (prf : Nat → Nat → R) (rnd : Nat → R) :\n  p{}_lhs inp sh prf rnd = (\n{}  s{}) := by\n  unfold p{}_lhs; intros; ring\n", k, k, slets, prog.ops.len() - 1, k).unwrap();
        // cross-check of the translator against the real evaluator: for 64-bit programs the let-chain,
        // instantiated in UInt64 with the input shares and PRF outputs of one real evaluation, must
        // evaluate (in the kernel) to the value the real evaluator revealed
        if matches!(prog.st, UINT64 | INT64) {
            if let Some(line) = sample_check(&mut rng, &cc, &ir, out, &ins, &outs, &prog, k) {
                cur += &line;
                obligations.push(serde_json::json!({"name": format!("CCV.Generated.C01.p{}_sample", k),
                    "says": "translator cross-check: the let-chain instantiated in UInt64 with the inputs, shares and PRF outputs of one real evaluation of this compiled graph equals the value the real evaluator revealed (element 0)"}));
                run.count("gen:sample-cross-checks");
            }
        }
        obligations.push(serde_json::json!({"name": format!("CCV.Generated.C01.p{}", k),
            "says": format!("compiled graph of [{}] {} ({} nodes) reveals the source polynomial, in every commutative ring, for all inputs / shares / PRF outputs", prog.describe(), cfg, ir.len())}));
        run.count(&format!("gen:type:{}", crate::vals::st_name(prog.st)));
        k += 1;
        in_cur += 1;
        if in_cur == chunk {
            files.push(std::mem::take(&mut cur));
            in_cur = 0;
        }
    }
    if in_cur > 0 {
        files.push(cur);
    }
    let mut imports = String::new();
    for (i, body) in files.iter().enumerate() {
        std::fs::write(format!("{}/C01_{}.lean", out_dir, i), format!("{}{}end CCV.Generated.C01\n", header, body)).expect("write");
        imports += &format!("import CCV.Generated.C01_{}\n", i);
    }
    for i in files.len()..400 {
        let _ = std::fs::remove_file(format!("{}/C01_{}.lean", out_dir, i));
    }
    std::fs::write(format!("{}/C01.lean", out_dir), imports).expect("write");
    std::fs::write(format!("{}/C01_obligations.json", out_dir), serde_json::to_string_pretty(&obligations).unwrap()).expect("write");
    println!("generated {} ring obligations in {} files ({} attempts)", k, files.len(), attempts);
}


fn at0(v: &Value, t: &Type) -> Option<u64> {
    match t {
        Type::Scalar(st) => v.to_u64(*st).ok(),
        Type::Array(_, _) => v.to_flattened_array_u64(t.clone()).ok().and_then(|a| a.first().cloned()),
        _ => None,
    }
}

/// one real evaluation of the compiled graph; returns a Lean theorem stating that the let-chain evaluates to the
/// revealed value in UInt64 (flat element 0 of every array)
fn sample_check(rng: &mut Rng, cc: &ciphercore_base::graphs::Context, ir: &[IrNode], out: u64, ins: &[IOStatus], outs: &[IOStatus], prog: &AProg, k: usize) -> Option<String> {
    let t = prog.ty();
    let n_in = prog.n_inputs();
    let types: Vec<Type> = vec![t.clone(); n_in];
    let inputs = gen_inputs_for(rng, &types);
    let mut prng = PRNG::new(Some(rng.seed16())).ok()?;
    let gin = global_inputs(ins, &types, &inputs, &mut prng).ok()?;
    let vals = catch(|| global_run(cc, gin.clone(), rng.seed16())).ok()?.ok()?;
    // inputs / shares
    let mut inp_cases = vec![];
    let mut sh_cases = vec![];
    for i in 0..n_in {
        if matches!(ins[i], IOStatus::Shared) {
            let parts = gin[i].to_vector().ok()?;
            for j in 0..3 {
                sh_cases.push(format!("if i = {} ∧ j = {} then {} else", i, j, at0(&parts[j], &t)?));
            }
        } else {
            inp_cases.push(format!("if i = {} then {} else", i, at0(&gin[i], &t)?));
        }
    }
    // PRF outputs by (key node, counter)
    let mut prf_cases = vec![];
    let mut seen = std::collections::HashSet::new();
    for (i, n) in ir.iter().enumerate() {
        if let Operation::PRF(iv, pt) = &n.op {
            let mut kn = n.deps[0] as usize;
            while let Operation::NOP = ir[kn].op {
                kn = ir[kn].deps[0] as usize;
            }
            if seen.insert((kn, *iv)) {
                prf_cases.push(format!("if k = {} ∧ iv = {} then {} else", kn, iv, at0(&vals[i], pt)?));
            }
        }
    }
    let revealed = reveal_if_shared(vals[out as usize].clone(), &t, outs).ok()?;
    let want = at0(&revealed, &t)?;
    Some(format!(
        "theorem p{}_sample : p{}_lhs (R := UInt64) (fun i => {} 0) (fun i j => {} 0) (fun k iv => {} 0) (fun _ => 0) = {} := by decide\n\n",
        k, k, inp_cases.join(" "), sh_cases.join(" "), prf_cases.join(" "), want
    ))
}
