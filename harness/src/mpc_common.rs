//! Shared machinery for the MPC-compiler properties C01–C04: source program families, compilation,
//! IR extraction of the compiled main graph, global (one-evaluator) run with recorded node values,
//! and the three-party executor (values cross parties only at Send-annotated nodes).
use crate::util::*;
use crate::vals::*;
use ciphercore_base::data_types::*;
use ciphercore_base::data_values::Value;
use ciphercore_base::errors::Result;
use ciphercore_base::evaluators::simple_evaluator::SimpleEvaluator;
use ciphercore_base::evaluators::Evaluator;
use ciphercore_base::graphs::*;
use ciphercore_base::inline::inline_common::DepthOptimizationLevel;
use ciphercore_base::inline::inline_ops::{InlineConfig, InlineMode};
use ciphercore_base::mpc::mpc_compiler::{compile_context, prepare_context, IOStatus};
use ciphercore_base::random::PRNG;
use ciphercore_base::typed_value::TypedValue;

pub fn inline_cfg(mode: u8) -> InlineConfig {
    InlineConfig {
        default_mode: match mode {
            0 => InlineMode::Simple,
            1 => InlineMode::DepthOptimized(DepthOptimizationLevel::Default),
            _ => InlineMode::DepthOptimized(DepthOptimizationLevel::Extreme),
        },
        ..Default::default()
    }
}

pub fn status_name(s: &IOStatus) -> String {
    match s {
        IOStatus::Public => "pub".into(),
        IOStatus::Shared => "sh".into(),
        IOStatus::Party(p) => format!("p{}", p),
    }
}

pub fn gen_status(rng: &mut Rng) -> IOStatus {
    match rng.below(6) {
        0 => IOStatus::Public,
        1 => IOStatus::Shared,
        x => IOStatus::Party((x % 3) as u64),
    }
}

/// output parties: a subset of {0,1,2} in random order; empty = shared output
pub fn gen_outputs(rng: &mut Rng) -> Vec<IOStatus> {
    let mut v: Vec<u64> = (0..3).filter(|_| rng.chance(1, 2)).collect();
    rng.shuffle(&mut v);
    v.into_iter().map(IOStatus::Party).collect()
}

/// plaintext result of the source context: custom operations instantiated, Call / Iterate evaluated
/// natively — neither the inliner nor the optimizer (both are under test) touch the reference
pub fn plain_eval(c: &Context, inputs: Vec<Value>, seed: [u8; 16]) -> Result<Value> {
    let c2 = ciphercore_base::custom_ops::run_instantiation_pass(c.clone())?.get_context();
    let mut e = SimpleEvaluator::new(Some(seed))?;
    e.preprocess(&c2)?;
    e.evaluate_graph(c2.get_main_graph()?, inputs)
}

pub fn compile(c: &Context, ins: &[IOStatus], outs: &[IOStatus], mode: u8) -> Result<Context> {
    Ok(compile_context(c.clone(), ins.to_vec(), outs.to_vec(), inline_cfg(mode), || SimpleEvaluator::new(None))?.get_context())
}

/// Inputs of the compiled main graph for the one-evaluator run: shared inputs become 3 shares.
pub fn global_inputs(ins: &[IOStatus], types: &[Type], inputs: &[Value], prng: &mut PRNG) -> Result<Vec<Value>> {
    let mut v = vec![];
    for (i, st) in ins.iter().enumerate() {
        match st {
            IOStatus::Shared => {
                let tv = TypedValue::new(types[i].clone(), inputs[i].clone())?;
                v.push(tv.secret_share(prng)?.value);
            }
            _ => v.push(inputs[i].clone()),
        }
    }
    Ok(v)
}

/// reveal a compiled output: for shared outputs (no output parties) sum the three shares
pub fn reveal_if_shared(out: Value, out_t: &Type, outs: &[IOStatus]) -> Result<Value> {
    if outs.is_empty() {
        let tv = TypedValue::new(tuple_type(vec![out_t.clone(); 3]), out)?;
        Ok(tv.secret_share_reveal()?.value)
    } else {
        Ok(out)
    }
}

/// One-evaluator run of the compiled main graph, returning every node value.
pub fn global_run(cc: &Context, inputs: Vec<Value>, seed: [u8; 16]) -> Result<Vec<Value>> {
    let g = cc.get_main_graph()?;
    let mut e = SimpleEvaluator::new(Some(seed))?;
    e.preprocess(cc)?;
    let mut vals: Vec<Value> = vec![];
    let mut input_id = 0;
    for node in g.get_nodes() {
        if node.get_operation().is_input() {
            vals.push(inputs[input_id].clone());
            input_id += 1;
            continue;
        }
        let deps: Vec<Value> = node.get_node_dependencies().iter().map(|d| vals[d.get_id() as usize].clone()).collect();
        vals.push(e.evaluate_node(node.clone(), deps)?);
    }
    Ok(vals)
}

pub struct Run3 {
    /// per party, per node: None = poison (evaluation failed on junk, or depends on poison)
    pub vals: Vec<Vec<Option<Value>>>,
    pub out: Vec<Option<Value>>,
    pub poison_sent: Vec<String>,
    /// values delivered at Send(_, r) nodes, per receiver: (node id, value)
    pub received: Vec<Vec<(u64, Option<Value>)>>,
}

/// Three-party execution (DESIGN §7a): all parties evaluate every node with their own evaluator /
/// PRNG; a party has real data only for inputs it owns (public: all; shared: slots p and p+1),
/// junk elsewhere; `Send(s, r)` replaces r's value of that node by s's, in annotation order.
pub fn three_party(cc: &Context, ins: &[IOStatus], inputs: &[Value], rng: &mut Rng) -> Result<Run3> {
    let g = cc.get_main_graph()?;
    let nodes = g.get_nodes();
    let mut evals: Vec<SimpleEvaluator> = vec![];
    for _ in 0..3 {
        let mut e = SimpleEvaluator::new(Some(rng.seed16()))?;
        e.preprocess(cc)?;
        evals.push(e);
    }
    let mut junk = PRNG::new(Some(rng.seed16()))?;
    let mut share_prng = PRNG::new(Some(rng.seed16()))?;
    let mut vals: Vec<Vec<Option<Value>>> = vec![vec![]; 3];
    let mut received: Vec<Vec<(u64, Option<Value>)>> = vec![vec![]; 3];
    let mut poison_sent = vec![];
    let mut input_id = 0;
    for node in nodes.iter() {
        let op = node.get_operation();
        let annos = node.get_annotations()?;
        if let Operation::Input(t) = op.clone() {
            let st = &ins[input_id];
            let x = inputs[input_id].clone();
            input_id += 1;
            match st {
                IOStatus::Public => {
                    for p in 0..3 {
                        vals[p].push(Some(x.clone()));
                    }
                }
                IOStatus::Party(o) => {
                    for p in 0..3 {
                        if p as u64 == *o {
                            vals[p].push(Some(x.clone()));
                        } else {
                            vals[p].push(Some(junk.get_random_value(t.clone())?));
                        }
                    }
                }
                IOStatus::Shared => {
                    let inner = if let Type::Tuple(v) = t.clone() { (*v[0]).clone() } else { return Err(ciphercore_base::runtime_error!("shared input is not a tuple")) };
                    let tv = TypedValue::new(inner.clone(), x.clone())?;
                    let shared = tv.secret_share(&mut share_prng)?.value.to_vector()?;
                    for p in 0..3 {
                        let mut s = vec![];
                        for i in 0..3 {
                            if i == p || i == (p + 1) % 3 {
                                s.push(shared[i].clone());
                            } else {
                                s.push(junk.get_random_value(inner.clone())?);
                            }
                        }
                        vals[p].push(Some(Value::from_vector(s)));
                    }
                }
            }
        } else {
            for p in 0..3 {
                let mut deps = vec![];
                let mut ok = true;
                for d in node.get_node_dependencies() {
                    match &vals[p][d.get_id() as usize] {
                        Some(v) => deps.push(v.clone()),
                        None => {
                            ok = false;
                            break;
                        }
                    }
                }
                let v = if ok {
                    match catch(|| evals[p].evaluate_node(node.clone(), deps)) {
                        Ok(Ok(v)) => Some(v),
                        _ => None,
                    }
                } else {
                    None
                };
                vals[p].push(v);
            }
        }
        for a in annos {
            if let NodeAnnotation::Send(s, r) = a {
                let id = node.get_id() as usize;
                let sv = vals[s as usize][id].clone();
                if sv.is_none() {
                    poison_sent.push(format!("node {} send {}->{}", id, s, r));
                }
                received[r as usize].push((id as u64, sv.clone()));
                vals[r as usize][id] = sv;
            }
        }
    }
    let oid = g.get_output_node()?.get_id() as usize;
    let out = (0..3).map(|p| vals[p][oid].clone()).collect();
    Ok(Run3 { vals, out, poison_sent, received })
}

/// Judge a three-party run against the plaintext result. Returns None if fine, else a description.
pub fn judge3(run: &Run3, expected: &Value, out_t: &Type, outs: &[IOStatus]) -> Option<String> {
    judge3_with(run, out_t, outs, &|v| v == expected)
}

/// like `judge3`, with the caller's acceptance predicate for the (reconstructed) result
pub fn judge3_with(run: &Run3, out_t: &Type, outs: &[IOStatus], accept: &dyn Fn(&Value) -> bool) -> Option<String> {
    if outs.is_empty() {
        let mut slots: Vec<Vec<Option<Value>>> = vec![vec![None; 3]; 3];
        for p in 0..3 {
            if let Some(v) = &run.out[p] {
                if let Ok(vs) = v.to_vector() {
                    if vs.len() == 3 {
                        for i in 0..3 {
                            slots[p][i] = Some(vs[i].clone());
                        }
                    }
                }
            }
        }
        let mut shares = vec![];
        for i in 0..3 {
            let a = slots[i][i].clone();
            let b = slots[(i + 2) % 3][i].clone();
            if a.is_none() || a != b {
                return Some(format!("share slot {} differs between party {} and party {}", i, i, (i + 2) % 3));
            }
            shares.push(a.unwrap());
        }
        let rec = TypedValue::new(tuple_type(vec![out_t.clone(); 3]), Value::from_vector(shares)).and_then(|tv| tv.secret_share_reveal());
        match rec {
            Ok(tv) if accept(&tv.value) => None,
            _ => Some("shares held by the parties do not reconstruct the result".into()),
        }
    } else {
        for o in outs {
            if let IOStatus::Party(p) = o {
                if !run.out[*p as usize].as_ref().map(|v| accept(v)).unwrap_or(false) {
                    return Some(format!("output party {} does not end with the result", p));
                }
                if let IOStatus::Party(q) = &outs[0] {
                    if run.out[*p as usize] != run.out[*q as usize] {
                        return Some(format!("output parties {} and {} end with different results", q, p));
                    }
                }
            }
        }
        None
    }
}

// --------------------------------------------------------------------------------------------
// IR of a (compiled or source) graph, for export to Lean
// --------------------------------------------------------------------------------------------

#[derive(Clone, Debug)]
pub struct IrNode {
    pub op: Operation,
    pub deps: Vec<u64>,
    pub sends: Vec<(u64, u64)>,
    pub ty: Type,
}

pub fn ir_of_graph(g: &Graph) -> Result<(Vec<IrNode>, u64)> {
    let mut v = vec![];
    for n in g.get_nodes() {
        let sends = n
            .get_annotations()?
            .iter()
            .filter_map(|a| if let NodeAnnotation::Send(s, r) = a { Some((*s, *r)) } else { None })
            .collect();
        v.push(IrNode {
            op: n.get_operation(),
            deps: n.get_node_dependencies().iter().map(|d| d.get_id()).collect(),
            sends,
            ty: n.get_type()?,
        });
    }
    Ok((v, g.get_output_node()?.get_id()))
}

pub fn op_tag(op: &Operation) -> String {
    let s = format!("{:?}", op);
    let t = s.split(|c| c == '(' || c == ' ' || c == '{').next().unwrap_or("").to_owned();
    if let Operation::Custom(c) = op {
        return format!("Custom:{}", c.get_name());
    }
    t
}

// --------------------------------------------------------------------------------------------
// Source program families
// --------------------------------------------------------------------------------------------

/// A straight-line arithmetic program over one array/scalar type: nodes refer to earlier nodes.
#[derive(Clone, Debug)]
pub enum AOp {
    Input,
    Const(i64),
    Add(usize, usize),
    Sub(usize, usize),
    Mul(usize, usize),
}

#[derive(Clone, Debug)]
pub struct AProg {
    pub st: ScalarType,
    pub shape: Vec<u64>, // empty = scalar
    pub ops: Vec<AOp>,
    /// if non-empty: the output is CreateTuple of these nodes (otherwise the last node)
    pub out_tuple: Vec<usize>,
}

impl AProg {
    pub fn ty(&self) -> Type {
        if self.shape.is_empty() {
            scalar_type(self.st)
        } else {
            array_type(self.shape.clone(), self.st)
        }
    }
    pub fn n_inputs(&self) -> usize {
        self.ops.iter().filter(|o| matches!(o, AOp::Input)).count()
    }
    pub fn describe(&self) -> String {
        let mut s = format!("{}{:?}:", st_name(self.st), self.shape);
        for (i, o) in self.ops.iter().enumerate() {
            s += &match o {
                AOp::Input => format!(" n{}=in", i),
                AOp::Const(c) => format!(" n{}={}", i, c),
                AOp::Add(a, b) => format!(" n{}=n{}+n{}", i, a, b),
                AOp::Sub(a, b) => format!(" n{}=n{}-n{}", i, a, b),
                AOp::Mul(a, b) => format!(" n{}=n{}*n{}", i, a, b),
            };
        }
        if !self.out_tuple.is_empty() {
            s += &format!(" out=tuple{:?}", self.out_tuple);
        }
        s
    }
    pub fn build(&self) -> Result<Context> {
        let c = create_context()?;
        let g = c.create_graph()?;
        let t = self.ty();
        let mut nodes: Vec<Node> = vec![];
        for o in &self.ops {
            let n = match o {
                AOp::Input => g.input(t.clone())?,
                AOp::Const(v) => {
                    let n: u64 = self.shape.iter().product();
                    let val = if self.st == BIT {
                        Value::from_flattened_array(&vec![(*v & 1) as u8; n as usize], BIT)?
                    } else {
                        Value::from_flattened_array(&vec![*v; n as usize], self.st)?
                    };
                    g.constant(t.clone(), val)?
                }
                AOp::Add(a, b) => nodes[*a].add(nodes[*b].clone())?,
                AOp::Sub(a, b) => nodes[*a].subtract(nodes[*b].clone())?,
                AOp::Mul(a, b) => nodes[*a].multiply(nodes[*b].clone())?,
            };
            nodes.push(n);
        }
        if self.out_tuple.is_empty() {
            nodes.last().unwrap().set_as_output()?;
        } else {
            g.create_tuple(self.out_tuple.iter().map(|i| nodes[*i].clone()).collect())?.set_as_output()?;
        }
        g.finalize()?;
        c.set_main_graph(g)?;
        c.finalize()?;
        Ok(c)
    }
}

/// random arithmetic program: 1..=3 inputs first, then `n_ops` operations; the last node is the output
pub fn gen_aprog(rng: &mut Rng, max_ops: usize, scalar_only: bool) -> AProg {
    let st = *rng.pick(&[BIT, UINT8, INT16, INT32, UINT64, INT64, UINT128, INT128, INT32, INT64]);
    let shape = if scalar_only || rng.chance(1, 3) { vec![] } else { gen_shape(rng, 2, 3, 6) };
    let n_in = 1 + rng.below(3) as usize;
    let mut ops: Vec<AOp> = (0..n_in).map(|_| AOp::Input).collect();
    let n_ops = 1 + rng.below(max_ops as u64) as usize;
    for k in 0..n_ops {
        let n = ops.len();
        // bias towards using the most recent node so that the output depends on the chain
        let a = if rng.chance(1, 2) { n - 1 } else { rng.below(n as u64) as usize };
        let b = rng.below(n as u64) as usize;
        let (a, b) = if rng.chance(1, 2) { (a, b) } else { (b, a) };
        let o = match rng.below(8) {
            0 if k + 1 < n_ops => AOp::Const(rng.range(-3, 7)),
            1 | 2 => AOp::Add(a, b),
            3 => AOp::Sub(a, b),
            _ => AOp::Mul(a, b),
        };
        ops.push(o);
    }
    if matches!(ops.last(), Some(AOp::Const(_))) {
        let n = ops.len();
        ops.push(AOp::Add(n - 1, 0));
    }
    AProg { st, shape, ops, out_tuple: vec![] }
}

pub fn gen_inputs_for(rng: &mut Rng, types: &[Type]) -> Vec<Value> {
    types
        .iter()
        .map(|t| match t {
            Type::Scalar(st) => gen_array_value(rng, &[1], *st).1,
            Type::Array(s, st) => gen_array_value(rng, s, *st).1,
            _ => Value::zero_of_type(t.clone()),
        })
        .collect()
}

// --------------------------------------------------------------------------------------------
// Export of a compiled graph as a Lean term of type `List CCV.Know.Node`
// --------------------------------------------------------------------------------------------

pub struct KnowExport {
    pub nodes_lean: String,
    pub n_nodes: usize,
    pub out: u64,
    pub owners: Vec<u64>,
    pub n_sends: usize,
    pub op_tags: Vec<String>,
    pub prf_ivs: Vec<u64>,
}

/// owner certificate of a Random node: the sender of the first Send marker reached from it
/// through NOP nodes (PRF keys are generated by one party and sent to its neighbour); otherwise the
/// sender of the first message computed from it; default 0.  (A certificate: the Lean theorem holds for
/// every owner assignment, the checker decides whether this one works.)
fn random_owner(ir: &[IrNode], r: usize) -> u64 {
    let mut frontier = vec![r];
    let mut steps = 0;
    while let Some(x) = frontier.pop() {
        steps += 1;
        if steps > 64 {
            break;
        }
        if let Some((s, _)) = ir[x].sends.first() {
            return *s;
        }
        for (j, n) in ir.iter().enumerate() {
            if matches!(n.op, Operation::NOP) && n.deps.contains(&(x as u64)) {
                frontier.push(j);
            }
        }
    }
    // never sent itself (a key only one party uses, e.g. the truncation key of party 2): it is drawn by the
    // party that first SENDS something computed from it
    let mut cone = vec![false; ir.len()];
    cone[r] = true;
    for j in (r + 1)..ir.len() {
        if ir[j].deps.iter().any(|d| cone[*d as usize]) {
            cone[j] = true;
            if let Some((s, _)) = ir[j].sends.first() {
                return *s;
            }
        }
    }
    0
}

pub fn export_know(ir: &[IrNode], out: u64) -> KnowExport {
    let mut s = String::new();
    let mut input_id = 0;
    let mut rand_id = 0;
    let mut owners = vec![];
    let mut tags: Vec<String> = vec![];
    let mut n_sends = 0;
    let mut prf_ivs = vec![];
    for (i, n) in ir.iter().enumerate() {
        let kind = match &n.op {
            Operation::Input(_) => {
                input_id += 1;
                format!(".input {}", input_id - 1)
            }
            Operation::Random(_) => {
                owners.push(random_owner(ir, i));
                rand_id += 1;
                format!(".random {}", rand_id - 1)
            }
            Operation::CreateTuple | Operation::CreateNamedTuple(_) | Operation::CreateVector(_) => ".mkTuple".to_owned(),
            Operation::TupleGet(j) => format!(".tupleGet {}", j),
            Operation::NamedTupleGet(name) => {
                let t = &ir[n.deps[0] as usize].ty;
                let idx = if let Type::NamedTuple(v) = t { v.iter().position(|(h, _)| h == name).unwrap_or(0) } else { 0 };
                format!(".tupleGet {}", idx)
            }
            Operation::NOP => ".nop".to_owned(),
            op => {
                if let Operation::PRF(iv, _) | Operation::PermutationFromPRF(iv, _) = op {
                    prf_ivs.push(*iv);
                }
                let key = format!("{:?}", op);
                let tag = match tags.iter().position(|t| *t == key) {
                    Some(p) => p,
                    None => {
                        tags.push(key);
                        tags.len() - 1
                    }
                };
                format!(".op {}", tag)
            }
        };
        n_sends += n.sends.len();
        let deps: Vec<String> = n.deps.iter().map(|d| d.to_string()).collect();
        let sends: Vec<String> = n.sends.iter().map(|(a, b)| format!("({}, {})", a, b)).collect();
        s += &format!("  ⟨{}, [{}], [{}]⟩{}\n", kind, deps.join(", "), sends.join(", "), if i + 1 == ir.len() { "" } else { "," });
    }
    KnowExport { nodes_lean: s, n_nodes: ir.len(), out, owners, n_sends, op_tags: tags, prf_ivs }
}

pub fn status_code(s: &IOStatus) -> u64 {
    match s {
        IOStatus::Party(p) => *p,
        IOStatus::Public => 3,
        IOStatus::Shared => 4,
    }
}
