//! Shared plumbing of the correspondence harness: deterministic PRNG, case/answer streams,
//! oracle-failure log, coverage statistics.
use serde_json::json;
use std::collections::{BTreeMap, BTreeSet};
use std::fmt::Write as _;
use std::io::Write as _;

#[derive(Clone, Copy, PartialEq, Eq, Debug)]
pub enum Tier {
    Quick,
    Thorough,
    /// extended counter-example search after a broken tie
    Search,
}

impl Tier {
    pub fn scale(self, quick: usize, thorough: usize) -> usize {
        match self {
            Tier::Quick => quick,
            Tier::Thorough => thorough,
            Tier::Search => thorough * 2,
        }
    }
}

/// splitmix64: every random choice of a run derives from (seed, stream name).
#[derive(Clone)]
pub struct Rng(u64);

impl Rng {
    pub fn new(seed: u64, stream: &str) -> Self {
        let mut h: u64 = 0xcbf29ce484222325 ^ seed.wrapping_mul(0x9E3779B97F4A7C15);
        for b in stream.bytes() {
            h ^= b as u64;
            h = h.wrapping_mul(0x100000001b3);
        }
        let mut r = Rng(h);
        r.next();
        r
    }
    pub fn next(&mut self) -> u64 {
        self.0 = self.0.wrapping_add(0x9E3779B97F4A7C15);
        let mut z = self.0;
        z = (z ^ (z >> 30)).wrapping_mul(0xBF58476D1CE4E5B9);
        z = (z ^ (z >> 27)).wrapping_mul(0x94D049BB133111EB);
        z ^ (z >> 31)
    }
    pub fn next128(&mut self) -> u128 {
        ((self.next() as u128) << 64) | self.next() as u128
    }
    /// uniform in 0..n (n > 0); modulo bias irrelevant for test generation
    pub fn below(&mut self, n: u64) -> u64 {
        self.next() % n
    }
    pub fn range(&mut self, lo: i64, hi_incl: i64) -> i64 {
        lo + (self.next() % ((hi_incl - lo + 1) as u64)) as i64
    }
    pub fn chance(&mut self, num: u64, den: u64) -> bool {
        self.below(den) < num
    }
    pub fn pick<'a, T>(&mut self, xs: &'a [T]) -> &'a T {
        &xs[self.below(xs.len() as u64) as usize]
    }
    pub fn seed16(&mut self) -> [u8; 16] {
        self.next128().to_le_bytes()
    }
    pub fn shuffle<T>(&mut self, xs: &mut [T]) {
        for i in (1..xs.len()).rev() {
            let j = self.below(i as u64 + 1) as usize;
            xs.swap(i, j);
        }
    }
}

pub struct OracleFailure {
    pub sig: String,
    pub detail: String,
}

/// One correspondence run: requests for the model, the implementation's answers, failures of the
/// implementation against the property's own oracle, and what was covered.
pub struct Run {
    pub prop: String,
    pub seed: u64,
    pub tier: Tier,
    cases: Vec<String>,
    answers: Vec<String>,
    pub oracle_failures: Vec<OracleFailure>,
    pub oracle_checks: u64,
    counters: BTreeMap<String, u64>,
    distinct: BTreeSet<u64>,
    samples: Vec<String>,
    pub rule: String,
    pub notes: Vec<String>,
    pub extra: BTreeMap<String, serde_json::Value>,
    /// oracle failures are also appended here as they occur, so that they survive a hang or crash
    live: Option<std::fs::File>,
}

fn fnv(s: &str) -> u64 {
    let mut h: u64 = 0xcbf29ce484222325;
    for b in s.bytes() {
        h ^= b as u64;
        h = h.wrapping_mul(0x100000001b3);
    }
    h
}

impl Run {
    pub fn new(prop: &str, seed: u64, tier: Tier) -> Self {
        Run {
            prop: prop.to_owned(),
            seed,
            tier,
            cases: vec![],
            answers: vec![],
            oracle_failures: vec![],
            oracle_checks: 0,
            counters: BTreeMap::new(),
            distinct: BTreeSet::new(),
            samples: vec![],
            rule: String::new(),
            notes: vec![],
            extra: BTreeMap::new(),
            live: None,
        }
    }
    pub fn set_live_dir(&mut self, out_dir: &str) {
        let _ = std::fs::create_dir_all(out_dir);
        self.live = std::fs::File::create(format!("{}/oracle_live.jsonl", out_dir)).ok();
    }
    pub fn rng(&self, stream: &str) -> Rng {
        Rng::new(self.seed, &format!("{}/{}", self.prop, stream))
    }
    /// A request for the model (without the property prefix) and the implementation's answer.
    /// `nontrivial` says whether this case counts as non-trivial by the stream's stated rule.
    pub fn case(&mut self, req: String, answer: String, nontrivial: bool) {
        debug_assert!(!req.contains('\n') && !answer.contains('\n'));
        if nontrivial {
            self.distinct.insert(fnv(&req));
        }
        if self.samples.len() < 6 || (self.cases.len() % 997 == 0 && self.samples.len() < 12) {
            self.samples.push(format!("{} {} => {}", self.prop, trunc(&req, 300), trunc(&answer, 200)));
        }
        self.cases.push(format!("{} {}", self.prop, req));
        self.answers.push(answer);
    }
    /// a case that is only run against the oracle (no model request)
    pub fn oracle_case(&mut self, descr: &str, nontrivial: bool) {
        self.oracle_checks += 1;
        if nontrivial {
            self.distinct.insert(fnv(descr));
        }
        if self.samples.len() < 12 && self.oracle_checks % 211 == 1 {
            self.samples.push(format!("oracle: {}", trunc(descr, 300)));
        }
    }
    pub fn count(&mut self, key: &str) {
        *self.counters.entry(key.to_owned()).or_insert(0) += 1;
    }
    pub fn count_n(&mut self, key: &str, n: u64) {
        *self.counters.entry(key.to_owned()).or_insert(0) += n;
    }
    /// The implementation contradicts the property's oracle. `sig` is a stable signature used to
    /// match known findings (operation / call site / history shape); `detail` is the replayable input.
    pub fn oracle_fail(&mut self, sig: &str, detail: String) {
        self.count(&format!("oracle_fail:{}", sig));
        if self.oracle_failures.len() < 200 {
            if let Some(f) = self.live.as_mut() {
                let _ = writeln!(f, "{}", json!({"sig": sig, "detail": detail}));
                let _ = f.flush();
            }
            self.oracle_failures.push(OracleFailure { sig: sig.to_owned(), detail });
        }
    }
    pub fn finish(&self, out_dir: &str) -> std::io::Result<()> {
        std::fs::create_dir_all(out_dir)?;
        let mut f = std::io::BufWriter::new(std::fs::File::create(format!("{}/cases.txt", out_dir))?);
        for c in &self.cases {
            writeln!(f, "{}", c)?;
        }
        f.flush()?;
        let mut f = std::io::BufWriter::new(std::fs::File::create(format!("{}/impl.txt", out_dir))?);
        for c in &self.answers {
            writeln!(f, "{}", c)?;
        }
        f.flush()?;
        let mut f = std::io::BufWriter::new(std::fs::File::create(format!("{}/oracle.jsonl", out_dir))?);
        for o in &self.oracle_failures {
            writeln!(f, "{}", json!({"sig": o.sig, "detail": o.detail}))?;
        }
        f.flush()?;
        let stats = json!({
            "property": self.prop,
            "seed": self.seed,
            "tier": format!("{:?}", self.tier).to_lowercase(),
            "model_cases": self.cases.len(),
            "oracle_checks": self.oracle_checks,
            "distinct_nontrivial": self.distinct.len(),
            "rule": self.rule,
            "samples": self.samples,
            "distribution": self.counters,
            "notes": self.notes,
            "extra": self.extra,
        });
        std::fs::write(format!("{}/stats.json", out_dir), serde_json::to_string_pretty(&stats).unwrap())?;
        Ok(())
    }
}

pub fn trunc(s: &str, n: usize) -> String {
    if s.len() <= n {
        s.to_owned()
    } else {
        let mut e = n;
        while !s.is_char_boundary(e) {
            e -= 1;
        }
        format!("{}…", &s[..e])
    }
}

pub fn show_list<T: std::fmt::Display>(xs: &[T]) -> String {
    if xs.is_empty() {
        return "_".to_owned();
    }
    let mut s = String::new();
    for (i, x) in xs.iter().enumerate() {
        if i > 0 {
            s.push(',');
        }
        write!(s, "{}", x).unwrap();
    }
    s
}

pub fn show_res<T: std::fmt::Display, E>(r: &std::result::Result<Vec<T>, E>) -> String {
    match r {
        Ok(v) => show_list(v),
        Err(_) => "ERR".to_owned(),
    }
}

/// run a closure, turning a panic into `Err(message)`
pub fn catch<R>(f: impl FnOnce() -> R) -> std::result::Result<R, String> {
    match std::panic::catch_unwind(std::panic::AssertUnwindSafe(f)) {
        Ok(r) => Ok(r),
        Err(e) => {
            let msg = if let Some(s) = e.downcast_ref::<&str>() {
                s.to_string()
            } else if let Some(s) = e.downcast_ref::<String>() {
                s.clone()
            } else {
                "panic".to_owned()
            };
            Err(msg)
        }
    }
}
