//! Scalar types, mathematical integers and boundary-biased value generation.
use crate::util::Rng;
use ciphercore_base::data_types::*;
use ciphercore_base::data_values::Value;
use ciphercore_base::errors::Result;

pub const ALL_ST: [ScalarType; 11] = [BIT, UINT8, INT8, UINT16, INT16, UINT32, INT32, UINT64, INT64, UINT128, INT128];

pub fn st_name(st: ScalarType) -> &'static str {
    match st {
        ScalarType::Bit => "bit",
        ScalarType::U8 => "u8",
        ScalarType::I8 => "i8",
        ScalarType::U16 => "u16",
        ScalarType::I16 => "i16",
        ScalarType::U32 => "u32",
        ScalarType::I32 => "i32",
        ScalarType::U64 => "u64",
        ScalarType::I64 => "i64",
        ScalarType::U128 => "u128",
        ScalarType::I128 => "i128",
    }
}

pub fn st_bits(st: ScalarType) -> u32 {
    st.size_in_bits() as u32
}

/// A mathematical integer in [-2^127, 2^128): every value of every native Rust integer type.
#[derive(Clone, Copy, PartialEq, Eq, Debug)]
pub enum Z {
    I(i128),
    U(u128),
}

impl std::fmt::Display for Z {
    fn fmt(&self, f: &mut std::fmt::Formatter) -> std::fmt::Result {
        match self {
            Z::I(x) => write!(f, "{}", x),
            Z::U(x) => write!(f, "{}", x),
        }
    }
}

impl Z {
    pub fn norm(self) -> Z {
        match self {
            Z::U(x) if x < (1u128 << 127) => Z::I(x as i128),
            z => z,
        }
    }
    /// residue modulo 2^128 (the `as u128` cast)
    pub fn as_u128(self) -> u128 {
        match self {
            Z::I(x) => x as u128,
            Z::U(x) => x,
        }
    }
    /// residue modulo 2^bits
    pub fn residue(self, bits: u32) -> u128 {
        if bits >= 128 {
            self.as_u128()
        } else {
            self.as_u128() & ((1u128 << bits) - 1)
        }
    }
    /// the integer the residue denotes in scalar type `st`
    pub fn wrap_to(self, st: ScalarType) -> Z {
        let bits = st_bits(st);
        let r = self.residue(bits);
        if st.is_signed() {
            if bits == 128 {
                Z::I(r as i128)
            } else if r >> (bits - 1) == 1 {
                Z::I(r as i128 - (1i128 << bits))
            } else {
                Z::I(r as i128)
            }
        } else {
            Z::U(r).norm()
        }
    }
}

/// boundary-biased integer of `bits` width, signed or not (a value of a *native* type)
pub fn gen_native(rng: &mut Rng, bits: u32, signed: bool) -> Z {
    let full = |r: u128| -> Z {
        let m = if bits == 128 { r } else { r & ((1u128 << bits) - 1) };
        if signed {
            let v = if bits == 128 {
                m as i128
            } else if m >> (bits - 1) == 1 {
                m as i128 - (1i128 << bits)
            } else {
                m as i128
            };
            Z::I(v)
        } else {
            Z::U(m).norm()
        }
    };
    match rng.below(10) {
        0 => Z::I(0),
        1 => full(1),
        2 => full(u128::MAX),                                  // -1 or max
        3 => full(1u128 << (bits - 1)),                        // min (signed) / 2^(w-1)
        4 => full((1u128 << (bits - 1)).wrapping_sub(1)),      // max signed
        5 => {
            // near a power of two
            let k = rng.below(bits as u64) as u32;
            let d = rng.below(3) as u128;
            full((1u128 << k).wrapping_add(d).wrapping_sub(1))
        }
        6 => full(rng.below(16) as u128),
        7 => full((rng.below(16) as u128).wrapping_neg()),
        _ => full(rng.next128()),
    }
}

/// boundary-biased element of scalar type `st`, as the integer it denotes
pub fn gen_elem(rng: &mut Rng, st: ScalarType) -> Z {
    if st == BIT {
        Z::I(rng.below(2) as i128)
    } else {
        gen_native(rng, st_bits(st), st.is_signed())
    }
}

/// `Value::from_flattened_array` with the narrowest slice type that holds all elements
pub fn value_of(st: ScalarType, xs: &[Z]) -> Result<Value> {
    if xs.iter().all(|z| matches!(z.norm(), Z::I(_))) {
        let v: Vec<i128> = xs.iter().map(|z| if let Z::I(x) = z.norm() { x } else { unreachable!() }).collect();
        Value::from_flattened_array(&v, st)
    } else {
        let v: Vec<u128> = xs.iter().map(|z| z.as_u128()).collect();
        Value::from_flattened_array(&v, st)
    }
}

pub fn gen_array_value(rng: &mut Rng, shape: &[u64], st: ScalarType) -> (Vec<Z>, Value) {
    let n: u64 = shape.iter().product();
    let xs: Vec<Z> = (0..n).map(|_| gen_elem(rng, st)).collect();
    let v = value_of(st, &xs).expect("value_of");
    (xs, v)
}

pub fn bytes_of(v: &Value) -> Vec<u8> {
    v.access_bytes(|b| Ok(b.to_vec())).unwrap_or_default()
}

/// elements of an array value as the integers they denote in `st`
pub fn elems_of(v: &Value, shape: &[u64], st: ScalarType) -> Result<Vec<Z>> {
    let t = array_type(shape.to_vec(), st);
    let u = v.to_flattened_array_u128(t)?;
    Ok(u.into_iter().map(|x| Z::U(x).wrap_to(st)).collect())
}

pub fn gen_shape(rng: &mut Rng, max_rank: usize, max_dim: u64, max_elems: u64) -> Vec<u64> {
    loop {
        let rank = 1 + rng.below(max_rank as u64) as usize;
        let s: Vec<u64> = (0..rank).map(|_| 1 + rng.below(max_dim)).collect();
        if s.iter().product::<u64>() <= max_elems {
            return s;
        }
    }
}
