//! Abstract contexts (the shape of `CCV.Serde.SerCtx`), their one-line encoding, conversion from/to the
//! real JSON payload, construction through the builder API, an independent well-formedness checker
//! on generic JSON, and the model-tie stream.
use super::*;

pub const OP_INPUT: u64 = 1;
pub const OP_ADD: u64 = 2;
pub const OP_SUB: u64 = 3;
pub const OP_MUL: u64 = 4;
pub const OP_CALL: u64 = 5;
pub const OP_OTHER: u64 = 99;

#[derive(Clone, Debug, PartialEq)]
pub struct ANode {
    pub op: u64,
    pub deps: Vec<u64>,
    pub gdeps: Vec<u64>,
}
#[derive(Clone, Debug, PartialEq)]
pub struct AGraph {
    pub finalized: bool,
    pub nodes: Vec<ANode>,
    pub output: Option<u64>,
}
#[derive(Clone, Debug, PartialEq)]
pub struct ACtx {
    pub finalized: bool,
    pub graphs: Vec<AGraph>,
    pub main: Option<u64>,
    pub gnames: Vec<(u64, u64)>,
    pub nnames: Vec<((u64, u64), u64)>,
    pub ganns: Vec<(u64, Vec<u64>)>,
    pub nanns: Vec<((u64, u64), Vec<u64>)>,
}

fn enc_opt(o: Option<u64>) -> u64 {
    match o {
        None => 0,
        Some(x) => x.saturating_add(1),
    }
}

/// `CCV.Serde.encSer`
pub fn enc(c: &ACtx) -> String {
    let mut v: Vec<u64> = vec![c.finalized as u64, enc_opt(c.main), c.graphs.len() as u64];
    for g in &c.graphs {
        v.extend([g.finalized as u64, enc_opt(g.output), g.nodes.len() as u64]);
        for n in &g.nodes {
            v.push(n.op);
            v.push(n.deps.len() as u64);
            v.extend(&n.deps);
            v.push(n.gdeps.len() as u64);
            v.extend(&n.gdeps);
        }
    }
    v.push(c.gnames.len() as u64);
    for (g, nm) in &c.gnames {
        v.extend([*g, *nm]);
    }
    v.push(c.nnames.len() as u64);
    for ((g, n), nm) in &c.nnames {
        v.extend([*g, *n, *nm]);
    }
    v.push(c.ganns.len() as u64);
    for (g, a) in &c.ganns {
        v.extend([*g, a.len() as u64]);
        v.extend(a);
    }
    v.push(c.nanns.len() as u64);
    for ((g, n), a) in &c.nanns {
        v.extend([*g, *n, a.len() as u64]);
        v.extend(a);
    }
    show_list(&v)
}

// ---------------------------------------------------------------------------- annotations / names

pub fn node_ann_of(code: u64) -> NodeAnnotation {
    match code {
        0 => NodeAnnotation::AssociativeOperation,
        1 => NodeAnnotation::Private,
        2 => NodeAnnotation::PRFMultiplication,
        3 => NodeAnnotation::PRFB2A,
        4 => NodeAnnotation::PRFTruncate,
        5 => NodeAnnotation::MpcCall,
        x => NodeAnnotation::Send((x - 10) / 3, (x - 10) % 3),
    }
}
pub fn graph_ann_of(code: u64) -> GraphAnnotation {
    match code {
        0 => GraphAnnotation::AssociativeOperation,
        1 => GraphAnnotation::OneBitState,
        _ => GraphAnnotation::SmallState,
    }
}
fn node_ann_json(code: u64) -> J {
    serde_json::to_value(node_ann_of(code)).unwrap()
}
fn graph_ann_json(code: u64) -> J {
    serde_json::to_value(graph_ann_of(code)).unwrap()
}
fn node_ann_code(j: &J) -> Option<u64> {
    if let Some(s) = j.as_str() {
        return Some(match s {
            "AssociativeOperation" => 0,
            "Private" => 1,
            "PRFMultiplication" => 2,
            "PRFB2A" => 3,
            "PRFTruncate" => 4,
            "MpcCall" => 5,
            _ => return None,
        });
    }
    let v = j.get("Send")?.as_array()?;
    Some(10 + 3 * v.first()?.as_u64()? + v.get(1)?.as_u64()?)
}
fn graph_ann_code(j: &J) -> Option<u64> {
    Some(match j.as_str()? {
        "AssociativeOperation" => 0,
        "OneBitState" => 1,
        "SmallState" => 2,
        _ => return None,
    })
}
pub fn name_of(code: u64) -> String {
    format!("n{}", code)
}
fn name_code(j: &J) -> Option<u64> {
    j.as_str()?.strip_prefix('n')?.parse().ok()
}

fn op_code(j: &J) -> u64 {
    let name = if let Some(s) = j.as_str() {
        s.to_owned()
    } else if let Some(o) = j.as_object() {
        o.keys().next().cloned().unwrap_or_default()
    } else {
        String::new()
    };
    match name.as_str() {
        "Input" => OP_INPUT,
        "Add" => OP_ADD,
        "Subtract" => OP_SUB,
        "Multiply" => OP_MUL,
        "Call" => OP_CALL,
        _ => OP_OTHER,
    }
}
fn op_json(code: u64) -> J {
    match code {
        OP_INPUT => serde_json::to_value(Operation::Input(scalar_type(INT32))).unwrap(),
        OP_ADD => json!("Add"),
        OP_SUB => json!("Subtract"),
        OP_MUL => json!("Multiply"),
        OP_CALL => json!("Call"),
        _ => json!("NOP"),
    }
}

fn u64s(j: &J) -> Option<Vec<u64>> {
    j.as_array()?.iter().map(|x| x.as_u64()).collect()
}
fn opt_u64(j: &J) -> Option<Option<u64>> {
    if j.is_null() {
        Some(None)
    } else {
        Some(Some(j.as_u64()?))
    }
}
fn pair(j: &J) -> Option<(u64, u64)> {
    let v = j.as_array()?;
    if v.len() != 2 {
        return None;
    }
    Some((v[0].as_u64()?, v[1].as_u64()?))
}

/// the real JSON payload (SerializableContextBody) → abstract form; `None` if it is not of that shape
pub fn dec_payload(p: &J) -> Option<ACtx> {
    let mut graphs = vec![];
    for g in p.get("graphs")?.as_array()? {
        let mut nodes = vec![];
        for n in g.get("nodes")?.as_array()? {
            nodes.push(ANode { op: op_code(n.get("operation")?), deps: u64s(n.get("node_dependencies")?)?, gdeps: u64s(n.get("graph_dependencies")?)? });
        }
        graphs.push(AGraph { finalized: g.get("finalized")?.as_bool()?, nodes, output: opt_u64(g.get("output_node")?)? });
    }
    let mut gnames = vec![];
    for e in p.get("graphs_names")?.as_array()? {
        let e = e.as_array()?;
        gnames.push((e.first()?.as_u64()?, name_code(e.get(1)?)?));
    }
    let mut nnames = vec![];
    for e in p.get("nodes_names")?.as_array()? {
        let e = e.as_array()?;
        nnames.push((pair(e.first()?)?, name_code(e.get(1)?)?));
    }
    let mut ganns = vec![];
    for e in p.get("graphs_annotations")?.as_array()? {
        let e = e.as_array()?;
        ganns.push((e.first()?.as_u64()?, e.get(1)?.as_array()?.iter().map(graph_ann_code).collect::<Option<Vec<_>>>()?));
    }
    let mut nanns = vec![];
    for e in p.get("nodes_annotations")?.as_array()? {
        let e = e.as_array()?;
        nanns.push((pair(e.first()?)?, e.get(1)?.as_array()?.iter().map(node_ann_code).collect::<Option<Vec<_>>>()?));
    }
    Some(ACtx { finalized: p.get("finalized")?.as_bool()?, graphs, main: opt_u64(p.get("main_graph")?)?, gnames, nnames, ganns, nanns })
}

/// abstract form → JSON payload in the real format (checked against real serializations on every
/// unmutated case: `to_payload(dec_payload(real)) == real`)
pub fn to_payload(c: &ACtx) -> J {
    let graphs: Vec<J> = c
        .graphs
        .iter()
        .map(|g| {
            let nodes: Vec<J> = g.nodes.iter().map(|n| json!({"node_dependencies": n.deps, "graph_dependencies": n.gdeps, "operation": op_json(n.op)})).collect();
            json!({"finalized": g.finalized, "nodes": nodes, "output_node": g.output})
        })
        .collect();
    json!({
        "finalized": c.finalized,
        "graphs": graphs,
        "main_graph": c.main,
        "graphs_names": c.gnames.iter().map(|(g, nm)| json!([g, name_of(*nm)])).collect::<Vec<_>>(),
        "nodes_names": c.nnames.iter().map(|((g, n), nm)| json!([[g, n], name_of(*nm)])).collect::<Vec<_>>(),
        "nodes_annotations": c.nanns.iter().map(|((g, n), a)| json!([[g, n], a.iter().map(|x| node_ann_json(*x)).collect::<Vec<_>>()])).collect::<Vec<_>>(),
        "graphs_annotations": c.ganns.iter().map(|(g, a)| json!([g, a.iter().map(|x| graph_ann_json(*x)).collect::<Vec<_>>()])).collect::<Vec<_>>(),
    })
}

/// Some(true): graphs_annotations has an out-of-range id; Some(false): nodes_annotations has one
pub fn annotation_oob(p: &J) -> Option<bool> {
    let graphs = p.get("graphs")?.as_array()?;
    let n_nodes = |g: u64| -> Option<u64> { Some(graphs.get(g as usize)?.get("nodes")?.as_array()?.len() as u64) };
    for e in p.get("graphs_annotations")?.as_array()? {
        let g = e.as_array()?.first()?.as_u64()?;
        if g >= graphs.len() as u64 {
            return Some(true);
        }
    }
    for e in p.get("nodes_annotations")?.as_array()? {
        let (g, n) = pair(e.as_array()?.first()?)?;
        match n_nodes(g) {
            None => return Some(false),
            Some(k) if n >= k => return Some(false),
            _ => {}
        }
    }
    None
}

/// Independent well-formedness check of a serialized payload (generic JSON; any operations):
/// returns the first violated rule.
pub fn wf_check(p: &J) -> std::result::Result<(), String> {
    wf_check_mode(p, true)
}

/// `strict`: what a serialization produced by the library must satisfy (tables sorted by key, no
/// duplicate annotation keys, no empty annotation lists); lenient: what the recovery must accept
/// (the builder replay merges duplicate annotation keys, ignores empty lists and table order)
pub fn wf_check_mode(p: &J, strict: bool) -> std::result::Result<(), String> {
    let bad = |s: &str| Err(s.to_owned());
    let graphs = match p.get("graphs").and_then(|g| g.as_array()) {
        Some(g) => g,
        None => return bad("shape:graphs"),
    };
    let mut fin: Vec<bool> = vec![];
    let mut sizes = vec![];
    for (gi, g) in graphs.iter().enumerate() {
        let nodes = match g.get("nodes").and_then(|g| g.as_array()) {
            Some(n) => n,
            None => return bad("shape:nodes"),
        };
        for (k, n) in nodes.iter().enumerate() {
            let deps = n.get("node_dependencies").and_then(u64s).ok_or("shape:deps")?;
            let gdeps = n.get("graph_dependencies").and_then(u64s).ok_or("shape:gdeps")?;
            if deps.iter().any(|d| *d >= k as u64) {
                return bad("dep-not-earlier");
            }
            if gdeps.iter().any(|h| *h >= gi as u64 || !fin[*h as usize]) {
                return bad("gdep-not-earlier-finalized");
            }
        }
        let out = g.get("output_node").and_then(opt_u64).ok_or("shape:output")?;
        let f = g.get("finalized").and_then(|x| x.as_bool()).ok_or("shape:gfinalized")?;
        if let Some(o) = out {
            if o >= nodes.len() as u64 {
                return bad("output-oob");
            }
        }
        if f && out.is_none() {
            return bad("finalized-without-output");
        }
        fin.push(f);
        sizes.push(nodes.len() as u64);
    }
    let main = p.get("main_graph").and_then(opt_u64).ok_or("shape:main")?;
    if let Some(m) = main {
        if m >= fin.len() as u64 || !fin[m as usize] {
            return bad("main-invalid");
        }
    }
    let cf = p.get("finalized").and_then(|x| x.as_bool()).ok_or("shape:finalized")?;
    if cf && (main.is_none() || fin.iter().any(|f| !f)) {
        return bad("ctx-finalized-early");
    }
    let mut seen_k = std::collections::BTreeSet::new();
    let mut seen_v = std::collections::BTreeSet::new();
    let mut last: Option<u64> = None;
    for e in p.get("graphs_names").and_then(|x| x.as_array()).ok_or("shape:gn")? {
        let e = e.as_array().ok_or("shape:gn")?;
        let g = e.first().and_then(|x| x.as_u64()).ok_or("shape:gn")?;
        let nm = e.get(1).and_then(|x| x.as_str()).ok_or("shape:gn")?.to_owned();
        if g >= fin.len() as u64 {
            return bad("gn-oob");
        }
        if !seen_k.insert(g) || !seen_v.insert(nm) {
            return bad("gn-duplicate");
        }
        if strict && last.map_or(false, |l| l >= g) {
            return bad("gn-unsorted");
        }
        last = Some(g);
    }
    let in_range = |k: (u64, u64)| (k.0 as usize) < sizes.len() && k.1 < sizes[k.0 as usize];
    let mut seen_k = std::collections::BTreeSet::new();
    let mut seen_v = std::collections::BTreeSet::new();
    let mut last: Option<(u64, u64)> = None;
    for e in p.get("nodes_names").and_then(|x| x.as_array()).ok_or("shape:nn")? {
        let e = e.as_array().ok_or("shape:nn")?;
        let k = e.first().and_then(pair).ok_or("shape:nn")?;
        let nm = e.get(1).and_then(|x| x.as_str()).ok_or("shape:nn")?.to_owned();
        if !in_range(k) {
            return bad("nn-oob");
        }
        if !seen_k.insert(k) || !seen_v.insert((k.0, nm)) {
            return bad("nn-duplicate");
        }
        if strict && last.map_or(false, |l| l >= k) {
            return bad("nn-unsorted");
        }
        last = Some(k);
    }
    let mut last: Option<u64> = None;
    for e in p.get("graphs_annotations").and_then(|x| x.as_array()).ok_or("shape:ga")? {
        let e = e.as_array().ok_or("shape:ga")?;
        let g = e.first().and_then(|x| x.as_u64()).ok_or("shape:ga")?;
        if g >= fin.len() as u64 {
            return bad("ga-oob");
        }
        if e.get(1).and_then(|x| x.as_array()).ok_or("shape:ga")?.is_empty() && strict {
            return bad("ga-empty");
        }
        if strict && last.map_or(false, |l| l >= g) {
            return bad("ga-unsorted-or-duplicate");
        }
        last = Some(g);
    }
    let mut last: Option<(u64, u64)> = None;
    for e in p.get("nodes_annotations").and_then(|x| x.as_array()).ok_or("shape:na")? {
        let e = e.as_array().ok_or("shape:na")?;
        let k = e.first().and_then(pair).ok_or("shape:na")?;
        if !in_range(k) {
            return bad("na-oob");
        }
        if e.get(1).and_then(|x| x.as_array()).ok_or("shape:na")?.is_empty() && strict {
            return bad("na-empty");
        }
        if strict && last.map_or(false, |l| l >= k) {
            return bad("na-unsorted-or-duplicate");
        }
        last = Some(k);
    }
    Ok(())
}

// ---------------------------------------------------------------------------- builder

/// build through the public API; tables are applied in the listed order
pub fn build(a: &ACtx) -> Result<Context> {
    let c = create_context()?;
    let t = scalar_type(INT32);
    let mut graphs: Vec<Graph> = vec![];
    for ag in &a.graphs {
        let g = c.create_graph()?;
        let mut nodes: Vec<Node> = vec![];
        for n in &ag.nodes {
            let d = |i: usize| nodes[n.deps[i] as usize].clone();
            let node = match n.op {
                OP_INPUT => g.input(t.clone())?,
                OP_ADD => d(0).add(d(1))?,
                OP_SUB => d(0).subtract(d(1))?,
                OP_MUL => d(0).multiply(d(1))?,
                _ => g.call(graphs[n.gdeps[0] as usize].clone(), vec![d(0), d(1)])?,
            };
            nodes.push(node);
        }
        if let Some(o) = ag.output {
            g.set_output_node(nodes[o as usize].clone())?;
        }
        if ag.finalized {
            g.finalize()?;
        }
        graphs.push(g);
    }
    if let Some(m) = a.main {
        c.set_main_graph(graphs[m as usize].clone())?;
    }
    let node = |k: &(u64, u64)| graphs[k.0 as usize].get_nodes()[k.1 as usize].clone();
    // interleave the two name tables and the two annotation tables as listed
    for (g, nm) in &a.gnames {
        graphs[*g as usize].set_name(&name_of(*nm))?;
    }
    for (k, nm) in &a.nnames {
        node(k).set_name(&name_of(*nm))?;
    }
    for (k, anns) in &a.nanns {
        for x in anns {
            node(k).add_annotation(node_ann_of(*x))?;
        }
    }
    for (g, anns) in &a.ganns {
        for x in anns {
            graphs[*g as usize].add_annotation(graph_ann_of(*x))?;
        }
    }
    if a.finalized {
        c.finalize()?;
    }
    Ok(c)
}

// ---------------------------------------------------------------------------- generator

pub const NODE_ANN_CODES: [u64; 15] = [0, 1, 2, 3, 4, 5, 10, 11, 12, 13, 14, 15, 16, 17, 18];

/// a valid abstract context; tables in random ("hash map") order
pub fn gen_actx(rng: &mut Rng) -> ACtx {
    let ng = 1 + rng.below(4) as usize;
    let mut graphs: Vec<AGraph> = vec![];
    for gi in 0..ng {
        if rng.chance(1, 12) {
            graphs.push(AGraph { finalized: false, nodes: vec![], output: None });
            continue;
        }
        let mut nodes = vec![ANode { op: OP_INPUT, deps: vec![], gdeps: vec![] }, ANode { op: OP_INPUT, deps: vec![], gdeps: vec![] }];
        let callable: Vec<u64> = (0..gi as u64).filter(|h| graphs[*h as usize].finalized).collect();
        for _ in 0..rng.below(6) {
            let n = nodes.len() as u64;
            let a = if rng.chance(1, 2) { n - 1 } else { rng.below(n) };
            let b = rng.below(n);
            if !callable.is_empty() && rng.chance(1, 3) {
                nodes.push(ANode { op: OP_CALL, deps: vec![a, b], gdeps: vec![*rng.pick(&callable)] });
            } else {
                nodes.push(ANode { op: *rng.pick(&[OP_ADD, OP_SUB, OP_MUL]), deps: vec![a, b], gdeps: vec![] });
            }
        }
        let output = if rng.chance(9, 10) { Some(if rng.chance(2, 3) { nodes.len() as u64 - 1 } else { rng.below(nodes.len() as u64) }) } else { None };
        let finalized = output.is_some() && rng.chance(9, 10);
        graphs.push(AGraph { finalized, nodes, output });
    }
    let finals: Vec<u64> = (0..ng as u64).filter(|h| graphs[*h as usize].finalized).collect();
    let main = if !finals.is_empty() && rng.chance(9, 10) { Some(if rng.chance(2, 3) { *finals.last().unwrap() } else { *rng.pick(&finals) }) } else { None };
    let finalized = main.is_some() && finals.len() == ng && rng.chance(4, 5);
    let mut gnames = vec![];
    let mut codes: Vec<u64> = (0..12).collect();
    rng.shuffle(&mut codes);
    for g in 0..ng as u64 {
        if rng.chance(1, 2) {
            gnames.push((g, codes.pop().unwrap()));
        }
    }
    let mut nnames = vec![];
    let mut nanns = vec![];
    for g in 0..ng as u64 {
        let mut codes: Vec<u64> = (0..12).collect();
        rng.shuffle(&mut codes);
        for n in 0..graphs[g as usize].nodes.len() as u64 {
            if rng.chance(2, 5) {
                nnames.push(((g, n), codes.pop().unwrap()));
            }
            if rng.chance(1, 3) {
                let k = 1 + rng.below(3);
                nanns.push(((g, n), (0..k).map(|_| *rng.pick(&NODE_ANN_CODES)).collect()));
            }
        }
    }
    let mut ganns = vec![];
    for g in 0..ng as u64 {
        if rng.chance(1, 3) {
            let k = 1 + rng.below(3);
            ganns.push((g, (0..k).map(|_| rng.below(3)).collect()));
        }
    }
    rng.shuffle(&mut gnames);
    rng.shuffle(&mut nnames);
    rng.shuffle(&mut ganns);
    rng.shuffle(&mut nanns);
    ACtx { finalized, graphs, main, gnames, nnames, ganns, nanns }
}

fn oob(rng: &mut Rng, len: u64) -> u64 {
    match rng.below(4) {
        0 => len,
        1 => len + 1,
        2 => len + rng.below(1000),
        _ => u64::MAX - rng.below(3),
    }
}

/// one structural mutation of a serialized form (always stays inside the JSON structure and keeps
/// every operation type-correct: all values are i32 scalars, every non-empty graph has two inputs)
pub fn mutate_ser(s: &mut ACtx, rng: &mut Rng) -> Option<&'static str> {
    let ng = s.graphs.len() as u64;
    let gi = rng.below(ng) as usize;
    let nn = s.graphs[gi].nodes.len() as u64;
    let binary: Vec<usize> = (0..nn as usize).filter(|k| s.graphs[gi].nodes[*k].deps.len() == 2).collect();
    let calls: Vec<usize> = (0..nn as usize).filter(|k| s.graphs[gi].nodes[*k].op == OP_CALL).collect();
    Some(match rng.below(30) {
        0 | 1 => {
            let k = *binary.get(rng.below(binary.len().max(1) as u64) as usize)?;
            let which = rng.below(2) as usize;
            let (kind, d) = match rng.below(4) {
                0 => ("dep:self", k as u64),
                1 => ("dep:forward", (k as u64 + 1 + rng.below(nn - k as u64)).min(nn - 1).max(k as u64)),
                2 => ("dep:dangling", oob(rng, nn)),
                _ => ("dep:rewire-earlier", rng.below((k as u64).max(1))),
            };
            s.graphs[gi].nodes[k].deps[which] = d;
            kind
        }
        2 | 3 => {
            let k = *calls.get(rng.below(calls.len().max(1) as u64) as usize)?;
            let (kind, h) = match rng.below(4) {
                0 => ("gdep:self", gi as u64),
                1 => ("gdep:later-or-oob", gi as u64 + 1 + rng.below(3)),
                2 => ("gdep:oob", oob(rng, ng)),
                _ => ("gdep:other-earlier", rng.below((gi as u64).max(1))),
            };
            s.graphs[gi].nodes[k].gdeps[0] = h;
            kind
        }
        4 => {
            s.graphs[gi].output = None;
            "output:none"
        }
        5 => {
            s.graphs[gi].output = Some(oob(rng, nn));
            "output:oob"
        }
        6 => {
            if nn == 0 {
                return None;
            }
            s.graphs[gi].output = Some(rng.below(nn));
            "output:other"
        }
        7 | 8 => {
            s.graphs[gi].finalized = !s.graphs[gi].finalized;
            "graph-finalized:flip"
        }
        9 => {
            s.finalized = !s.finalized;
            "ctx-finalized:flip"
        }
        10 => {
            s.main = None;
            "main:none"
        }
        11 => {
            s.main = Some(oob(rng, ng));
            "main:oob"
        }
        12 => {
            s.main = Some(gi as u64);
            "main:other"
        }
        13 => {
            if s.gnames.is_empty() {
                s.gnames.push((oob(rng, ng), 77));
            } else {
                let i = rng.below(s.gnames.len() as u64) as usize;
                s.gnames[i].0 = oob(rng, ng);
            }
            "gnames:oob"
        }
        14 => {
            let e = *s.gnames.get(rng.below(s.gnames.len().max(1) as u64) as usize)?;
            let e2 = match rng.below(3) {
                0 => e,
                1 => (e.0, 78),
                _ => (rng.below(ng), e.1),
            };
            let at = rng.below(s.gnames.len() as u64 + 1) as usize;
            s.gnames.insert(at, e2);
            "gnames:duplicate"
        }
        15 => {
            s.gnames.push((gi as u64, 79));
            "gnames:add"
        }
        16 | 17 => {
            let k = if rng.chance(1, 2) { (oob(rng, ng), rng.below(3)) } else { (gi as u64, oob(rng, nn)) };
            if s.nnames.is_empty() || rng.chance(1, 2) {
                s.nnames.push((k, 80));
            } else {
                let i = rng.below(s.nnames.len() as u64) as usize;
                s.nnames[i].0 = k;
            }
            "nnames:oob"
        }
        18 | 19 => {
            let e = *s.nnames.get(rng.below(s.nnames.len().max(1) as u64) as usize)?;
            let n2 = s.graphs.get(e.0 .0 as usize).map(|g| g.nodes.len() as u64).unwrap_or(1).max(1);
            let (kind, e2) = match rng.below(4) {
                0 => ("nnames:duplicate-entry", e),
                1 => ("nnames:duplicate-key", (e.0, 81)),
                2 => ("nnames:duplicate-name-same-graph", ((e.0 .0, rng.below(n2)), e.1)),
                _ => ("nnames:same-name-other-graph", ((rng.below(ng), 0), e.1)),
            };
            let at = rng.below(s.nnames.len() as u64 + 1) as usize;
            s.nnames.insert(at, e2);
            kind
        }
        20 | 21 => {
            if s.ganns.is_empty() || rng.chance(1, 2) {
                s.ganns.push((oob(rng, ng), vec![rng.below(3)]));
            } else {
                let i = rng.below(s.ganns.len() as u64) as usize;
                s.ganns[i].0 = oob(rng, ng);
            }
            "ganns:oob"
        }
        22 => {
            let at = rng.below(s.ganns.len() as u64 + 1) as usize;
            let (kind, e) = match rng.below(3) {
                0 => ("ganns:empty-list", (gi as u64, vec![])),
                1 => ("ganns:duplicate-key", (s.ganns.get(rng.below(s.ganns.len().max(1) as u64) as usize)?.0, vec![rng.below(3), rng.below(3)])),
                _ => ("ganns:add", (gi as u64, vec![rng.below(3)])),
            };
            s.ganns.insert(at, e);
            kind
        }
        23 | 24 | 25 => {
            let k = match rng.below(3) {
                0 => (oob(rng, ng), rng.below(3)),
                1 => (gi as u64, oob(rng, nn)),
                _ => (gi as u64, nn),
            };
            if s.nanns.is_empty() || rng.chance(1, 2) {
                let at = rng.below(s.nanns.len() as u64 + 1) as usize;
                s.nanns.insert(at, (k, vec![*rng.pick(&NODE_ANN_CODES)]));
            } else {
                let i = rng.below(s.nanns.len() as u64) as usize;
                s.nanns[i].0 = k;
            }
            "nanns:oob"
        }
        26 => {
            if nn == 0 {
                return None;
            }
            let at = rng.below(s.nanns.len() as u64 + 1) as usize;
            let (kind, e) = match rng.below(3) {
                0 => ("nanns:empty-list", ((gi as u64, rng.below(nn)), vec![])),
                1 => ("nanns:duplicate-key", (s.nanns.get(rng.below(s.nanns.len().max(1) as u64) as usize)?.0, vec![*rng.pick(&NODE_ANN_CODES)])),
                _ => ("nanns:add", ((gi as u64, rng.below(nn)), vec![*rng.pick(&NODE_ANN_CODES), 1])),
            };
            s.nanns.insert(at, e);
            kind
        }
        27 => {
            rng.shuffle(&mut s.gnames);
            rng.shuffle(&mut s.nnames);
            rng.shuffle(&mut s.ganns);
            rng.shuffle(&mut s.nanns);
            "tables:reorder"
        }
        28 => {
            // drop a whole graph: later ids shift
            s.graphs.remove(gi);
            "graph:remove"
        }
        _ => {
            if nn == 0 {
                return None;
            }
            let k = rng.below(nn) as usize;
            s.graphs[gi].nodes.remove(k);
            "node:remove"
        }
    })
}

/// after node/graph removal a mutant may stop being type-correct by construction; keep only
/// mutants where every remaining binary node still has 2 deps and every graph's first two nodes are
/// inputs (or the graph is empty) — otherwise the verdict would depend on type inference
fn type_safe(s: &ACtx) -> bool {
    s.graphs.iter().all(|g| {
        g.nodes.is_empty()
            || (g.nodes.len() >= 2
                && g.nodes[0].op == OP_INPUT
                && g.nodes[1].op == OP_INPUT
                && g.nodes.iter().skip(2).all(|n| n.op != OP_INPUT && n.deps.len() == 2 && (n.op == OP_CALL) == (n.gdeps.len() == 1)))
    })
}

pub fn stream_model(run: &mut Run) {
    let mut rng = run.rng("model");
    let n = run.tier.scale(1500, 12000);
    for _ in 0..n {
        let a = gen_actx(&mut rng);
        let c = match catch(|| build(&a)) {
            Ok(Ok(c)) => c,
            Ok(Err(e)) => {
                fail(run, "C12:harness:build-valid-context", format!("{} : {}", enc(&a), e));
                continue;
            }
            Err(p) => {
                fail(run, "C12:panic:build", format!("{} : {}", enc(&a), p));
                continue;
            }
        };
        let text = match ser_ctx(&c) {
            Ok(t) => t,
            Err(e) => {
                fail(run, "C12:serialize-failed:generated", format!("{} : {}", enc(&a), e));
                continue;
            }
        };
        let payload = match payload_of(&text) {
            Some(p) => p,
            None => {
                fail(run, "C12:envelope-shape", trunc(&text, 300));
                continue;
            }
        };
        let real = match dec_payload(&payload) {
            Some(r) => r,
            None => {
                fail(run, "C12:payload-shape", trunc(&payload.to_string(), 400));
                continue;
            }
        };
        // (b1) model toSer of the abstract context = structure of the real serialization
        run.case(format!("ser {}", enc(&a)), enc(&real), true);
        run.count(&format!("ser:graphs={}", a.graphs.len()));
        if a.finalized {
            run.count("ser:ctx-finalized");
        }
        if to_payload(&real) != payload {
            fail(run, "C12:harness:json-writer", format!("{} vs {}", to_payload(&real), payload));
            continue;
        }
        if let Err(r) = wf_check(&payload) {
            fail(run, "C12:serialized-ill-formed", format!("{} : {}", r, enc(&a)));
        }
        // unmutated recover (identity)
        recover_case(run, &real, "none");
        // (b2) mutants
        for _ in 0..6 {
            let mut m = real.clone();
            let mut kinds = vec![];
            let k = if rng.chance(1, 5) { 2 } else { 1 };
            for _ in 0..k {
                if m.graphs.is_empty() {
                    break;
                }
                if let Some(kind) = mutate_ser(&mut m, &mut rng) {
                    kinds.push(kind);
                }
            }
            if kinds.is_empty() || m == real {
                continue;
            }
            if !type_safe(&m) {
                run.count("mutant:skipped-type-dependent");
                continue;
            }
            recover_case(run, &m, &kinds.join("+"));
        }
    }
}

fn recover_case(run: &mut Run, m: &ACtx, kind: &str) {
    let payload = to_payload(m);
    let text = wrap(&payload);
    let req = format!("recover {}", enc(m));
    let verdict = de_ctx(&text);
    // independent oracle for the verdict (all operations of these contexts type-check)
    match (&verdict, wf_check_mode(&payload, false)) {
        (Ok(Ok(_)), Err(rule)) => fail(run, &format!("C12:accepted-ill-formed-input:{}", rule), format!("mutation {} text={}", kind, trunc(&text, 1500))),
        (Ok(Err(e)), Ok(())) => fail(run, "C12:rejected-well-formed-input", format!("mutation {} error={} text={}", kind, trunc(e, 200), trunc(&text, 1500))),
        _ => {}
    }
    match verdict {
        Err(p) => {
            for k in kind.split('+') {
                run.count(&format!("mutant:{}:PANIC", k));
            }
            fail(run, &panic_sig(&p, Some(&text)), format!("mutation {} at {}: {} ; text={}", kind, last_panic_loc(), p, trunc(&text, 1500)));
        }
        Ok(Err(_)) => {
            for k in kind.split('+') {
                run.count(&format!("mutant:{}:err", k));
            }
            run.case(req, "ERR".into(), true);
        }
        Ok(Ok(c)) => {
            for k in kind.split('+') {
                run.count(&format!("mutant:{}:ok", k));
            }
            let back = ser_ctx(&c).ok().and_then(|t| payload_of(&t));
            match back.as_ref().and_then(dec_payload) {
                Some(r) => {
                    if let Err(rule) = wf_check(back.as_ref().unwrap()) {
                        fail(run, &format!("C12:accepted-ill-formed:{}", rule), format!("mutation {} text={}", kind, trunc(&text, 1500)));
                    }
                    run.case(req, format!("ok {}", enc(&r)), true)
                }
                None => fail(run, "C12:reserialize-failed:mutant", format!("mutation {} text={}", kind, trunc(&text, 1500))),
            }
        }
    }
}
