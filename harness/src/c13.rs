//! C13 — values encode integers faithfully (bytes.rs, data_values.rs array accessors).
//! Streams: native→bytes→array round trip (model + oracle), raw byte decoding, check_type.
use crate::util::*;
use crate::vals::*;
use ciphercore_base::bytes::{vec_u128_from_bytes, vec_u64_from_bytes};
use ciphercore_base::data_types::*;
use ciphercore_base::data_values::Value;

fn native_kinds() -> Vec<(u32, bool)> {
    let mut v = vec![];
    for b in [8u32, 16, 32, 64, 128] {
        v.push((b, false));
        v.push((b, true));
    }
    v
}

/// from_flattened_array through the *native* slice type (so every TryInto/Not instance is hit)
fn from_native(xs: &[Z], bits: u32, signed: bool, st: ScalarType, via64: bool) -> ciphercore_base::errors::Result<Value> {
    macro_rules! go64 {
        ($t:ty) => {{
            let v: Vec<$t> = xs.iter().map(|z| z.as_u128() as $t).collect();
            if via64 {
                Value::from_flattened_array_u64(&v, st)
            } else {
                Value::from_flattened_array(&v, st)
            }
        }};
    }
    match (bits, signed) {
        (8, false) => go64!(u8),
        (8, true) => go64!(i8),
        (16, false) => go64!(u16),
        (16, true) => go64!(i16),
        (32, false) => go64!(u32),
        (32, true) => go64!(i32),
        (64, false) => go64!(u64),
        (64, true) => go64!(i64),
        (128, false) => go64!(u128),
        (128, true) => go64!(i128),
        _ => unreachable!(),
    }
}

pub fn corr(run: &mut Run) {
    corr_bytes(run);
    corr_containers(run);
    corr_constructors(run);
    run.rule = "stream A: native integer slices (10 native types, boundary-biased values) x 11 scalar types, length 0..20, \
                encoded by Value::from_flattened_array(_u64), read back by to_flattened_array_u64/u128 and the typed accessors; \
                B: random byte strings decoded by vec_u64/u128_from_bytes; C: check_type of byte values against array types; \
                D: check_type / zero_of_type on random nested types (depth <= 3) with valid and structurally mutated values and invalid types; \
                S: typed scalar accessors to_u8..to_i128 on random bytes; E: serde_json::to_string of random typed values (all 11 scalar \
                types, boundary-biased elements, ragged bit arrays with stray bits, nested tuples / named tuples / vectors) against the \
                model's rendering, an independent expected text, and from_str + is_equal; F: from_str::<TypedValue> on those texts and on \
                1-2 structural mutations of them (dropped / duplicated / unknown fields, wrong kind or type, out-of-range and huge \
                numbers, ragged arrays, mixed sequences) against the model's ofJ; G: is_equal on byte-flipped copies. \
                Non-trivial: non-empty input; distinct by request text."
        .to_owned();
    run.rule.push_str(" O: zero_of_type / one_of_type of random nested types (every third a ragged bit array) = the element-wise encoding, JSON round trip equal. N: from_ndarray on standard, column-major and axis-permuted layouts: rejected or stored in logical order.");
}

fn corr_bytes(run: &mut Run) {
    run.rule = "stream A: native integer slices (10 native types, boundary-biased values) × 11 scalar types, \
                length 0..20, encoded by Value::from_flattened_array(_u64) and read back by to_flattened_array_u64/u128; \
                stream B: random byte strings decoded by vec_u64/u128_from_bytes; stream C: check_type of byte values \
                against array types. Non-trivial: non-empty input; distinct by request text."
        .to_owned();
    let mut rng = run.rng("A");
    let n_a = run.tier.scale(1500, 20000);
    for _ in 0..n_a {
        let (nb, nsigned) = *rng.pick(&native_kinds());
        let st = *rng.pick(&ALL_ST);
        let n = rng.below(21) as usize;
        let bitlike = st == BIT && rng.chance(4, 5);
        let xs: Vec<Z> = (0..n)
            .map(|_| if bitlike { Z::I(rng.below(2) as i128) } else { gen_native(&mut rng, nb, nsigned) })
            .collect();
        let via64 = rng.chance(1, 3);
        let r = catch(|| from_native(&xs, nb, nsigned, st, via64));
        let req = if via64 {
            format!("tobytes64 {} {} {} {}", st_name(st), nb, nsigned as u8, show_list(&xs))
        } else {
            format!("tobytes {} {}", st_name(st), show_list(&xs))
        };
        run.count(&format!("A:{}:{}", st_name(st), if r.as_ref().map(|r| r.is_ok()).unwrap_or(false) { "ok" } else { "err" }));
        let v = match r {
            Err(p) => {
                run.oracle_fail("C13:panic:from_flattened_array", format!("{} panicked: {}", req, p));
                continue;
            }
            Ok(Err(_)) => {
                run.case(req.clone(), "ERR".into(), n > 0);
                // oracle: rejection is only allowed for BIT with a non-bit element
                let not_bits = st == BIT && xs.iter().any(|z| !matches!(z.norm(), Z::I(0) | Z::I(1)));
                // the u64 constructor documents that it only takes integers that fit in 64 bits
                let too_wide = via64 && nb == 128;
                if !(not_bits || too_wide) {
                    run.oracle_fail("C13:reject:from_flattened_array", format!("{} rejected", req));
                }
                continue;
            }
            Ok(Ok(v)) => v,
        };
        let bytes = bytes_of(&v);
        run.case(req.clone(), show_list(&bytes), n > 0);
        let shape = vec![n as u64];
        let t = array_type(shape.clone(), st);
        // layout oracle
        let want_len = (n as u64 * st_bits(st) as u64 + 7) / 8;
        if bytes.len() as u64 != want_len {
            run.oracle_fail("C13:layout:length", format!("{} gives {} bytes, want {}", req, bytes.len(), want_len));
        }
        if st == BIT && n % 8 != 0 && !bytes.is_empty() && (bytes[bytes.len() - 1] >> (n % 8)) != 0 {
            run.oracle_fail("C13:layout:stray-bits", format!("{} leaves stray bits {:?}", req, bytes));
        }
        if n == 0 {
            // array types must have at least... (shape [0] is not a valid type) — skip read-back
            continue;
        }
        let r128 = catch(|| v.to_flattened_array_u128(t.clone()));
        let r64 = catch(|| v.to_flattened_array_u64(t.clone()));
        match (&r128, &r64) {
            (Ok(r128), Ok(r64)) => {
                run.case(format!("flat128 {} {} {}", st_name(st), show_list(&shape), show_list(&bytes)), show_res(r128), true);
                run.case(format!("flat64 {} {} {}", st_name(st), show_list(&shape), show_list(&bytes)), show_res(r64), true);
                run.oracle_case(&req, true);
                // oracle: same integers modulo 2^w, sign-extended
                match (r128, r64) {
                    (Ok(a), Ok(b)) => {
                        for i in 0..n {
                            let want = xs[i].wrap_to(st);
                            if a[i] != want.as_u128() {
                                run.oracle_fail("C13:roundtrip:u128", format!("{} element {} reads back {} want {}", req, i, a[i], want));
                                break;
                            }
                            if b[i] != want.as_u128() as u64 {
                                run.oracle_fail("C13:roundtrip:u64", format!("{} element {} reads back {} want {} (as u64)", req, i, b[i], want));
                                break;
                            }
                        }
                    }
                    _ => run.oracle_fail("C13:roundtrip:err", format!("{} cannot be read back", req)),
                }
            }
            _ => run.oracle_fail("C13:panic:to_flattened_array", format!("{} read-back panicked", req)),
        }
        // typed accessors
        if st != BIT {
            if let Ok(Ok(a)) = catch(|| v.to_flattened_array_i128(t.clone())) {
                for i in 0..n {
                    if st.is_signed() && Z::I(a[i]) != xs[i].wrap_to(st).norm() {
                        run.oracle_fail("C13:roundtrip:i128", format!("{} element {} as i128 {} want {}", req, i, a[i], xs[i].wrap_to(st)));
                        break;
                    }
                }
            }
        }
    }
    // stream B: raw bytes
    let mut rng = run.rng("B");
    let n_b = run.tier.scale(800, 10000);
    for _ in 0..n_b {
        let st = *rng.pick(&ALL_ST);
        let bl = ((st_bits(st) + 7) / 8) as u64;
        let len = if rng.chance(4, 5) { bl * rng.below(6) } else { rng.below(40) };
        let bytes: Vec<u8> = (0..len)
            .map(|_| match rng.below(4) {
                0 => 0xff,
                1 => 0x80,
                2 => 0,
                _ => rng.next() as u8,
            })
            .collect();
        let r1 = catch(|| vec_u128_from_bytes(&bytes, st));
        let r2 = catch(|| vec_u64_from_bytes(&bytes, st));
        match (r1, r2) {
            (Ok(a), Ok(b)) => {
                run.count(&format!("B:{}:{}", st_name(st), if a.is_ok() { "ok" } else { "err" }));
                run.case(format!("frombytes128 {} {}", st_name(st), show_list(&bytes)), show_res(&a), len > 0);
                run.case(format!("frombytes64 {} {}", st_name(st), show_list(&bytes)), show_res(&b), len > 0);
            }
            _ => run.oracle_fail("C13:panic:from_bytes", format!("vec_from_bytes {} {:?} panicked", st_name(st), bytes)),
        }
    }
    // stream C: check_type
    let mut rng = run.rng("C");
    let n_c = run.tier.scale(500, 5000);
    for _ in 0..n_c {
        let st = *rng.pick(&ALL_ST);
        let shape = gen_shape(&mut rng, 3, 6, 60);
        let n: u64 = shape.iter().product();
        let exact = (n * st_bits(st) as u64 + 7) / 8;
        let len = match rng.below(4) {
            0 => exact,
            1 => exact + 1,
            2 => exact.saturating_sub(1),
            _ => rng.below(2 * exact + 2),
        };
        let v = Value::from_bytes(vec![0xa5; len as usize]);
        match catch(|| v.check_type(array_type(shape.clone(), st))) {
            Ok(Ok(b)) => {
                run.count(&format!("C:{}", b));
                run.case(format!("check {} {} {}", st_name(st), show_list(&shape), len), (if b { "1" } else { "0" }).into(), true);
                if b != (len == exact) {
                    run.oracle_fail("C13:check_type", format!("check_type len {} for {}{:?} says {}", len, st_name(st), shape, b));
                }
            }
            _ => run.oracle_fail("C13:panic:check_type", format!("check_type {} {:?} {}", st_name(st), shape, len)),
        }
    }
}

// ---------------------------------------------------------------------------------------------
// containers: check_type, zero_of_type, scalar accessors, JSON form of TypedValue
// ---------------------------------------------------------------------------------------------
use ciphercore_base::typed_value::TypedValue;
use ciphercore_base::typed_value_operations::TypedValueOperations;

const NAMES: [&str; 9] = ["a", "b1", "key_2", "x", "name", "value", "kind", "type", "Zz"];

fn gen_type(rng: &mut Rng, depth: u32) -> Type {
    let k = if depth == 0 { rng.below(2) } else { rng.below(7) };
    match k {
        0 => scalar_type(*rng.pick(&ALL_ST)),
        1 | 5 => array_type(gen_shape(rng, 3, 4, 24), *rng.pick(&ALL_ST)),
        2 => {
            let n = if rng.chance(1, 12) { 0 } else { 1 + rng.below(3) };
            vector_type(n, gen_type(rng, depth - 1))
        }
        3 | 6 => {
            let k = if rng.chance(1, 10) { 0 } else { 1 + rng.below(3) };
            tuple_type((0..k).map(|_| gen_type(rng, depth - 1)).collect())
        }
        _ => {
            let k = if rng.chance(1, 14) { 0 } else { 1 + rng.below(3) } as usize;
            let mut names: Vec<&str> = NAMES.to_vec();
            rng.shuffle(&mut names);
            named_tuple_type((0..k).map(|i| (names[i].to_owned(), gen_type(rng, depth - 1))).collect())
        }
    }
}

fn enc_type(t: &Type) -> String {
    match t {
        Type::Scalar(st) => format!("s:{}", st_name(*st)),
        Type::Array(sh, st) => format!("a:{}:{}", st_name(*st), show_list(sh)),
        Type::Vector(n, e) => format!("v:{} {}", n, enc_type(e)),
        Type::Tuple(ts) => {
            let mut s = format!("t:{}", ts.len());
            for e in ts {
                s.push(' ');
                s.push_str(&enc_type(e));
            }
            s
        }
        Type::NamedTuple(fs) => {
            let mut s = format!("n:{}", fs.len());
            for (n, e) in fs {
                s.push_str(&format!(" N{} {}", n, enc_type(e)));
            }
            s
        }
    }
}

fn enc_value(v: &Value) -> String {
    match v.to_vector() {
        Err(_) => format!("b:{}", show_list(&bytes_of(v))),
        Ok(ch) => {
            let mut s = format!("l:{}", ch.len());
            for c in &ch {
                s.push(' ');
                s.push_str(&enc_value(c));
            }
            s
        }
    }
}

/// expected JSON text of an array, written from the integers (independent of the serializer)
fn exp_array(xs: &[Z], shape: &[u64]) -> String {
    if shape.len() <= 1 {
        return format!("[{}]", xs.iter().map(|z| z.to_string()).collect::<Vec<_>>().join(","));
    }
    let inner: usize = shape[1..].iter().product::<u64>() as usize;
    let parts: Vec<String> = (0..shape[0] as usize).map(|i| exp_array(&xs[i * inner..(i + 1) * inner], &shape[1..])).collect();
    format!("[{}]", parts.join(","))
}

/// a value of type `t` built from integers (or, for bits, sometimes from raw bytes with stray bits)
/// and the JSON text the property expects for it
fn gen_value(rng: &mut Rng, t: &Type, run: &mut Run) -> (Value, String) {
    match t {
        Type::Scalar(st) | Type::Array(_, st) => {
            let shape: Vec<u64> = if let Type::Array(sh, _) = t { sh.clone() } else { vec![1] };
            let n: u64 = shape.iter().product();
            let (xs, v) = if *st == BIT && rng.chance(1, 3) {
                let bytes: Vec<u8> = (0..(n + 7) / 8).map(|_| rng.next() as u8).collect();
                let xs: Vec<Z> = (0..n).map(|i| Z::I(((bytes[(i / 8) as usize] >> (i % 8)) & 1) as i128)).collect();
                run.count("E:raw-bits");
                (xs, Value::from_bytes(bytes))
            } else {
                gen_array_value(rng, &shape, *st)
            };
            let xs: Vec<Z> = xs.iter().map(|z| z.wrap_to(*st)).collect();
            let j = if t.is_scalar() {
                format!("{{\"kind\":\"scalar\",\"type\":\"{}\",\"value\":{}}}", st_name(*st), xs[0])
            } else {
                format!("{{\"kind\":\"array\",\"type\":\"{}\",\"value\":{}}}", st_name(*st), exp_array(&xs, &shape))
            };
            (v, j)
        }
        Type::Vector(n, e) => {
            let (vs, js): (Vec<Value>, Vec<String>) = (0..*n).map(|_| gen_value(rng, e, run)).unzip();
            (Value::from_vector(vs), format!("{{\"kind\":\"vector\",\"value\":[{}]}}", js.join(",")))
        }
        Type::Tuple(ts) => {
            let (vs, js): (Vec<Value>, Vec<String>) = ts.iter().map(|e| gen_value(rng, e, run)).unzip();
            (Value::from_vector(vs), format!("{{\"kind\":\"tuple\",\"value\":[{}]}}", js.join(",")))
        }
        Type::NamedTuple(fs) => {
            let mut vs = vec![];
            let mut js = vec![];
            for (name, e) in fs {
                let (v, j) = gen_value(rng, e, run);
                vs.push(v);
                js.push(format!("{{\"name\":\"{}\",\"value\":{}}}", name, j));
            }
            (Value::from_vector(vs), format!("{{\"kind\":\"named tuple\",\"value\":[{}]}}", js.join(",")))
        }
    }
}

/// naive layout predicate of the property (byte length / nesting), independent of `check_type`
fn layout(v: &Value, t: &Type) -> bool {
    match t {
        Type::Scalar(_) | Type::Array(_, _) => {
            let n: u64 = if let Type::Array(sh, _) = t { sh.iter().product() } else { 1 };
            let bits = n * st_bits(t.get_scalar_type()) as u64;
            match v.to_vector() {
                Err(_) => {
                    let len = bytes_of(v).len() as u64;
                    len * 8 >= bits && len * 8 < bits + 8
                }
                Ok(_) => false,
            }
        }
        _ => {
            let ts: Vec<Type> = match t {
                Type::Vector(n, e) => (0..*n).map(|_| (**e).clone()).collect(),
                Type::Tuple(ts) => ts.iter().map(|e| (**e).clone()).collect(),
                Type::NamedTuple(fs) => fs.iter().map(|(_, e)| (**e).clone()).collect(),
                _ => unreachable!(),
            };
            match v.to_vector() {
                Ok(ch) => ch.len() == ts.len() && ch.iter().zip(ts.iter()).all(|(c, e)| layout(c, e)),
                Err(_) => false,
            }
        }
    }
}

fn count_nodes(v: &Value) -> u64 {
    match v.to_vector() {
        Ok(ch) => 1 + ch.iter().map(count_nodes).sum::<u64>(),
        Err(_) => 1,
    }
}

/// structural mutation of the `idx`-th node (pre-order) of a value
fn mutate_value(v: &Value, idx: &mut i64, rng: &mut Rng) -> Value {
    let here = *idx == 0;
    *idx -= 1;
    match v.to_vector() {
        Err(_) => {
            let mut b = bytes_of(v);
            if here {
                match rng.below(4) {
                    0 => b.push(7),
                    1 => {
                        b.pop();
                    }
                    2 => return Value::from_vector(vec![Value::from_bytes(b)]),
                    _ => {
                        b.extend_from_slice(&[0; 8]);
                    }
                }
            }
            Value::from_bytes(b)
        }
        Ok(ch) => {
            let mut out: Vec<Value> = ch.iter().map(|c| mutate_value(c, idx, rng)).collect();
            if here {
                match rng.below(4) {
                    0 => out.push(Value::from_bytes(vec![0])),
                    1 => {
                        out.pop();
                    }
                    2 => return Value::from_bytes(vec![0; out.len()]),
                    _ => out.reverse(),
                }
            }
            Value::from_vector(out)
        }
    }
}

/// flip one byte of the `idx`-th leaf; `low_bit` flips bit 0, otherwise the top bit
fn flip_leaf(v: &Value, idx: &mut i64, top: bool) -> Value {
    match v.to_vector() {
        Err(_) => {
            let mut b = bytes_of(v);
            if *idx == 0 && !b.is_empty() {
                let l = b.len() - 1;
                b[l] ^= if top { 0x80 } else { 1 };
            }
            *idx -= 1;
            Value::from_bytes(b)
        }
        Ok(ch) => Value::from_vector(ch.iter().map(|c| flip_leaf(c, idx, top)).collect()),
    }
}

fn count_leaves(v: &Value) -> u64 {
    match v.to_vector() {
        Ok(ch) => ch.iter().map(count_leaves).sum::<u64>(),
        Err(_) => 1,
    }
}

fn has_empty_named(t: &Type) -> bool {
    match t {
        Type::Scalar(_) | Type::Array(_, _) => false,
        Type::Vector(n, e) => *n > 0 && has_empty_named(e),
        Type::Tuple(ts) => ts.iter().any(|e| has_empty_named(e)),
        Type::NamedTuple(fs) => fs.is_empty() || fs.iter().any(|(_, e)| has_empty_named(e)),
    }
}

/// does the type contain a shape the JSON form cannot express (documented findings)?
fn json_blind_spot(t: &Type) -> Option<&'static str> {
    if has_empty_named(t) {
        return Some("empty-named-tuple");
    }
    match t {
        Type::Scalar(_) | Type::Array(_, _) => None,
        Type::Vector(n, e) => {
            if *n == 0 && **e != tuple_type(vec![]) {
                Some("empty-vector")
            } else if *n == 0 {
                None
            } else {
                json_blind_spot(e)
            }
        }
        Type::Tuple(ts) => ts.iter().find_map(|e| json_blind_spot(e)),
        Type::NamedTuple(fs) => {
            if fs.is_empty() {
                Some("empty-named-tuple")
            } else {
                fs.iter().find_map(|(_, e)| json_blind_spot(e))
            }
        }
    }
}

/// the type with the element type of every empty vector replaced by `()` — what the JSON form keeps of it
fn erase_empty_vectors(t: &Type) -> Type {
    match t {
        Type::Scalar(_) | Type::Array(_, _) => t.clone(),
        Type::Vector(0, _) => vector_type(0, tuple_type(vec![])),
        Type::Vector(n, e) => vector_type(*n, erase_empty_vectors(e)),
        Type::Tuple(ts) => tuple_type(ts.iter().map(|e| erase_empty_vectors(e)).collect()),
        Type::NamedTuple(fs) => named_tuple_type(fs.iter().map(|(n, e)| (n.clone(), erase_empty_vectors(e))).collect()),
    }
}

#[derive(Clone, Debug)]
enum Jv {
    Num(String),
    Str(String),
    Bool(bool),
    Null,
    Arr(Vec<Jv>),
    Obj(Vec<(String, Jv)>),
}

impl Jv {
    fn from_serde(v: &serde_json::Value) -> Jv {
        match v {
            serde_json::Value::Null => Jv::Null,
            serde_json::Value::Bool(b) => Jv::Bool(*b),
            serde_json::Value::Number(n) => Jv::Num(n.to_string()),
            serde_json::Value::String(s) => Jv::Str(s.clone()),
            serde_json::Value::Array(a) => Jv::Arr(a.iter().map(Jv::from_serde).collect()),
            serde_json::Value::Object(m) => Jv::Obj(m.iter().map(|(k, v)| (k.clone(), Jv::from_serde(v))).collect()),
        }
    }
    fn text(&self) -> String {
        match self {
            Jv::Num(s) => s.clone(),
            Jv::Str(s) => format!("\"{}\"", s),
            Jv::Bool(b) => b.to_string(),
            Jv::Null => "null".into(),
            Jv::Arr(a) => format!("[{}]", a.iter().map(|x| x.text()).collect::<Vec<_>>().join(",")),
            Jv::Obj(m) => format!("{{{}}}", m.iter().map(|(k, v)| format!("\"{}\":{}", k, v.text())).collect::<Vec<_>>().join(",")),
        }
    }
    fn tokens(&self, out: &mut Vec<String>) {
        match self {
            Jv::Num(s) => out.push(format!("#{}", s)),
            Jv::Str(s) => out.push(format!("\"{}", s.replace(' ', "~"))),
            Jv::Bool(b) => out.push(if *b { "T".into() } else { "F".into() }),
            Jv::Null => out.push("Z".into()),
            Jv::Arr(a) => {
                out.push(format!("[{}", a.len()));
                for x in a {
                    x.tokens(out);
                }
            }
            Jv::Obj(m) => {
                out.push(format!("{{{}", m.len()));
                for (k, v) in m {
                    out.push(format!("\"{}", k.replace(' ', "~")));
                    v.tokens(out);
                }
            }
        }
    }
    fn size(&self) -> u64 {
        match self {
            Jv::Arr(a) => 1 + a.iter().map(|x| x.size()).sum::<u64>(),
            Jv::Obj(m) => 1 + m.iter().map(|(_, x)| x.size()).sum::<u64>(),
            _ => 1,
        }
    }
    /// apply `f` to the `idx`-th node in pre-order
    fn at(&mut self, idx: &mut i64, f: &mut dyn FnMut(&mut Jv)) {
        if *idx == 0 {
            *idx -= 1;
            f(self);
            return;
        }
        *idx -= 1;
        match self {
            Jv::Arr(a) => {
                for x in a.iter_mut() {
                    if *idx < 0 {
                        return;
                    }
                    x.at(idx, f);
                }
            }
            Jv::Obj(m) => {
                for (_, x) in m.iter_mut() {
                    if *idx < 0 {
                        return;
                    }
                    x.at(idx, f);
                }
            }
            _ => {}
        }
    }
}

const KINDS: [&str; 6] = ["scalar", "array", "vector", "tuple", "named tuple", "bogus"];
const NUMS: [&str; 14] = [
    "0",
    "1",
    "-1",
    "2",
    "255",
    "-129",
    "18446744073709551615",
    "18446744073709551616",
    "-9223372036854775808",
    "-9223372036854775809",
    "340282366920938463463374607431768211455",
    "340282366920938463463374607431768211456",
    "-170141183460469231731687303715884105728",
    "-170141183460469231731687303715884105729",
];

fn mutate_json(j: &mut Jv, rng: &mut Rng, run: &mut Run) {
    let n = j.size();
    let mut idx = rng.below(n) as i64;
    let r = rng.next();
    let r2 = rng.next();
    let mut what = "none";
    j.at(&mut idx, &mut |node: &mut Jv| {
        let r2u = r2 as usize;
        match node {
            Jv::Obj(m) => match r % 7 {
                0 if !m.is_empty() => {
                    m.remove(r2u % m.len());
                    what = "drop-field";
                }
                1 if !m.is_empty() => {
                    let e = m[r2u % m.len()].clone();
                    m.push(e);
                    what = "dup-field";
                }
                2 => {
                    m.push(("extra".into(), Jv::Num("1".into())));
                    what = "unknown-field";
                }
                3 => {
                    m.insert(0, ("name".into(), Jv::Str("nm".into())));
                    what = "add-name";
                }
                4 => {
                    m.reverse();
                    what = "reorder-fields";
                }
                5 => {
                    let inner = node.clone();
                    *node = Jv::Arr(vec![inner]);
                    what = "wrap-in-array";
                }
                _ => {
                    for (k, v) in m.iter_mut() {
                        if k == "kind" {
                            *v = Jv::Str(KINDS[r2u % KINDS.len()].into());
                            what = "change-kind";
                        }
                    }
                }
            },
            Jv::Arr(a) => match r % 6 {
                0 if !a.is_empty() => {
                    a.remove(r2u % a.len());
                    what = "drop-element";
                }
                1 if !a.is_empty() => {
                    let e = a[r2u % a.len()].clone();
                    a.push(e);
                    what = "dup-element";
                }
                2 => {
                    a.push(Jv::Num(NUMS[r2u % NUMS.len()].into()));
                    what = "push-number";
                }
                3 => {
                    a.clear();
                    what = "empty-array";
                }
                4 => {
                    a.push(Jv::Arr(vec![]));
                    what = "push-empty-array";
                }
                _ => {
                    let inner = node.clone();
                    *node = Jv::Arr(vec![inner]);
                    what = "wrap-in-array";
                }
            },
            Jv::Num(_) => match r % 5 {
                0 => {
                    *node = Jv::Bool(r2 % 2 == 0);
                    what = "number-to-bool";
                }
                1 => {
                    *node = Jv::Null;
                    what = "number-to-null";
                }
                2 => {
                    *node = Jv::Str("7".into());
                    what = "number-to-string";
                }
                3 => {
                    let inner = node.clone();
                    *node = Jv::Arr(vec![inner]);
                    what = "wrap-in-array";
                }
                _ => {
                    *node = Jv::Num(NUMS[r2u % NUMS.len()].into());
                    what = "change-number";
                }
            },
            Jv::Str(s) => match r % 3 {
                0 => {
                    *s = st_name(ALL_ST[r2u % 11]).into();
                    what = "string-to-type";
                }
                1 => {
                    *s = KINDS[r2u % KINDS.len()].into();
                    what = "string-to-kind";
                }
                _ => {
                    *node = Jv::Num("3".into());
                    what = "string-to-number";
                }
            },
            _ => {}
        }
    });
    run.count(&format!("F:mut:{}", what));
}

fn tv_answer(r: &std::result::Result<TypedValue, serde_json::Error>) -> String {
    match r {
        Ok(tv) => format!("{} {}", enc_type(&tv.t), enc_value(&tv.value)),
        Err(_) => "ERR".into(),
    }
}

fn corr_containers(run: &mut Run) {
    // ---- stream D: check_type / zero_of_type ----
    let mut rng = run.rng("D");
    for i in 0..run.tier.scale(1500, 15000) {
        let mut t = gen_type(&mut rng, 3);
        let mut invalid = false;
        if i % 9 == 0 {
            // invalid types: empty shape, zero dimension, overflowing shape, duplicate names
            t = match rng.below(5) {
                0 => array_type(vec![], *rng.pick(&ALL_ST)),
                1 => array_type(vec![2, 0, 3], *rng.pick(&ALL_ST)),
                2 => array_type(vec![1 << 32, 1 << 32], BIT),
                3 => named_tuple_type(vec![("a".into(), scalar_type(BIT)), ("a".into(), scalar_type(UINT8))]),
                _ => tuple_type(vec![t.clone(), vector_type(2, array_type(vec![0], INT32))]),
            };
            invalid = true;
        }
        let v = if invalid {
            Value::from_vector(vec![Value::from_bytes(vec![0]), Value::from_bytes(vec![0])])
        } else {
            let (v, _) = gen_value(&mut rng, &t, run);
            let zero = catch(|| Value::zero_of_type(t.clone()));
            match zero {
                Ok(z) => {
                    run.case(format!("zero {}", enc_type(&t)), enc_value(&z), true);
                    if !layout(&z, &t) {
                        run.oracle_fail("C13:zero_of_type:layout", format!("zero_of_type({}) = {}", enc_type(&t), enc_value(&z)));
                    }
                }
                Err(p) => run.oracle_fail("C13:panic:zero_of_type", format!("{} {}", enc_type(&t), p)),
            }
            if rng.chance(1, 2) {
                v
            } else {
                let mut idx = rng.below(count_nodes(&v)) as i64;
                mutate_value(&v, &mut idx, &mut rng)
            }
        };
        let req = format!("checktv {} {}", enc_type(&t), enc_value(&v));
        match catch(|| v.check_type(t.clone())) {
            Ok(r) => {
                let ans = match &r {
                    Ok(true) => "1",
                    Ok(false) => "0",
                    Err(_) => "ERR",
                };
                run.count(&format!("D:{}", ans));
                run.case(req.clone(), ans.into(), true);
                run.oracle_case(&req, true);
                let want = if invalid { "ERR" } else if layout(&v, &t) { "1" } else { "0" };
                if ans != want {
                    run.oracle_fail("C13:check_type:nested", format!("{} says {} want {}", req, ans, want));
                }
            }
            Err(p) => run.oracle_fail("C13:panic:check_type", format!("{} {}", req, p)),
        }
    }
    // ---- stream S: typed scalar accessors ----
    let mut rng = run.rng("S");
    for _ in 0..run.tier.scale(1500, 15000) {
        let st = *rng.pick(&ALL_ST);
        let bl = ((st_bits(st) + 7) / 8) as u64;
        let len = if rng.chance(9, 10) { bl } else { rng.below(3) * bl + rng.below(2) };
        let bytes: Vec<u8> = (0..len)
            .map(|_| match rng.below(4) {
                0 => 0xff,
                1 => 0x80,
                2 => 0,
                _ => rng.next() as u8,
            })
            .collect();
        let (nb, ns) = *rng.pick(&native_kinds());
        let v = Value::from_bytes(bytes.clone());
        let r: std::result::Result<ciphercore_base::errors::Result<String>, String> = catch(|| {
            Ok(match (nb, ns) {
                (8, false) => v.to_u8(st)?.to_string(),
                (8, true) => v.to_i8(st)?.to_string(),
                (16, false) => v.to_u16(st)?.to_string(),
                (16, true) => v.to_i16(st)?.to_string(),
                (32, false) => v.to_u32(st)?.to_string(),
                (32, true) => v.to_i32(st)?.to_string(),
                (64, false) => v.to_u64(st)?.to_string(),
                (64, true) => v.to_i64(st)?.to_string(),
                (128, false) => v.to_u128(st)?.to_string(),
                _ => v.to_i128(st)?.to_string(),
            })
        });
        let req = format!("scalar {} {} {} {}", st_name(st), nb, ns as u8, show_list(&bytes));
        match r {
            Ok(r) => {
                let ans = r.unwrap_or_else(|_| "ERR".into());
                run.count(&format!("S:{}:{}", st_name(st), if ans == "ERR" { "err" } else { "ok" }));
                run.case(req.clone(), ans.clone(), len > 0);
                if len == bl {
                    // oracle: the stored integer, sign-extended, wrapped to the native type
                    run.oracle_case(&req, true);
                    let mut raw: u128 = 0;
                    for (i, b) in bytes.iter().enumerate() {
                        raw |= (*b as u128) << (8 * i);
                    }
                    let x = if st == BIT { Z::I((raw & 1) as i128) } else { Z::U(raw).wrap_to(st) };
                    let m = x.residue(nb);
                    let want = if ns && nb < 128 && m >> (nb - 1) == 1 {
                        Z::I(m as i128 - (1i128 << nb))
                    } else if ns {
                        Z::I(m as i128)
                    } else {
                        Z::U(m)
                    };
                    if ans != want.to_string() {
                        run.oracle_fail("C13:accessor:scalar", format!("{} gives {} want {}", req, ans, want));
                    }
                }
            }
            Err(p) => run.oracle_fail("C13:panic:scalar-accessor", format!("{} {}", req, p)),
        }
    }
    // ---- streams E, F, G: JSON ----
    let mut rng = run.rng("E");
    for _ in 0..run.tier.scale(1500, 15000) {
        let t = gen_type(&mut rng, 3);
        let (v, want_text) = gen_value(&mut rng, &t, run);
        let tv = match catch(|| TypedValue::new(t.clone(), v.clone())) {
            Ok(Ok(tv)) => tv,
            other => {
                run.oracle_fail("C13:typed-value:new", format!("{} {} rejected: {:?}", enc_type(&t), enc_value(&v), other.map(|r| r.is_ok())));
                continue;
            }
        };
        let req = format!("tojson {} {}", enc_type(&t), enc_value(&v));
        let text = match catch(|| serde_json::to_string(&tv)) {
            Ok(Ok(s)) => s,
            Ok(Err(_)) => {
                run.case(req.clone(), "ERR".into(), true);
                run.oracle_fail("C13:json:serialize", format!("{} cannot be serialized", req));
                continue;
            }
            Err(p) => {
                run.oracle_fail("C13:panic:serialize", format!("{} {}", req, p));
                continue;
            }
        };
        run.count(&format!("E:kind:{}", match &t { Type::Scalar(_) => "scalar", Type::Array(_, _) => "array", Type::Vector(_, _) => "vector", Type::Tuple(_) => "tuple", Type::NamedTuple(_) => "named" }));
        run.case(req.clone(), text.clone(), true);
        run.oracle_case(&req, true);
        // oracle 1: the text is what the property expects, written from the integers
        if text != want_text {
            run.oracle_fail("C13:json:text", format!("{} serializes to {} want {}", req, text, want_text));
        }
        // oracle 2: parses back to an equal typed value
        let back = catch(|| serde_json::from_str::<TypedValue>(&text));
        let blind = json_blind_spot(&t);
        match &back {
            Ok(Ok(tv2)) => match catch(|| tv.is_equal(tv2)) {
                Ok(Ok(true)) => {
                    if blind.is_some() {
                        run.count("E:blind-spot-but-equal");
                    }
                }
                other => {
                    // the known loss of the element type of empty vectors is reported under its own signature only
                    // when nothing else differs
                    let only_erased = blind == Some("empty-vector")
                        && tv2.t == erase_empty_vectors(&t)
                        && matches!(
                            catch(|| TypedValue::new(tv2.t.clone(), v.clone()).and_then(|e| e.is_equal(tv2))),
                            Ok(Ok(true))
                        );
                    let sig = if only_erased {
                        "C13:json:roundtrip:empty-vector".to_owned()
                    } else {
                        "C13:json:roundtrip:not-equal".to_owned()
                    };
                    run.oracle_fail(&sig, format!("{} -> {} parses back to {} (is_equal: {:?})", req, text, tv_answer(&Ok(tv2.clone())), other));
                }
            },
            Ok(Err(e)) => {
                let sig = if blind == Some("empty-named-tuple") && e.to_string().contains("named tuple") {
                    "C13:json:roundtrip:empty-named-tuple".to_owned()
                } else {
                    "C13:json:roundtrip:rejected".to_owned()
                };
                run.oracle_fail(&sig, format!("{} -> {} does not parse back: {}", req, text, e));
            }
            Err(p) => run.oracle_fail("C13:panic:deserialize", format!("{} {}", text, p)),
        }
        // stream F: deserializer against the model, on the text and on mutations of it
        let generic: serde_json::Value = match serde_json::from_str(&text) {
            Ok(g) => g,
            Err(_) => {
                run.oracle_fail("C13:json:not-json", format!("{} -> {}", req, text));
                continue;
            }
        };
        let mut j = Jv::from_serde(&generic);
        let mutated = rng.chance(3, 5);
        if mutated {
            mutate_json(&mut j, &mut rng, run);
            if rng.chance(1, 4) {
                mutate_json(&mut j, &mut rng, run);
            }
        }
        let jt = j.text();
        let mut toks = vec![];
        j.tokens(&mut toks);
        match catch(|| serde_json::from_str::<TypedValue>(&jt)) {
            Ok(r) => {
                let ans = tv_answer(&r);
                run.count(&format!("F:{}:{}", if mutated { "mutated" } else { "plain" }, if r.is_ok() { "ok" } else { "err" }));
                run.case(format!("ofjson {}", toks.join(" ")), ans, true);
            }
            Err(p) => run.oracle_fail("C13:panic:deserialize", format!("{} {}", jt, p)),
        }
        // stream G: is_equal on a copy with one flipped bit (stray bits of ragged bit arrays must not matter)
        if let Ok(Ok(_)) = &back {
            let leaves = count_leaves(&v);
            if leaves > 0 {
                let mut idx = rng.below(leaves) as i64;
                let top = rng.chance(1, 2);
                let w = flip_leaf(&v, &mut idx, top);
                if let Ok(Ok(tw)) = catch(|| TypedValue::new(t.clone(), w.clone())) {
                    if let Ok(Ok(b)) = catch(|| tv.is_equal(&tw)) {
                        run.count(&format!("G:is_equal:{}", b));
                        run.case(format!("iseq {} {} {}", enc_type(&t), enc_value(&v), enc_value(&w)), (if b { "1" } else { "0" }).into(), true);
                    }
                }
            }
        }
    }
}


/// the value of type `t` all of whose elements are `x` (0 or 1), assembled leaf by leaf with
/// `from_flattened_array` / `from_scalar` (tied to the model by stream A)
fn filled(t: &Type, x: u64) -> ciphercore_base::errors::Result<Value> {
    match t {
        Type::Scalar(st) => Value::from_scalar(x, *st),
        Type::Array(shape, st) => {
            let n: u64 = shape.iter().product();
            Value::from_flattened_array(&vec![x; n as usize], *st)
        }
        Type::Tuple(ts) => Ok(Value::from_vector(ts.iter().map(|t| filled(t, x)).collect::<ciphercore_base::errors::Result<Vec<_>>>()?)),
        Type::Vector(n, t) => Ok(Value::from_vector((0..*n).map(|_| filled(t, x)).collect::<ciphercore_base::errors::Result<Vec<_>>>()?)),
        Type::NamedTuple(ts) => Ok(Value::from_vector(ts.iter().map(|(_, t)| filled(t, x)).collect::<ciphercore_base::errors::Result<Vec<_>>>()?)),
    }
}

/// streams O and N: the other constructors of values.
/// O: `Value::zero_of_type` / `Value::one_of_type` (what Zeros / Ones evaluate to) on random nested types
///    must be THE encoding of all-zero / all-one elements — bit arrays without stray bits — and survive the
///    JSON round trip as an equal typed value.
/// N: `Value::from_ndarray` / `TypedValue::from_ndarray` on arrays in standard, column-major and
///    axis-permuted memory layouts: either rejected, or the elements in LOGICAL (row-major) order.
fn corr_constructors(run: &mut Run) {
    let mut rng = run.rng("constructors");
    let n_o = run.tier.scale(400, 4000);
    for it in 0..n_o {
        let depth = rng.below(3) as u32;
        let t = if it % 3 == 0 {
            // ragged bit arrays
            let shape: Vec<u64> = match rng.below(3) { 0 => vec![1 + rng.below(20)], 1 => vec![1 + rng.below(5), 1 + rng.below(5)], _ => vec![1 + rng.below(3), 1 + rng.below(3), 1 + rng.below(5)] };
            array_type(shape, BIT)
        } else {
            gen_type(&mut rng, depth)
        };
        for (name, x) in [("zero", 0u64), ("one", 1u64)] {
            let tt = t.clone();
            let r = catch(move || -> ciphercore_base::errors::Result<Option<String>> {
                let got = if x == 0 { Value::zero_of_type(tt.clone()) } else { Value::one_of_type(tt.clone())? };
                let want = filled(&tt, x)?;
                if !got.check_type(tt.clone())? {
                    return Ok(Some("check_type rejects it".into()));
                }
                if got != want {
                    return Ok(Some(format!("encoding {} differs from the element-wise encoding {}", enc_value(&got), enc_value(&want))));
                }
                let tv = TypedValue::new(tt.clone(), got)?;
                let js = serde_json::to_string(&tv).map_err(|e| ciphercore_base::runtime_error!("{}", e))?;
                let back: TypedValue = serde_json::from_str(&js).map_err(|e| ciphercore_base::runtime_error!("{}", e))?;
                if back != tv {
                    return Ok(Some(format!("JSON round trip gives an unequal typed value ({})", js.chars().take(120).collect::<String>())));
                }
                Ok(None)
            });
            let descr = format!("{}_of_type {}", name, enc_type(&t));
            run.oracle_case(&descr, true);
            run.count(&format!("O:{}", name));
            match r {
                Ok(Ok(None)) => {}
                Ok(Ok(Some(why))) => {
                    // the JSON blind spots of the format (known findings) are not this stream's business
                    if json_blind_spot(&t).is_some() && why.starts_with("JSON") {
                        run.count("O:json-blind-spot");
                    } else {
                        run.oracle_fail(&format!("C13:{}-of-type", name), format!("{} : {}", descr, why));
                    }
                }
                Ok(Err(e)) => {
                    if json_blind_spot(&t).is_some() {
                        run.count("O:json-blind-spot");
                    } else {
                        run.count(&format!("O:err:{}", trunc(&format!("{}", e), 40)));
                    }
                }
                Err(p) => run.oracle_fail("C13:panic:of-type", format!("{} : {}", descr, p)),
            }
        }
    }
    let n_n = run.tier.scale(300, 3000);
    for _ in 0..n_n {
        let rank = 1 + rng.below(3) as usize;
        let shape: Vec<usize> = (0..rank).map(|_| 1 + rng.below(4) as usize).collect();
        let n: usize = shape.iter().product();
        let st = *rng.pick(&[BIT, UINT8, INT8, UINT16, INT32, UINT32, INT64, UINT64]);
        let bits = scalar_size_in_bits(st);
        let data: Vec<u64> = (0..n).map(|_| if bits >= 64 { rng.next() } else { rng.next() % (1u64 << bits) }).collect();
        let std_arr = ndarray::ArrayD::from_shape_vec(ndarray::IxDyn(&shape), data.clone()).unwrap();
        let layout_kind = rng.below(3);
        // the same LOGICAL array in another memory layout
        let arr: ndarray::ArrayD<u64> = match layout_kind {
            0 => std_arr.clone(),
            1 => {
                // column-major copy
                let mut f = ndarray::ArrayD::<u64>::zeros(ndarray::IxDyn(&shape.iter().rev().cloned().collect::<Vec<_>>())).reversed_axes();
                f.assign(&std_arr);
                f
            }
            _ => {
                // axes permuted (rotated) in memory
                let mut perm: Vec<usize> = (0..rank).collect();
                perm.rotate_left(1);
                let pshape: Vec<usize> = perm.iter().map(|i| shape[*i]).collect();
                let mut inv = vec![0; rank];
                for (i, p) in perm.iter().enumerate() {
                    inv[*p] = i;
                }
                let mut g = ndarray::ArrayD::<u64>::zeros(ndarray::IxDyn(&pshape)).permuted_axes(ndarray::IxDyn(&inv));
                g.assign(&std_arr);
                g
            }
        };
        let logical: Vec<u64> = arr.iter().cloned().collect();
        let t = array_type(shape.iter().map(|d| *d as u64).collect(), st);
        let descr = format!("from_ndarray {} shape {:?} layout {} data {:?}", st_name(st), shape, ["standard", "column-major", "permuted-axes"][layout_kind as usize], logical);
        run.oracle_case(&descr, true);
        run.count(&format!("N:layout:{}", layout_kind));
        let (a2, t2) = (arr.clone(), t.clone());
        let r = catch(move || -> ciphercore_base::errors::Result<Option<Vec<u64>>> {
            match Value::from_ndarray(a2, st) {
                Ok(v) => Ok(Some(v.to_flattened_array_u64(t2)?)),
                Err(_) => Ok(None),
            }
        });
        match r {
            Ok(Ok(Some(got))) => {
                run.count("N:accepted");
                // signed types read back sign-extended: compare modulo 2^bits
                let m: u64 = if bits >= 64 { u64::MAX } else { (1u64 << bits) - 1 };
                if got.len() != logical.len() || got.iter().zip(logical.iter()).any(|(a, b)| a & m != b & m) {
                    run.oracle_fail("C13:from-ndarray:order", format!("{} : accepted, but the value holds {:?}", descr, got));
                }
            }
            Ok(Ok(None)) => {
                run.count("N:rejected");
                if layout_kind == 0 {
                    run.oracle_fail("C13:from-ndarray:standard-rejected", descr.clone());
                }
            }
            Ok(Err(e)) => run.oracle_fail("C13:from-ndarray:readback", format!("{} : {}", descr, e)),
            Err(p) => run.oracle_fail("C13:panic:from-ndarray", format!("{} : {}", descr, p)),
        }
    }
}
